"""Mutant and benign-variant corpus for the checkers (textual edits of smartquery/*.py).

M(id, props, rule, file, old, new)  -> the named property checks must report a violation (by `rule` if given)
B(id, props, file, old, new)        -> the named property checks must stay silent
Several edits per entry: pass a list of (file, old, new) as `edits=`.
"""
CORPUS = []

AST = 'smartquery/ast_ops.py'
FUN = 'smartquery/functions.py'
LEX = 'smartquery/lexer.py'
RUL = 'smartquery/rules.py'
SQP = 'smartquery/sq_parser.py'
SCD = 'smartquery/scoped_dict.py'
VMS = 'smartquery/vm_state.py'


def _norm_props(props):
    return [props] if isinstance(props, str) else list(props)


def M(id, props, rule, file=None, old=None, new=None, edits=None):
    CORPUS.append({'id': 'M/' + id, 'props': _norm_props(props), 'rule': rule, 'expect': 'violation',
                   'edits': edits if edits is not None else [(file, old, new)]})


def B(id, props, file=None, old=None, new=None, edits=None):
    CORPUS.append({'id': 'B/' + id, 'props': _norm_props(props), 'rule': None, 'expect': 'silent',
                   'edits': edits if edits is not None else [(file, old, new)]})


# =============================================================================== C01
CHARGE = "        if state.ops_evaluated >= state.max_ops_evaluated:"
M('c01-gt-for-ge', 'C01', 'C01.R3', AST, CHARGE, "        if state.ops_evaluated > state.max_ops_evaluated:")
M('c01-inc-by-2', 'C01', 'C01.R1', AST, "        state.ops_evaluated += 1\n", "        state.ops_evaluated += 2\n")
M('c01-no-inc', 'C01', 'C01.R1', AST, "        state.ops_evaluated += 1\n", "        pass\n")
M('c01-lambda-not-charged', 'C01', 'C01.R1', AST,
  "        super().eval(state)\n\n        def f(*args):", "        def f(*args):")
M('c01-binop-charge-late', 'C01', 'C01.R1', AST,
  "        super().eval(state)\n\n        op1 = self.op1.eval(state)\n\n        if self.op != 'and'",
  "        op1 = self.op1.eval(state)\n        super().eval(state)\n\n        if self.op != 'and'")
M('c01-ifexpr-conditional-charge', 'C01', 'C01.R1', AST,
  "        super().eval(state)\n\n        cond = self.cond.eval(state)",
  "        if self.cond is not None:\n            super().eval(state)\n\n        cond = self.cond.eval(state)")
M('c01-budget-dropped', 'C01', 'C01.R4', SQP,
  "VMState(names=scoped_names, max_ops_evaluated=max_ops_evaluated)", "VMState(names=scoped_names)")
M('c01-budget-constant', 'C01', 'C01.R4', SQP,
  "VMState(names=scoped_names, max_ops_evaluated=max_ops_evaluated)",
  "VMState(names=scoped_names, max_ops_evaluated=1000)")
M('c01-budget-doubled', 'C01', 'C01.R4', SQP,
  "VMState(names=scoped_names, max_ops_evaluated=max_ops_evaluated)",
  "VMState(names=scoped_names, max_ops_evaluated=max_ops_evaluated * 2)")
M('c01-budget-floor', 'C01', 'C01.R4', SQP,
  "            state = VMState(names=scoped_names, max_ops_evaluated=max_ops_evaluated)",
  "            max_ops_evaluated = max(max_ops_evaluated, 100)\n"
  "            state = VMState(names=scoped_names, max_ops_evaluated=max_ops_evaluated)")
M('c01-state-cached-on-self', 'C01', 'C01.R4', SQP,
  "            state = VMState(names=scoped_names, max_ops_evaluated=max_ops_evaluated)",
  "            if getattr(self, '_state', None) is None:\n"
  "                self._state = VMState(names=scoped_names, max_ops_evaluated=max_ops_evaluated)\n"
  "            state = self._state")
M('c01-counter-reset-in-call', 'C01', 'C01.R5', AST,
  "        return f(*args)", "        state.ops_evaluated = 0\n        return f(*args)")
M('c01-new-node-no-charge', 'C01', 'C01.R1', AST,
  "@dataclass\nclass ValueOp(Op):",
  "@dataclass\nclass PassOp(Op):\n    def eval(self, state: VMState):\n        return None\n\n\n@dataclass\nclass ValueOp(Op):")
M('c01-lambda-memoised', 'C01', 'C01.R6', AST,
  "                return self.expr.eval(state)",
  "                if args in self._memo:\n                    return self._memo[args]\n                return self.expr.eval(state)")
M('c01-counter-read-elsewhere', 'C01', 'C01.R5', AST,
  "        super().eval(state)\n        return self.v",
  "        super().eval(state)\n        if state.ops_evaluated > 50:\n            return None\n        return self.v")
M('c01-budget-bumped', 'C01', 'C01.R5', AST,
  "        super().eval(state)\n        return self.v",
  "        super().eval(state)\n        state.max_ops_evaluated += 1\n        return self.v")
M('c01-raises-plain-parsererror', 'C01', 'C01.R3', AST,
  "            raise OpsExecutionLimitExceededError(f'Ops", "            raise ParserError(f'Ops")
M('c01-charge-in-loop', 'C01', 'C01.R1', AST,
  "        super().eval(state)\n\n        res = None\n        for line in self.lines:\n            res = line.eval(state)",
  "        res = None\n        for line in self.lines:\n            super().eval(state)\n            res = line.eval(state)")
M('c01-double-charge', 'C01', 'C01.R1', AST,
  "        super().eval(state)\n        return self.v", "        super().eval(state)\n        super().eval(state)\n        return self.v")
M('c01-equality-threshold', 'C01', 'C01.R3', AST, CHARGE, "        if state.ops_evaluated == state.max_ops_evaluated + 1:")
M('c01-state-in-global', 'C01', 'C01.R7', AST,
  "        value = self.value.eval(state)\n        state.names[self.name] = copy.deepcopy(value)",
  "        value = self.value.eval(state)\n        state.names['__state__'] = state\n        state.names[self.name] = copy.deepcopy(value)")

B('c01-swapped-le', 'C01', AST, CHARGE, "        if state.max_ops_evaluated <= state.ops_evaluated:")
B('c01-gt-minus-1', 'C01', AST, CHARGE, "        if state.ops_evaluated > state.max_ops_evaluated - 1:")
B('c01-not-lt', 'C01', AST, CHARGE, "        if not state.ops_evaluated < state.max_ops_evaluated:")
B('c01-rename-state', 'C01', AST,
  "    def eval(self, state: VMState):\n        super().eval(state)\n        return self.v",
  "    def eval(self, vm: VMState):\n        super().eval(vm)\n        return self.v")
B('c01-explicit-base-call', 'C01', AST,
  "        super().eval(state)\n        return self.v", "        Op.eval(self, state)\n        return self.v")
B('c01-charge-helper', 'C01', AST,
  "class Op(ABC):\n    def eval(self, state: VMState):\n        state.ops_evaluated += 1\n",
  "class Op(ABC):\n    def eval(self, state: VMState):\n        self._charge(state)\n\n"
  "    def _charge(self, state: VMState):\n        state.ops_evaluated += 1\n")
B('c01-new-node-charging', 'C01', AST,
  "@dataclass\nclass ValueOp(Op):",
  "@dataclass\nclass PassOp(Op):\n    def eval(self, state: VMState):\n        super().eval(state)\n        return None\n\n\n@dataclass\nclass ValueOp(Op):")
B('c01-budget-via-local', 'C01', SQP,
  "            state = VMState(names=scoped_names, max_ops_evaluated=max_ops_evaluated)",
  "            budget = max_ops_evaluated\n            state = VMState(scoped_names, 0, budget)")
B('c01-explicit-increment', 'C01', AST,
  "        state.ops_evaluated += 1\n", "        state.ops_evaluated = state.ops_evaluated + 1\n")
