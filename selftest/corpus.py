"""Mutant and benign-variant corpus for the checkers (textual edits of smartquery/*.py).

M(id, props, rule, file, old, new)  -> the named property checks must report a violation (by `rule` if given)
B(id, props, file, old, new)        -> the named property checks must stay silent
Several edits per entry: pass a list of (file, old, new) as `edits=`.
"""
CORPUS = []

AST = 'smartquery/ast_ops.py'
FUN = 'smartquery/functions.py'
LEX = 'smartquery/lexer.py'
RUL = 'smartquery/rules.py'
SQP = 'smartquery/sq_parser.py'
SCD = 'smartquery/scoped_dict.py'
VMS = 'smartquery/vm_state.py'


def _norm_props(props):
    return [props] if isinstance(props, str) else list(props)


def M(id, props, rule, file=None, old=None, new=None, edits=None):
    CORPUS.append({'id': 'M/' + id, 'props': _norm_props(props), 'rule': rule, 'expect': 'violation',
                   'edits': edits if edits is not None else [(file, old, new)]})


def B(id, props, file=None, old=None, new=None, edits=None):
    CORPUS.append({'id': 'B/' + id, 'props': _norm_props(props), 'rule': None, 'expect': 'silent',
                   'edits': edits if edits is not None else [(file, old, new)]})


# =============================================================================== C01
CHARGE = "        if state.ops_evaluated >= state.max_ops_evaluated:"
M('c01-gt-for-ge', 'C01', 'C01.R3', AST, CHARGE, "        if state.ops_evaluated > state.max_ops_evaluated:")
M('c01-inc-by-2', 'C01', 'C01.R1', AST, "        state.ops_evaluated += 1\n", "        state.ops_evaluated += 2\n")
M('c01-no-inc', 'C01', 'C01.R1', AST, "        state.ops_evaluated += 1\n", "        pass\n")
M('c01-lambda-not-charged', 'C01', 'C01.R1', AST,
  "        super().eval(state)\n\n        def f(*args):", "        def f(*args):")
M('c01-binop-charge-late', 'C01', 'C01.R1', AST,
  "        super().eval(state)\n\n        op1 = self.op1.eval(state)\n\n        if self.op != 'and'",
  "        op1 = self.op1.eval(state)\n        super().eval(state)\n\n        if self.op != 'and'")
M('c01-ifexpr-conditional-charge', 'C01', 'C01.R1', AST,
  "        super().eval(state)\n\n        cond = self.cond.eval(state)",
  "        if self.cond is not None:\n            super().eval(state)\n\n        cond = self.cond.eval(state)")
M('c01-budget-dropped', 'C01', 'C01.R4', SQP,
  "VMState(names=scoped_names, max_ops_evaluated=max_ops_evaluated)", "VMState(names=scoped_names)")
M('c01-budget-constant', 'C01', 'C01.R4', SQP,
  "VMState(names=scoped_names, max_ops_evaluated=max_ops_evaluated)",
  "VMState(names=scoped_names, max_ops_evaluated=1000)")
M('c01-budget-doubled', 'C01', 'C01.R4', SQP,
  "VMState(names=scoped_names, max_ops_evaluated=max_ops_evaluated)",
  "VMState(names=scoped_names, max_ops_evaluated=max_ops_evaluated * 2)")
M('c01-budget-floor', 'C01', 'C01.R4', SQP,
  "            state = VMState(names=scoped_names, max_ops_evaluated=max_ops_evaluated)",
  "            max_ops_evaluated = max(max_ops_evaluated, 100)\n"
  "            state = VMState(names=scoped_names, max_ops_evaluated=max_ops_evaluated)")
M('c01-state-cached-on-self', 'C01', 'C01.R4', SQP,
  "            state = VMState(names=scoped_names, max_ops_evaluated=max_ops_evaluated)",
  "            if getattr(self, '_state', None) is None:\n"
  "                self._state = VMState(names=scoped_names, max_ops_evaluated=max_ops_evaluated)\n"
  "            state = self._state")
M('c01-counter-reset-in-call', 'C01', 'C01.R5', AST,
  "        return f(*args)", "        state.ops_evaluated = 0\n        return f(*args)")
M('c01-new-node-no-charge', 'C01', 'C01.R1', AST,
  "@dataclass\nclass ValueOp(Op):",
  "@dataclass\nclass PassOp(Op):\n    def eval(self, state: VMState):\n        return None\n\n\n@dataclass\nclass ValueOp(Op):")
M('c01-lambda-memoised', 'C01', 'C01.R6', AST,
  "                return self.expr.eval(state)",
  "                if args in self._memo:\n                    return self._memo[args]\n                return self.expr.eval(state)")
M('c01-counter-read-elsewhere', 'C01', 'C01.R5', AST,
  "        super().eval(state)\n        return self.v",
  "        super().eval(state)\n        if state.ops_evaluated > 50:\n            return None\n        return self.v")
M('c01-budget-bumped', 'C01', 'C01.R5', AST,
  "        super().eval(state)\n        return self.v",
  "        super().eval(state)\n        state.max_ops_evaluated += 1\n        return self.v")
M('c01-raises-plain-parsererror', 'C01', 'C01.R3', AST,
  "            raise OpsExecutionLimitExceededError(f'Ops", "            raise ParserError(f'Ops")
M('c01-charge-in-loop', 'C01', 'C01.R1', AST,
  "        super().eval(state)\n\n        res = None\n        for line in self.lines:\n            res = line.eval(state)",
  "        res = None\n        for line in self.lines:\n            super().eval(state)\n            res = line.eval(state)")
M('c01-double-charge', 'C01', 'C01.R1', AST,
  "        super().eval(state)\n        return self.v", "        super().eval(state)\n        super().eval(state)\n        return self.v")
M('c01-equality-threshold', 'C01', 'C01.R3', AST, CHARGE, "        if state.ops_evaluated == state.max_ops_evaluated + 1:")
M('c01-state-in-global', 'C01', 'C01.R7', AST,
  "        value = self.value.eval(state)\n        state.names[self.name] = copy.deepcopy(value)",
  "        value = self.value.eval(state)\n        state.names['__state__'] = state\n        state.names[self.name] = copy.deepcopy(value)")

B('c01-swapped-le', 'C01', AST, CHARGE, "        if state.max_ops_evaluated <= state.ops_evaluated:")
B('c01-gt-minus-1', 'C01', AST, CHARGE, "        if state.ops_evaluated > state.max_ops_evaluated - 1:")
B('c01-not-lt', 'C01', AST, CHARGE, "        if not state.ops_evaluated < state.max_ops_evaluated:")
B('c01-rename-state', 'C01', AST,
  "    def eval(self, state: VMState):\n        super().eval(state)\n        return self.v",
  "    def eval(self, vm: VMState):\n        super().eval(vm)\n        return self.v")
B('c01-explicit-base-call', 'C01', AST,
  "        super().eval(state)\n        return self.v", "        Op.eval(self, state)\n        return self.v")
B('c01-charge-helper', 'C01', AST,
  "class Op(ABC):\n    def eval(self, state: VMState):\n        state.ops_evaluated += 1\n",
  "class Op(ABC):\n    def eval(self, state: VMState):\n        self._charge(state)\n\n"
  "    def _charge(self, state: VMState):\n        state.ops_evaluated += 1\n")
B('c01-new-node-charging', 'C01', AST,
  "@dataclass\nclass ValueOp(Op):",
  "@dataclass\nclass PassOp(Op):\n    def eval(self, state: VMState):\n        super().eval(state)\n        return None\n\n\n@dataclass\nclass ValueOp(Op):")
B('c01-budget-via-local', 'C01', SQP,
  "            state = VMState(names=scoped_names, max_ops_evaluated=max_ops_evaluated)",
  "            budget = max_ops_evaluated\n            state = VMState(scoped_names, 0, budget)")
B('c01-explicit-increment', 'C01', AST,
  "        state.ops_evaluated += 1\n", "        state.ops_evaluated = state.ops_evaluated + 1\n")

# =============================================================================== C09
IFE = "        cond = self.cond.eval(state)\n        return self.op1.eval(state) if cond else self.op2.eval(state)"
M('c09-ifelse-eager', 'C09', 'C09.R1', AST, IFE,
  "        cond = self.cond.eval(state)\n        a = self.op1.eval(state)\n        b = self.op2.eval(state)\n        return a if cond else b")
M('c09-or-eager', 'C09', 'C09.R1', AST, "        if self.op != 'and' and self.op != 'or':", "        if self.op != 'and':")
M('c09-and-bool-result', 'C09', 'C09.R1', AST,
  "            return op1 and self.op2.eval(state)", "            return bool(op1 and self.op2.eval(state))")
M('c09-and-false-result', 'C09', 'C09.R1', AST,
  "            return op1 and self.op2.eval(state)", "            return self.op2.eval(state) if op1 else False")
M('c09-args-reversed', 'C09', 'C09.R1', AST,
  "            arg.eval(state) for arg in self.args\n        ]", "            arg.eval(state) for arg in self.args[::-1]\n        ][::-1]")
M('c09-unary-twice', 'C09', 'C09.R1', AST, "            return -op1", "            return -self.op1.eval(state)")
M('c09-dict-value-first', 'C09', 'C09.R1', AST,
  "        return {\n            _dict_key_cast(k.eval(state)): v.eval(state) for k, v in self.d\n        }",
  "        res = {}\n        for k, v in self.d:\n            val = v.eval(state)\n            res[_dict_key_cast(k.eval(state))] = val\n        return res")
M('c09-slice-stop-first', 'C09', 'C09.R2', AST,
  "        return slice(\n            safe_cast(self.start.eval(state), int),\n            safe_cast(self.stop.eval(state), int),",
  "        stop = safe_cast(self.stop.eval(state), int)\n        return slice(\n            safe_cast(self.start.eval(state), int),\n            stop,")
M('c09-binop-template-swapped', 'C09', 'C09.R2', RUL, "        p[0] = BinOp(p[2], p[1], p[3])", "        p[0] = BinOp(p[2], p[3], p[1])")
M('c09-ifexpr-template-swapped', 'C09', 'C09.R1', RUL, "IfExprOp(cond=p[3], op1=p[1], op2=p[5])", "IfExprOp(cond=p[1], op1=p[3], op2=p[5])")
M('c09-arglist-reversed', 'C09', 'C09.R2', RUL, "        p[0] = p[1] + [p[3]]\n    else:\n        p[0] = [p[1]]\n\n\ndef p_arglist_def",
  "        p[0] = [p[3]] + p[1]\n    else:\n        p[0] = [p[1]]\n\n\ndef p_arglist_def")
M('c09-setitem-args-order', 'C09', 'C09.R2', RUL, "args=[p[1], p[3], p[6]])", "args=[p[1], p[6], p[3]])")
M('c09-code-reversed', 'C09', 'C09.R1', AST, "        for line in self.lines:", "        for line in reversed(self.lines):")
M('c09-code-insert-front', 'C09', 'C09.R2', RUL, "p.lexer.ast.lines.append(p[3])", "p.lexer.ast.lines.insert(0, p[3])")
M('c09-cond-twice', 'C09', 'C09.R1', AST, IFE,
  "        cond = self.cond.eval(state)\n        return self.op1.eval(state) if self.cond.eval(state) else self.op2.eval(state)")
M('c09-assign-skips-value', 'C09', 'C09.R1', AST,
  "        value = self.value.eval(state)\n        state.names[self.name] = copy.deepcopy(value)",
  "        value = self.value.eval(state) if self.name != '_' else None\n        state.names[self.name] = copy.deepcopy(value)")

B('c09-ifelse-statement-form', 'C09', AST, IFE,
  "        cond = self.cond.eval(state)\n        if cond:\n            return self.op1.eval(state)\n        return self.op2.eval(state)")
B('c09-and-early-return', 'C09', AST,
  "            return op1 and self.op2.eval(state)", "            if not op1:\n                return op1\n            return self.op2.eval(state)")
B('c09-rhs-helper', 'C09', edits=[
  (AST, "            op2 = self.op2.eval(state)\n        else:\n            op2 = None\n",
        "            op2 = self._rhs(state)\n        else:\n            op2 = None\n"),
  (AST, "    op: str\n    op1: Op\n    op2: Op\n\n    def eval(self, state: VMState):\n        super().eval(state)\n\n        op1 = self.op1.eval(state)",
        "    op: str\n    op1: Op\n    op2: Op\n\n    def _rhs(self, state: VMState):\n        return self.op2.eval(state)\n\n    def eval(self, state: VMState):\n        super().eval(state)\n\n        op1 = self.op1.eval(state)"),
])
B('c09-args-loop', 'C09', AST,
  "        args = [\n            arg.eval(state) for arg in self.args\n        ]",
  "        args = []\n        for arg in self.args:\n            args.append(arg.eval(state))")
B('c09-slice-locals', 'C09', AST,
  "        return slice(\n            safe_cast(self.start.eval(state), int),\n            safe_cast(self.stop.eval(state), int),\n            safe_cast(self.step.eval(state), int),\n        )",
  "        a = safe_cast(self.start.eval(state), int)\n        b = safe_cast(self.stop.eval(state), int)\n        c = safe_cast(self.step.eval(state), int)\n        return slice(a, b, c)")

# =============================================================================== C12
ASG = "        state.names[self.name] = copy.deepcopy(value)"
M('c12-assign-no-deepcopy', 'C12', 'C12.R1', AST, ASG, "        state.names[self.name] = value")
M('c12-setitem-no-deepcopy', 'C12', 'C12.R1', FUN, "    container[key] = copy.deepcopy(value)", "    container[key] = value")
M('c12-assign-shallow-copy', 'C12', 'C12.R1', AST, ASG, "        state.names[self.name] = copy.copy(value)")
M('c12-setitem-list-copy', 'C12', 'C12.R1', FUN, "    container[key] = copy.deepcopy(value)",
  "    container[key] = list(value) if isinstance(value, list) else value")
M('c12-shortop-no-deepcopy', 'C12', 'C12.R1', AST,
  "        value = copy.deepcopy(self.value.eval(state))", "        value = self.value.eval(state)")
M('c12-setwithop-no-deepcopy', 'C12', 'C12.R1', FUN,
  "    key = _key_cast(container, key)\n    result = value\n    value = copy.deepcopy(value)\n", "    key = _key_cast(container, key)\n    result = value\n")
M('c12-setwithop-returns-spliced-copy', 'C12', 'C12.R2', FUN, "    return result\n\n\ndef _map", "    return value\n\n\ndef _map")     # K14 re-introduced
M('c12-setitem-returns-stored-copy', 'C12', 'C12.R2', FUN, "    container[key] = copy.deepcopy(value)\n    return value",
  "    value = copy.deepcopy(value)\n    container[key] = value\n    return value")
M('c12-assign-copy-one-branch', 'C12', 'C12.R1', AST, ASG,
  "        state.names[self.name] = copy.deepcopy(value) if isinstance(value, dict) else value")
M('c12-setitem-second-store', 'C12', None, FUN, "    container[key] = copy.deepcopy(value)\n    return value",
  "    container[key] = copy.deepcopy(value)\n    container['_last'] = value\n    return value")
M('c12-shortop-plus-raw', 'C12', 'C12.R1', AST,
  "        value = copy.deepcopy(self.value.eval(state))\n\n        try:\n            if self.op == '+=':\n                state.names[self.name] += value",
  "        raw = self.value.eval(state)\n        value = copy.deepcopy(raw)\n\n        try:\n            if self.op == '+=':\n                state.names[self.name] += raw")
M('c12-same-copy-twice', 'C12', 'C12.R2', AST, ASG,
  "        c = copy.deepcopy(value)\n        state.names[self.name] = c\n        state.names['_'] = c")

B('c12-from-import-deepcopy', 'C12', edits=[
  (AST, "import copy\n", "import copy\nfrom copy import deepcopy\n"),
  (AST, ASG, "        state.names[self.name] = deepcopy(value)")])
B('c12-clone-alias', 'C12', edits=[
  (FUN, "REGEX_TIMEOUT = 0.05\n", "REGEX_TIMEOUT = 0.05\n_clone = copy.deepcopy\n"),
  (FUN, "    container[key] = copy.deepcopy(value)", "    container[key] = _clone(value)")])
B('c12-copy-at-evaluation', 'C12', AST,
  "        value = self.value.eval(state)\n        state.names[self.name] = copy.deepcopy(value)",
  "        value = copy.deepcopy(self.value.eval(state))\n        state.names[self.name] = value")

# =============================================================================== C17
PARSE_STORE = "                self.parse_cache[expr] = ast\n"
M('c17-key-stripped', 'C17', 'C17.R1', SQP, PARSE_STORE, "                self.parse_cache[expr.strip()] = ast\n")
M('c17-lookup-stripped', 'C17', 'C17.R1', SQP,
  "        if self.parse_cache is None or expr not in self.parse_cache:", "        if self.parse_cache is None or expr.strip() not in self.parse_cache:")
M('c17-store-in-finally', 'C17', 'C17.R2', SQP,
  "            self.yacc.parse(input=expr, lexer=self.lex)\n\n            ast = cast(Op, self.lex.ast)\n\n            if self.parse_cache is not None:\n                self.parse_cache[expr] = ast\n",
  "            try:\n                self.yacc.parse(input=expr, lexer=self.lex)\n            finally:\n                ast = cast(Op, self.lex.ast)\n                if self.parse_cache is not None:\n                    self.parse_cache[expr] = ast\n")
M('c17-miss-rereads-cache', 'C17', 'C17.R2', SQP,
  "                self.parse_cache[expr] = ast\n\n            return ast",
  "                self.parse_cache[expr] = ast\n                return self.parse_cache[expr]\n\n            return ast")
M('c17-codeop-pops-lines', 'C17', 'C17.R4', AST,
  "        for line in self.lines:\n            res = line.eval(state)",
  "        while self.lines:\n            res = self.lines.pop(0).eval(state)")
M('c17-callop-stores-on-self', 'C17', 'C17.R4', AST,
  "        try:\n            f = state.names[self.name]\n        except LookupError:\n            raise ParserError(f'Undefined function {self.name}')",
  "        self.last_args = args\n        try:\n            f = state.names[self.name]\n        except LookupError:\n            raise ParserError(f'Undefined function {self.name}')")
M('c17-literal-owns-list', 'C17', 'C17.R5', RUL,
  "    if len(p) == 3:\n        p[0] = CallOp(name='list', args=[])", "    if len(p) == 3:\n        p[0] = ValueOp([])")
M('c17-eval-key-depends-on-cache', 'C17', 'C17.R1', SQP,
  "        ast = self.parse(expr=expr.rstrip())", "        ast = self.parse(expr=expr.rstrip() if self.parse_cache is None else expr)")
M('c17-placeholder-before-parse', 'C17', 'C17.R2', SQP,
  "            self.lex.ast = None\n            self.yacc.parse(input=expr, lexer=self.lex)",
  "            self.lex.ast = None\n            if self.parse_cache is not None:\n                self.parse_cache[expr] = None\n            self.yacc.parse(input=expr, lexer=self.lex)")
M('c17-tree-touched-after-parse', 'C17', 'C17.R6', SQP,
  "            ast = cast(Op, self.lex.ast)\n", "            ast = cast(Op, self.lex.ast)\n            self.lex.ast.lines.reverse()\n")
M('c17-callop-hands-own-list', 'C17', 'C17.R4', AST,
  "        return f(*args)", "        return f(*args) if args else f(self.args)")
M('c17-hit-returns-other', 'C17', 'C17.R2', SQP, "            return self.parse_cache[expr]", "            return self.parse_cache[expr.strip()]")

B('c17-local-alias', 'C17', edits=[
  (SQP, "        if self.parse_cache is None or expr not in self.parse_cache:", "        cache = self.parse_cache\n        if cache is None or expr not in cache:"),
  (SQP, "            if self.parse_cache is not None:\n                self.parse_cache[expr] = ast", "            if cache is not None:\n                cache[expr] = ast"),
  (SQP, "            return self.parse_cache[expr]", "            return cache[expr]")])
B('c17-get-idiom', 'C17', edits=[
  (SQP, "        if self.parse_cache is None or expr not in self.parse_cache:\n", "        cached = self.parse_cache.get(expr) if self.parse_cache is not None else None\n        if cached is None:\n"),
  (SQP, "            return self.parse_cache[expr]", "            return cached")])

# =============================================================================== C10
MKS = "        self.push_scope(scope)\n        try:\n            yield self\n        finally:\n            self.pop_scope()"
M('c10-scope-not-popped-on-raise', 'C10', 'C10.R2', SCD, MKS, "        self.push_scope(scope)\n        yield self\n        self.pop_scope()")
M('c10-lookup-forward', 'C10', 'C10.R1', SCD, "        for scope in reversed(self.scopes):", "        for scope in self.scopes:")
M('c10-write-to-defining-scope', 'C10', 'C10.R1', SCD, "        self.scopes[-1][key] = value",
  "        for scope in reversed(self.scopes):\n            if key in scope:\n                scope[key] = value\n                return\n        self.scopes[-1][key] = value")
M('c10-functions-not-copied', 'C10', 'C10.R3', SQP, "ScopedDict({**FUNCTIONS})", "ScopedDict(FUNCTIONS)")
M('c10-host-below-builtins', 'C10', 'C10.R3', SQP,
  "        scoped_names = ScopedDict({**FUNCTIONS})\n        scoped_names.push_scope(names if names is not None else {})",
  "        scoped_names = ScopedDict(names if names is not None else {})\n        scoped_names.push_scope({**FUNCTIONS})")
M('c10-host-names-copied', 'C10', 'C10.R3', SQP, "push_scope(names if names is not None else {})", "push_scope(dict(names) if names is not None else {})")
M('c10-names-or-empty', 'C10', 'C10.R3', SQP, "push_scope(names if names is not None else {})", "push_scope(names or {})")
M('c10-lambda-params-in-top-scope', 'C10', 'C10.R5', AST,
  "            with state.names.make_scope({\n                k.name: v for k, v in zip(self.args, args)\n            }):\n                return self.expr.eval(state)",
  "            for k, v in zip(self.args, args):\n                state.names[k.name] = v\n            return self.expr.eval(state)")
M('c10-functions-registered', 'C10', 'C10.R4', FUN, "FUNCTIONS: Dict[str, Callable] = {",
  "def register(name, f):\n    FUNCTIONS[name] = f\n\n\nFUNCTIONS: Dict[str, Callable] = {")
M('c10-missing-raises-nameerror', 'C10', 'C10.R1', SCD, "        raise KeyError(str(item))", "        raise NameError(str(item))")
M('c10-pop-conditional', 'C10', 'C10.R2', SCD, "        finally:\n            self.pop_scope()", "        finally:\n            if scope:\n                self.pop_scope()")
M('c10-pop-in-except-only', 'C10', 'C10.R2', SCD, "        finally:\n            self.pop_scope()", "        except Exception:\n            self.pop_scope()\n            raise")
M('c10-make-scope-not-with', 'C10', None, AST,
  "            with state.names.make_scope({\n                k.name: v for k, v in zip(self.args, args)\n            }):\n                return self.expr.eval(state)",
  "            state.names.make_scope({\n                k.name: v for k, v in zip(self.args, args)\n            })\n            return self.expr.eval(state)")

B('c10-dict-copy', 'C10', SQP, "ScopedDict({**FUNCTIONS})", "ScopedDict(dict(FUNCTIONS))")
B('c10-copy-method', 'C10', SQP, "ScopedDict({**FUNCTIONS})", "ScopedDict(FUNCTIONS.copy())")
B('c10-lambda-try-finally', 'C10', AST,
  "            with state.names.make_scope({\n                k.name: v for k, v in zip(self.args, args)\n            }):\n                return self.expr.eval(state)",
  "            state.names.push_scope({k.name: v for k, v in zip(self.args, args)})\n            try:\n                return self.expr.eval(state)\n            finally:\n                state.names.pop_scope()")
B('c10-lookup-slice-reversed', 'C10', SCD, "        for scope in reversed(self.scopes):", "        for scope in self.scopes[::-1]:")
B('c10-lookup-index-down', 'C10', SCD,
  "        for scope in reversed(self.scopes):\n            if item in scope:\n                return scope[item]",
  "        for i in range(len(self.scopes) - 1, -1, -1):\n            if item in self.scopes[i]:\n                return self.scopes[i][item]")

# =============================================================================== C11
M('c11-parse-no-paren-reset', 'C11', 'C11.R2', SQP,
  "            self.lex.lineno = 1\n            self.lex.paren_count = 0\n\n            self.lex.ast = None", "            self.lex.lineno = 1\n\n            self.lex.ast = None")
M('c11-listnames-no-lineno-reset', 'C11', 'C11.R2', SQP,
  "        self.lex.lexpos = 0\n        self.lex.lineno = 1\n        self.lex.paren_count = 0\n\n        self.lex.input(expr)",
  "        self.lex.lexpos = 0\n        self.lex.paren_count = 0\n\n        self.lex.input(expr)")
M('c11-ast-not-cleared', 'C11', 'C11.R2', SQP, "            self.lex.ast = None\n", "")
M('c11-new-lexer-counter', 'C11', 'C11.R2', edits=[
  (SQP, "        self.yacc = yacc.yacc(", "        self.lex.stmt_count = 0\n\n        self.yacc = yacc.yacc("),
  (LEX, "    if t.value == ';' or t.lexer.paren_count == 0:\n        return t", "    if t.value == ';' or t.lexer.paren_count == 0:\n        t.lexer.stmt_count += 1\n        if t.lexer.stmt_count > 1000:\n            raise ParserError('too many statements')\n        return t")])
M('c11-scopes-cached-on-parser', 'C11', None, SQP,
  "        scoped_names = ScopedDict({**FUNCTIONS})\n",
  "        if not hasattr(self, '_scoped'):\n            self._scoped = ScopedDict({**FUNCTIONS})\n        scoped_names = self._scoped\n")
M('c11-last-result-on-parser', 'C11', None, SQP,
  "            return ast.eval(state)", "            self.last_result = ast.eval(state)\n            return self.last_result")
M('c11-mutable-default-accumulates', 'C11', 'C11.R1', FUN,
  "def _join(container: list, sep='\\n'):\n    return sep.join(map(str, container))",
  "def _join(container: list, sep='\\n', _acc=[]):\n    _acc.extend(container)\n    return sep.join(map(str, _acc))")
M('c11-global-counter', 'C11', 'C11.R1', FUN,
  "def _enumerate(container: Any) -> list:\n    return list(enumerate(container))",
  "_CALLS = 0\n\n\ndef _enumerate(container: Any) -> list:\n    global _CALLS\n    _CALLS += 1\n    return list(enumerate(container, _CALLS))")
M('c11-reset-to-previous', 'C11', 'C11.R2', SQP,
  "            self.lex.lineno = 1\n            self.lex.paren_count = 0\n\n            self.lex.ast = None",
  "            self.lex.lineno = 1\n            self.lex.paren_count = max(self.lex.paren_count, 0)\n\n            self.lex.ast = None")
M('c11-lexes-stale-text', 'C11', 'C11.R2', SQP,
  "        self.lex.input(expr)\n\n        while True:", "        if expr:\n            self.lex.input(expr)\n\n        while True:")

B('c11-reset-helper', 'C11', edits=[
  (SQP, "    def list_names(self, expr: str) -> Iterable[str]:\n        self.lex.lexpos = 0\n        self.lex.lineno = 1\n        self.lex.paren_count = 0\n",
        "    def _reset(self):\n        self.lex.lexpos = 0\n        self.lex.lineno = 1\n        self.lex.paren_count = 0\n\n    def list_names(self, expr: str) -> Iterable[str]:\n        self._reset()\n"),
  (SQP, "            self.lex.lexpos = 0\n            self.lex.lineno = 1\n            self.lex.paren_count = 0\n\n            self.lex.ast = None",
        "            self._reset()\n\n            self.lex.ast = None")])
B('c11-input-before-resets', 'C11', SQP,
  "        self.lex.lexpos = 0\n        self.lex.lineno = 1\n        self.lex.paren_count = 0\n\n        self.lex.input(expr)",
  "        self.lex.input(expr)\n        self.lex.lineno = 1\n        self.lex.paren_count = 0")


# =============================================================================== C16
M('c16-perror-none-deref', 'C16', 'C16.R1', RUL,
  "    if p is None:\n        raise ParserError('Syntax error: unexpected end of input')\n\n", "")
M('c16-perror-returns', 'C16', 'C16.R1', RUL,
  "    if p is None:\n        raise ParserError('Syntax error: unexpected end of input')", "    if p is None:\n        return")
M('c16-perror-valueerror', 'C16', 'C16.R1', RUL,
  "    if p is None:\n        raise ParserError('Syntax error: unexpected end of input')", "    if p is None:\n        raise ValueError('unexpected end of input')")
M('c16-terror-skips', 'C16', 'C16.R2', LEX, "    raise ParserError(f'Illegal character {t.value[0]}')", "    t.lexer.skip(1)")
M('c16-reserved-word-accepted', 'C16', 'C16.R3', RUL, "    raise ParserError(f'{p[1]} is reserved keyword')", "    p[0] = NoOp()")
M('c16-reserved-word-syntaxerror', 'C16', 'C16.R3', RUL, "    raise ParserError(f'{p[1]} is reserved keyword')", "    raise SyntaxError(f'{p[1]} is reserved keyword')")
M('c16-shortop-unguarded', 'C16', 'C16.R4', AST, "        except LookupError:\n            raise ParserError(f'Undefined variable {self.name}')\n\n        return None",
  "        except ZeroDivisionError:\n            raise ParserError(f'Division by zero in {self.name}')\n\n        return None")
M('c16-nameop-keyerror-only-reraise', 'C16', 'C16.R4', AST,
  "        except LookupError:\n            raise ParserError(f'Undefined variable {self.name}')\n\n        return value", "        except LookupError:\n            raise\n\n        return value")
M('c16-callop-swallows-lookup', 'C16', 'C16.R4', AST,
  "        except LookupError:\n            raise ParserError(f'Undefined function {self.name}')", "        except LookupError:\n            return None")
M('c16-getitem-unguarded', 'C16', 'C16.R5', FUN,
  "    try:\n        return container[key]\n    except LookupError:\n        raise ParserError(f'Key error \\'{key}\\'')", "    return container[key]")
M('c16-getitem-keyerror-only', 'C16', 'C16.R5', FUN,
  "    try:\n        return container[key]\n    except LookupError:", "    try:\n        return container[key]\n    except KeyError:")
M('c16-pop-unguarded', 'C16', 'C16.R5', FUN,
  "    try:\n        return arr.pop(int(i)) if i is not None else arr.pop()\n    except IndexError as e:\n        raise ParserError(str(e))",
  "    return arr.pop(int(i)) if i is not None else arr.pop()")
M('c16-setwithop-unguarded', 'C16', 'C16.R5', FUN, "    except LookupError:\n        raise ParserError(f'Key error \\'{key}\\'')\n\n    return result", "    finally:\n        pass\n\n    return result")
M('c16-sizecap-valueerror', 'C16', 'C16.R6', FUN, "        raise ParserError(f'Array size overflow: {MAX_ARRAY_SIZE}')", "        raise ValueError(f'Array size overflow: {MAX_ARRAY_SIZE}')")
M('c16-ops-limit-systemexit', 'C16', None, AST, "            raise OpsExecutionLimitExceededError(f'Ops", "            raise SystemExit(f'Ops")
M('c16-parsererror-baseexception', 'C16', 'C16.R7', 'smartquery/exceptions.py', "class ParserError(Exception):", "class ParserError(BaseException):")
M('c16-sys-exit-on-limit', 'C16', 'C16.R7', edits=[
  (FUN, "import random\n", "import random\nimport sys\n"),
  (FUN, "        raise ParserError(f'Array size overflow: {MAX_ARRAY_SIZE}')", "        sys.exit(f'Array size overflow: {MAX_ARRAY_SIZE}')")])

B('c16-perror-isnot-none', 'C16', RUL,
  "    if p is None:\n        raise ParserError('Syntax error: unexpected end of input')\n\n    raise ParserError(f'Syntax error: {p.value} at line {p.lineno}')",
  "    if p is not None:\n        raise ParserError(f'Syntax error: {p.value} at line {p.lineno}')\n    raise ParserError('Syntax error: unexpected end of input')")
B('c16-nameop-keyerror', 'C16', AST,
  "        except LookupError:\n            raise ParserError(f'Undefined variable {self.name}')\n\n        return value", "        except KeyError:\n            raise ParserError(f'Undefined variable {self.name}')\n\n        return value")
B('c16-getitem-two-classes', 'C16', FUN,
  "    try:\n        return container[key]\n    except LookupError:", "    try:\n        return container[key]\n    except (KeyError, IndexError):")
B('c16-pop-catches-lookuperror', 'C16', FUN, "    except IndexError as e:\n        raise ParserError(str(e))\n\n\ndef _sorted", "    except LookupError as e:\n        raise ParserError(str(e))\n\n\ndef _sorted")

# =============================================================================== C18
LN_FILTER = "            if t.type == 'NAME':\n                yield t.value"
M('c18-filter-extra-type', 'C18', 'C18.R1', SQP, LN_FILTER, "            if t.type in ('NAME', 'STRING'):\n                yield t.value")
M('c18-yield-stripped', 'C18', 'C18.R1', SQP, LN_FILTER, "            if t.type == 'NAME':\n                yield t.value.strip('%')")
M('c18-extra-filter', 'C18', 'C18.R1', SQP, LN_FILTER, "            if t.type == 'NAME' and not t.value.startswith('%'):\n                yield t.value")
M('c18-early-exit-on-newline', 'C18', 'C18.R1', SQP, LN_FILTER, "            if t.type == 'NEWLINE':\n                return\n            if t.type == 'NAME':\n                yield t.value")
M('c18-filter-wrong-type', 'C18', 'C18.R1', SQP, LN_FILTER, "            if t.type != 'STRING':\n                yield t.value")
M('c18-synthesised-name', 'C18', 'C18.R3', RUL, "        p[0] = CallOp(p[3], args=[p[1]])", "        p[0] = CallOp('call', args=[p[1], ValueOp(p[3])])")
M('c18-string-as-name', 'C18', 'C18.R3', RUL, '    """ expression : STRING """\n    p[0] = ValueOp(p[1])', '    """ expression : STRING """\n    p[0] = NameOp(p[1])')
M('c18-lookup-lowercased', 'C18', 'C18.R4', AST, "            value = state.names[self.name]", "            value = state.names[self.name.lower()]")
M('c18-lookup-constant', 'C18', 'C18.R4', AST, "            f = state.names[self.name]", "            f = state.names[self.name] if self.args else state.names['call0']")
M('c18-name-rule-before-string', 'C18', 'C18.R2', edits=[
  (LEX, "# vars with %% can contain dots in name\n# others - cant\ndef t_NAME(t):\n    r\"\"\" (%.*?%) | ([^\\W\\d][\\w0-9_]*([\\w_][\\w0-9_]*)*) \"\"\"\n    t.type = reserved.get(t.value, 'NAME')\n    return t\n\n\n", ""),
  (LEX, "def t_STRING(t):", "def t_NAME(t):\n    r\"\"\" (%.*?%) | ([^\\W\\d][\\w0-9_]*([\\w_][\\w0-9_]*)*) \"\"\"\n    t.type = reserved.get(t.value, 'NAME')\n    return t\n\n\ndef t_STRING(t):")])
M('c18-comment-returns-token', 'C18', 'C18.R2', LEX, '    r""" \\043.* """\n    return None', '    r""" \\043.* """\n    return t')

B('c18-break-on-none', 'C18', SQP, "            if t is None:\n                return\n            if t.type == 'NAME':", "            if t is None:\n                break\n            if t.type == 'NAME':")
B('c18-local-name', 'C18', SQP, LN_FILTER, "            if t.type == 'NAME':\n                name = t.value\n                yield name")
B('c18-inverted-test', 'C18', SQP, LN_FILTER, "            if t.type != 'NAME':\n                continue\n            yield t.value")

# =============================================================================== C13
M('c13-shuffle-in-place', 'C13', 'C13.R1', FUN, "    copied = copy.copy(container)\n    random.shuffle(copied)\n    return copied", "    random.shuffle(container)\n    return container")
M('c13-sorted-in-place', 'C13', 'C13.R1', FUN, "        return list(sorted(container, key=key, reverse=reverse))", "        container.sort(key=key, reverse=reverse)\n        return container")
M('c13-reversed-in-place', 'C13', 'C13.R1', FUN, "        return list(reversed(container))", "        container.reverse()\n        return list(container)")
M('c13-get-pops', 'C13', 'C13.R1', FUN, "    return container.get(key, default)", "    return container.pop(key, default)")
M('c13-pretty-sorts-dict', 'C13', 'C13.R1', FUN,
  "        return sep.join([f'{k}: {v}' for k, v in value.items()])",
  "        for k in sorted(value):\n            value[k] = value.pop(k)\n        return sep.join([f'{k}: {v}' for k, v in value.items()])")
M('c13-sum-drains', 'C13', 'C13.R1', FUN, "        return sum(value)", "        total = 0\n        while value:\n            total += value.pop()\n        return total")
M('c13-map-writes-back', 'C13', 'C13.R1', FUN,
  "        return [\n            f(v) for v in container\n        ]", "        for i, v in enumerate(container):\n            container[i] = f(v)\n        return container")
M('c13-keys-via-helper-mutation', 'C13', 'C13.R1', FUN, "def keys(value: Any) -> list:\n    return list(value.keys())",
  "def _norm(d):\n    d.setdefault('_', None)\n    return d\n\n\ndef keys(value: Any) -> list:\n    return list(_norm(value).keys())")
M('c13-raw-list-sort-entry', 'C13', 'C13.R1', FUN, "    'sorted': _sorted,", "    'sorted': _sorted,\n    'sort': list.sort,")
M('c13-enumerate-appends', 'C13', 'C13.R1', FUN, "    return list(enumerate(container))", "    container += []\n    return list(enumerate(container))")

B('c13-mutate-local-copy', 'C13', FUN, "        return list(reversed(container))", "        out = list(container)\n        out.reverse()\n        return out")
B('c13-build-with-append', 'C13', FUN, "    return list(value.keys())", "    out = []\n    for k in value:\n        out.append(k)\n    return out")
B('c13-sorted-copy-sort', 'C13', FUN, "        return list(sorted(container, key=key, reverse=reverse))", "        out = list(container)\n        out.sort(key=key, reverse=reverse)\n        return out")
B('c13-new-pure-entry', 'C13', FUN, "    'lower': str.lower,", "    'lower': str.lower,\n    'capitalize': str.capitalize,")

# =============================================================================== C14
M('c14-get-raw-key', 'C14', 'C14.R1', FUN, "    key = _key_cast(container, key)\n    return container.get(key, default)", "    return container.get(key, default)")
M('c14-del-raw-key', 'C14', 'C14.R1', FUN, "def _del(container: Any, key: Any) -> Any:\n    key = _key_cast(container, key)\n", "def _del(container: Any, key: Any) -> Any:\n    key = _list_key_cast(key)\n")
M('c14-set-repr-key', 'C14', 'C14.R1', FUN, "    key = _key_cast(container, key)\n\n    container[key] = copy.deepcopy(value)", "    key = repr(key) if isinstance(container, dict) else _list_key_cast(key)\n\n    container[key] = copy.deepcopy(value)")
M('c14-literal-raw-key', 'C14', 'C14.R1', AST, "            _dict_key_cast(k.eval(state)): v.eval(state) for k, v in self.d", "            k.eval(state): v.eval(state) for k, v in self.d")
M('c14-index-rounds', 'C14', None, FUN, "    if isinstance(key, Decimal_):\n        return int(key)\n\n    return key\n\n\ndef _dict_key_cast", "    if isinstance(key, Decimal_):\n        return round(key)\n\n    return key\n\n\ndef _dict_key_cast")
M('c14-insert-rounds', 'C14', 'C14.R2', FUN, "    return arr.insert(int(i), v)", "    return arr.insert(round(i), v)")
M('c14-pop-floor', 'C14', 'C14.R2', FUN, "        return arr.pop(int(i)) if i is not None else arr.pop()", "        return arr.pop(math.floor(i)) if i is not None else arr.pop()")
M('c14-getitem-unguarded', 'C14', 'C14.R3', FUN, "    try:\n        return container[key]\n    except LookupError:\n        raise ParserError(f'Key error \\'{key}\\'')", "    return container[key]")
M('c14-setwithop-raw-key', 'C14', 'C14.R1', FUN, "    _check_array_size(container)\n\n    key = _key_cast(container, key)\n    result = value\n    value = copy.deepcopy(value)", "    _check_array_size(container)\n\n    result = value\n    value = copy.deepcopy(value)")
M('c14-getitem-caches-into-container', 'C14', 'C14.R3', FUN, "    key = _key_cast(container, key)\n\n    try:\n        return container[key]", "    key = _key_cast(container, key)\n    if isinstance(container, dict):\n        container.setdefault('_last', key)\n\n    try:\n        return container[key]")

B('c14-inline-cast', 'C14', FUN, "    key = _key_cast(container, key)\n    return container.get(key, default)",
  "    key = str(key) if isinstance(container, dict) else (int(key) if isinstance(key, Decimal_) else key)\n    return container.get(key, default)")
B('c14-cast-at-use', 'C14', FUN, "    key = _key_cast(container, key)\n\n    try:\n        return container[key]", "    try:\n        return container[_key_cast(container, key)]")

# =============================================================================== C03
M('c03-insert-no-check', 'C03', 'C03.R2', FUN, "    _check_array_size(arr)\n    return arr.insert(int(i), v)", "    return arr.insert(int(i), v)")
M('c03-push-check-wrong-object', 'C03', 'C03.R2', FUN, "    _check_array_size(arr)\n    return arr.append(v)", "    _check_array_size(v)\n    return arr.append(v)")
M('c03-push-check-after', 'C03', 'C03.R2', FUN, "    _check_array_size(arr)\n    return arr.append(v)", "    arr.append(v)\n    _check_array_size(arr)")
M('c03-guard-gt', 'C03', None, FUN, "    if len(arr) >= MAX_ARRAY_SIZE:", "    if len(arr) > MAX_ARRAY_SIZE:")
M('c03-cap-raised', 'C03', None, FUN, "MAX_ARRAY_SIZE = 10000", "MAX_ARRAY_SIZE = 100000")
M('c03-new-extend-builtin', 'C03', None, FUN, "    'push': _push,", "    'push': _push,\n    'extend': lambda a, b: a.extend(b),")
M('c03-new-repeat-builtin', 'C03', 'C03.R3', FUN, "    'push': _push,", "    'push': _push,\n    'repeat': lambda s, n: s * int(n),")
M('c03-push-as-iadd', 'C03', 'C03.R2', FUN, "    _check_array_size(arr)\n    return arr.append(v)", "    arr += [v]")
M('c03-guard-swallowed', 'C03', None, FUN, "    _check_array_size(arr)\n    return arr.append(v)", "    try:\n        _check_array_size(arr)\n    except ParserError:\n        pass\n    return arr.append(v)")
M('c03-new-range-builtin', 'C03', 'C03.R3', FUN, "    'push': _push,", "    'push': _push,\n    'range': lambda n: list(range(int(n))),")
M('c03-set-no-check', 'C03', 'C03.R2', FUN, "def _set(container: Any, key: Any, value: Any) -> Any:\n    _check_array_size(container)\n", "def _set(container: Any, key: Any, value: Any) -> Any:\n")
M('c03-new-concat-builtin', 'C03', 'C03.R3', FUN, "    'push': _push,", "    'push': _push,\n    'concat': lambda a, b: a + b,")
M('c03-guard-only-lists', 'C03', 'C03.R2', FUN, "def _set(container: Any, key: Any, value: Any) -> Any:\n    _check_array_size(container)\n",
  "def _set(container: Any, key: Any, value: Any) -> Any:\n    if isinstance(container, list):\n        _check_array_size(container)\n")
M('c03-new-ljust-builtin', 'C03', 'C03.R3', FUN, "    'lower': str.lower,", "    'lower': str.lower,\n    'ljust': str.ljust,")

B('c03-inline-guard', 'C03', FUN, "    _check_array_size(arr)\n    return arr.append(v)", "    if len(arr) >= MAX_ARRAY_SIZE:\n        raise ParserError(f'Array size overflow: {MAX_ARRAY_SIZE}')\n    return arr.append(v)")
B('c03-guard-wrapper', 'C03', edits=[
  (FUN, "def _push(arr: list, v: Any):\n    _check_array_size(arr)\n    return arr.append(v)", "def _guarded(arr):\n    _check_array_size(arr)\n    return arr\n\n\ndef _push(arr: list, v: Any):\n    return _guarded(arr).append(v)")])
B('c03-guard-not-lt', 'C03', FUN, "    if len(arr) >= MAX_ARRAY_SIZE:", "    if not len(arr) < MAX_ARRAY_SIZE:")
B('c03-guard-literal', 'C03', FUN, "    if len(arr) >= MAX_ARRAY_SIZE:", "    if len(arr) > 9999:")

# =============================================================================== C04
M('c04-power-native', 'C04', 'C04.R1', AST, "            return Decimal(op1) ** Decimal(op2)", "            return op1 ** op2")
M('c04-times-left-uncast', 'C04', 'C04.R1', AST, "            return Decimal(op1) * Decimal(op2)", "            return op1 * Decimal(op2)")
M('c04-times-no-guard', 'C04', 'C04.R1', AST,
  "            if not isinstance(op1, NUMERIC_TYPES) or not isinstance(op2, NUMERIC_TYPES):\n                raise ParserError(f'Can\\'t multiply non-numbers')\n\n", "")
M('c04-times-guard-one-side', 'C04', 'C04.R1', AST, "            if not isinstance(op1, NUMERIC_TYPES) or not isinstance(op2, NUMERIC_TYPES):", "            if not isinstance(op1, NUMERIC_TYPES):")
M('c04-numeric-types-with-str', 'C04', 'C04.R1', AST, "NUMERIC_TYPES = (Decimal_, int, float)", "NUMERIC_TYPES = (Decimal_, int, float, str)")
M('c04-new-pow-builtin', 'C04', 'C04.R1', FUN, "    'abs': lambda v: Decimal(abs(v)),", "    'abs': lambda v: Decimal(abs(v)),\n    'pow': lambda a, b: a ** b,")
M('c04-new-shift-op', 'C04', 'C04.R1', AST, "        elif self.op == '/':\n            return op1 / op2\n", "        elif self.op == '/':\n            return op1 / op2\n        elif self.op == '<<':\n            return op1 << op2\n")
M('c04-context-widened', 'C04', 'C04.R3', 'smartquery/custom_types.py', "from decimal import Decimal as Decimal_\n", "import decimal\nfrom decimal import Decimal as Decimal_\n\ndecimal.getcontext().prec = 1000\n")
M('c04-abs-via-int', 'C04', 'C04.R2', FUN, "    'abs': lambda v: Decimal(abs(v)),", "    'abs': lambda v: Decimal(abs(int(v))),")
M('c04-shortop-power', 'C04', 'C04.R1', AST, "            elif self.op == '/=':\n                state.names[self.name] /= value\n", "            elif self.op == '/=':\n                state.names[self.name] /= value\n            elif self.op == '**=':\n                state.names[self.name] **= value\n")

B('c04-decimal-helper', 'C04', edits=[
  (AST, "NUMERIC_TYPES = (Decimal_, int, float)\n", "NUMERIC_TYPES = (Decimal_, int, float)\n\n\ndef _dec(v):\n    return Decimal(v)\n"),
  (AST, "            return Decimal(op1) ** Decimal(op2)", "            return _dec(op1) ** _dec(op2)")])
B('c04-numeric-types-renamed', 'C04', edits=[
  (AST, "NUMERIC_TYPES = (Decimal_, int, float)", "NUMBERS = (Decimal_, int, float)"),
  (AST, "            if not isinstance(op1, NUMERIC_TYPES) or not isinstance(op2, NUMERIC_TYPES):", "            if not isinstance(op1, NUMBERS) or not isinstance(op2, NUMBERS):")])
B('c04-guard-split', 'C04', AST, "            if not isinstance(op1, NUMERIC_TYPES) or not isinstance(op2, NUMERIC_TYPES):\n                raise ParserError(f'Can\\'t multiply non-numbers')\n",
  "            if not isinstance(op1, NUMERIC_TYPES):\n                raise ParserError(f'Can\\'t multiply non-numbers')\n            if not isinstance(op2, NUMERIC_TYPES):\n                raise ParserError(f'Can\\'t multiply non-numbers')\n")

# =============================================================================== C08
M('c08-literal-via-float', 'C08', 'C08.R1', LEX, "    t.value = Decimal(t.value)", "    t.value = Decimal(float(t.value))")
M('c08-literal-truncated', 'C08', 'C08.R1', LEX, "    t.value = Decimal(t.value)", "    t.value = Decimal(t.value[:18])")
M('c08-literal-native-float', 'C08', 'C08.R1', LEX, "    t.value = Decimal(t.value)", "    t.value = float(t.value)")
M('c08-round-via-float', 'C08', 'C08.R2', FUN, "Decimal(str(round(v, int(nd) if nd is not None else None)))", "Decimal(str(round(float(v), int(nd) if nd is not None else None)))")
M('c08-divide-via-float', 'C08', 'C08.R2', AST, "            return op1 / op2", "            return Decimal(float(op1) / float(op2))")
M('c08-sum-fsum', 'C08', 'C08.R2', FUN, "        return sum(value)", "        return Decimal(math.fsum(value))")
M('c08-abs-fabs', 'C08', 'C08.R2', FUN, "    'abs': lambda v: Decimal(abs(v)),", "    'abs': lambda v: Decimal(math.fabs(v)),")
M('c08-plus-epsilon', 'C08', 'C08.R2', AST, "            return op1 - op2", "            return op1 - op2 + 0.0")
M('c08-context-rounding', 'C08', 'C08.R3', 'smartquery/custom_types.py', "from decimal import Decimal as Decimal_\n",
  "import decimal\nfrom decimal import Decimal as Decimal_\n\ndecimal.getcontext().rounding = decimal.ROUND_DOWN\n")
M('c08-compare-via-float', 'C08', 'C08.R2', AST, "            return op1 < op2", "            return float(op1) < float(op2)")

B('c08-stdlib-decimal', 'C08', LEX, "    t.value = Decimal(t.value)", "    text = t.value\n    t.value = Decimal(text)")
B('c08-floor-via-str', 'C08', FUN, "    'floor': lambda *args: Decimal(str(math.floor(*args))),", "    'floor': lambda v: Decimal(math.floor(v)),")

# =============================================================================== C05
M('c05-timeout-none', 'C05', 'C05.R1', FUN, "REGEX_TIMEOUT = 0.05", "REGEX_TIMEOUT = None")
M('c05-timeout-dropped-one-site', 'C05', 'C05.R1', FUN, "    return regex.findall(pattern, s, flags=flags, timeout=REGEX_TIMEOUT)", "    return regex.findall(pattern, s, flags=flags)")
M('c05-timeout-5s', 'C05', 'C05.R1', FUN, "REGEX_TIMEOUT = 0.05", "REGEX_TIMEOUT = 5")
M('c05-timeout-zero', 'C05', 'C05.R1', FUN, "REGEX_TIMEOUT = 0.05", "REGEX_TIMEOUT = 0")
M('c05-new-sub-builtin', 'C05', 'C05.R1', FUN, "    'match_all': _match_all,", "    'match_all': _match_all,\n    'sub': lambda s, p, r: regex.sub(p, r, s),")
M('c05-switch-to-re', 'C05', 'C05.R2', edits=[
  (FUN, "import regex\n", "import regex\nimport re\n"),
  (FUN, "    return regex.findall(pattern, s, flags=flags, timeout=REGEX_TIMEOUT)", "    return re.findall(pattern, s, flags=flags)")])
M('c05-timeout-reassigned', 'C05', 'C05.R1', FUN, "MAX_ARRAY_SIZE = 10000", "MAX_ARRAY_SIZE = 10000\nREGEX_TIMEOUT = REGEX_TIMEOUT * 1000")
M('c05-raw-regex-entry', 'C05', None, FUN, "    'match_all': _match_all,", "    'match_all': _match_all,\n    'search': regex.search,")
M('c05-compiled-no-timeout', 'C05', 'C05.R1', FUN, "    return regex.findall(pattern, s, flags=flags, timeout=REGEX_TIMEOUT)", "    return regex.compile(pattern, flags=flags).findall(s)")

B('c05-rename-constant', 'C05', edits=[
  (FUN, "REGEX_TIMEOUT = 0.05", "MATCH_TIMEOUT_S = 0.05"),
  (FUN, "    m = regex.search(pattern, s, flags=flags, timeout=REGEX_TIMEOUT)\n    if m is None:\n        return None\n\n    return m.group(0)", "    m = regex.search(pattern, s, flags=flags, timeout=MATCH_TIMEOUT_S)\n    if m is None:\n        return None\n\n    return m.group(0)"),
  (FUN, "    m = regex.search(pattern, s, flags=flags, timeout=REGEX_TIMEOUT)\n    if m is None:\n        return None\n\n    return [m.group(0), *m.groups()]", "    m = regex.search(pattern, s, flags=flags, timeout=MATCH_TIMEOUT_S)\n    if m is None:\n        return None\n\n    return [m.group(0), *m.groups()]"),
  (FUN, "    return regex.findall(pattern, s, flags=flags, timeout=REGEX_TIMEOUT)", "    return regex.findall(pattern, s, flags=flags, timeout=MATCH_TIMEOUT_S)")])
B('c05-literal-timeout', 'C05', FUN, "    return regex.findall(pattern, s, flags=flags, timeout=REGEX_TIMEOUT)", "    return regex.findall(pattern, s, flags=flags, timeout=0.05)")
B('c05-compiled-with-timeout', 'C05', FUN, "    return regex.findall(pattern, s, flags=flags, timeout=REGEX_TIMEOUT)", "    return regex.compile(pattern, flags=flags).findall(s, timeout=REGEX_TIMEOUT)")

# =============================================================================== C19
RINT = "        return Decimal(random.randint(int(min_), int(max_)))"
M('c19-raw-decimal-bounds', 'C19', 'C19.R2', FUN, RINT, "        return Decimal(random.randint(min_, max_))")
M('c19-bounds-swapped', 'C19', 'C19.R2', FUN, RINT, "        return Decimal(random.randint(int(max_), int(min_)))")
M('c19-upper-exclusive', 'C19', 'C19.R2', FUN, RINT, "        return Decimal(random.randrange(int(min_), int(max_)))")
M('c19-upper-plus-one', 'C19', 'C19.R2', FUN, RINT, "        return Decimal(random.randint(int(min_), int(max_) + 1))")
M('c19-rand0-scaled', 'C19', 'C19.R1', FUN, "        return Decimal(random.random())", "        return Decimal(random.random() * 2)")
M('c19-rand0-uniform', 'C19', 'C19.R1', FUN, "        return Decimal(random.random())", "        return Decimal(random.uniform(0, 1))")
M('c19-choice-of-copy-slice', 'C19', 'C19.R1', FUN, "        return random.choice(args[0])", "        return random.choice(args[0][1:])")
M('c19-choice-index-off', 'C19', 'C19.R1', FUN, "        return random.choice(args[0])", "        return args[0][random.randint(0, len(args[0]))]")
M('c19-shuffle-in-place', 'C19', 'C19.R3', FUN, "    copied = copy.copy(container)\n    random.shuffle(copied)\n    return copied", "    random.shuffle(container)\n    return container")
M('c19-shuffle-returns-unshuffled', 'C19', 'C19.R3', FUN, "    copied = copy.copy(container)\n    random.shuffle(copied)\n    return copied", "    copied = copy.copy(container)\n    random.shuffle(copy.copy(container))\n    return copied")
M('c19-shuffle-drops-first', 'C19', 'C19.R3', FUN, "    copied = copy.copy(container)\n    random.shuffle(copied)\n    return copied", "    copied = container[1:]\n    random.shuffle(copied)\n    return copied")

B('c19-randrange-inclusive', 'C19', FUN, RINT, "        return Decimal(random.randrange(int(min_), int(max_) + 1))")
B('c19-shuffle-list-copy', 'C19', FUN, "    copied = copy.copy(container)", "    copied = list(container)")
B('c19-explicit-signature', 'C19', FUN,
  "def _rand(*args):\n    if len(args) == 0:", "def _rand(*args):\n    n = len(args)\n    if n == 0:")

# =============================================================================== C02
M('c02-keys-view', 'C02', 'C02.R3', FUN, "    return list(value.keys())", "    return value.keys()")
M('c02-items-view', 'C02', 'C02.R3', FUN, "    return list(value.items())", "    return value.items()")
M('c02-match-object', 'C02', 'C02.R3', FUN, "    if m is None:\n        return None\n\n    return m.group(0)", "    return m")
M('c02-enumerate-iterator', 'C02', 'C02.R3', FUN, "    return list(enumerate(container))", "    return enumerate(container)")
M('c02-filter-iterator', 'C02', 'C02.R3', FUN, "        return list(filter(f, container))", "        return filter(f, container)")
M('c02-type-entry', 'C02', 'C02.R3', FUN, "    'len': len,", "    'len': len,\n    'type': type,")
M('c02-getattr-entry', 'C02', 'C02.R3', FUN, "    'len': len,", "    'len': len,\n    'getattr': getattr,")
M('c02-open-entry', 'C02', 'C02.R3', FUN, "    'len': len,", "    'len': len,\n    'open': open,")
M('c02-set-entry', 'C02', 'C02.R3', FUN, "    'len': len,", "    'len': len,\n    'set': set,")
M('c02-eval-entry', 'C02', None, FUN, "    'len': len,", "    'len': len,\n    'calc': lambda s: eval(s),")
M('c02-nameop-getattr', 'C02', 'C02.R1', AST, "            raise ParserError(f'Undefined variable {self.name}')\n\n        return value", "            raise ParserError(f'Undefined variable {self.name}')\n\n        return getattr(value, '__wrapped__', value)")
M('c02-print-in-eval', 'C02', 'C02.R4', SQP, "        ast = self.parse(expr=expr.rstrip())", "        print(expr)\n        ast = self.parse(expr=expr.rstrip())")
M('c02-lazy-import', 'C02', 'C02.R4', FUN, "    flags = _parse_flags(flags_str)\n    return regex.findall(", "    import re as _re  # noqa\n    flags = _parse_flags(flags_str)\n    return regex.findall(")
M('c02-log-file', 'C02', 'C02.R4', SQP, "            self.lex.ast = None\n", "            self.lex.ast = None\n            open('/tmp/sq.log', 'a').write(expr)\n")
M('c02-os-getenv', 'C02', 'C02.R4', edits=[
  (FUN, "import random\n", "import random\nimport os\n"),
  (FUN, "    else:\n        return str(value)", "    else:\n        return str(value) + os.getenv('SQ_SUFFIX', '')")])
M('c02-valueop-returns-class', 'C02', 'C02.R3', AST, "        super().eval(state)\n        return self.v", "        super().eval(state)\n        return self.v.__class__ if self.v is None else self.v")
M('c02-module-leak', 'C02', 'C02.R3', FUN, "    return regex.findall(pattern, s, flags=flags, timeout=REGEX_TIMEOUT)", "    return regex.findall(pattern, s, flags=flags, timeout=REGEX_TIMEOUT) or regex")
M('c02-dot-attribute-node', 'C02', 'C02.R1', RUL, "        p[0] = CallOp(p[3], args=[p[1]])", "        p[0] = CallOp('getattr', args=[p[1], ValueOp(p[3])]) if p.slice[2].type == 'DOT' else CallOp(p[3], args=[p[1]])")
M('c02-dynamic-callee-from-value', 'C02', 'C02.R2', AST, "        return f(*args)", "        return f(*args) if args else self.args[0].eval(state)()")
M('c02-bound-method-entry', 'C02', 'C02.R3', FUN, "def keys(value: Any) -> list:\n    return list(value.keys())", "def keys(value: Any) -> list:\n    return value.keys")

B('c02-capitalize-entry', 'C02', FUN, "    'lower': str.lower,", "    'lower': str.lower,\n    'capitalize': str.capitalize,")
B('c02-keys-star', 'C02', FUN, "    return list(value.keys())", "    return [*value.keys()]")
B('c02-keys-comprehension', 'C02', FUN, "    return list(value.keys())", "    return [k for k in value]")
B('c02-format-entry', 'C02', FUN, "    'len': len,", "    'len': len,\n    'fmt': format,")
B('c02-groups-tuple', 'C02', FUN, "    return [m.group(0), *m.groups()]", "    return (m.group(0),) + m.groups()")

# =============================================================================== C06
M('c06-power-left-assoc', 'C06', 'C06.R1', LEX, "    ('right', 'POWER'),", "    ('left', 'POWER'),")
M('c06-uminus-below-pipe', 'C06', 'C06.R1', LEX, "    ('left', 'PIPE'),\n    ('left', 'DOT'),\n    ('right', 'UNOT'),\n    ('right', 'UMINUS'),", "    ('right', 'UMINUS'),\n    ('left', 'PIPE'),\n    ('left', 'DOT'),\n    ('right', 'UNOT'),")
M('c06-no-prec-uminus', 'C06', 'C06.R1', RUL, '    """ expression : MINUS expression %prec UMINUS """', '    """ expression : MINUS expression """')
M('c06-comparisons-left', 'C06', 'C06.R1', LEX, "    ('nonassoc', 'EQ', 'NE', 'GT', 'LT', 'GTE', 'LTE', 'IN', 'NOT'),", "    ('left', 'EQ', 'NE', 'GT', 'LT', 'GTE', 'LTE', 'IN', 'NOT'),")
M('c06-not-in-prefix-precedence', 'C06', 'C06.R1', edits=[
  (LEX, "    ('nonassoc', 'EQ', 'NE', 'GT', 'LT', 'GTE', 'LTE', 'IN', 'NOT'),", "    ('nonassoc', 'EQ', 'NE', 'GT', 'LT', 'GTE', 'LTE', 'IN'),"),
  (LEX, "    ('right', 'UNOT'),", "    ('right', 'NOT'),"),
  (RUL, '    """ expression : NOT expression %prec UNOT """', '    """ expression : NOT expression """')])
M('c06-else-has-precedence', 'C06', 'C06.R1', LEX, "    ('left', 'OR'),\n    ('left', 'AND'),", "    ('left', 'ELSE'),\n    ('left', 'OR'),\n    ('left', 'AND'),")
M('c06-lambda-has-precedence', 'C06', 'C06.R1', LEX, "    ('left', 'OR'),\n    ('left', 'AND'),", "    ('left', 'OR'),\n    ('left', 'AND'),\n    ('left', 'LAMBDA'),")
M('c06-times-below-plus', 'C06', 'C06.R1', LEX, "    ('left', 'PLUS', 'MINUS'),\n    ('left', 'TIMES', 'DIVIDE'),", "    ('left', 'TIMES', 'DIVIDE'),\n    ('left', 'PLUS', 'MINUS'),")
M('c06-and-or-same-level', 'C06', 'C06.R1', LEX, "    ('left', 'OR'),\n    ('left', 'AND'),", "    ('left', 'OR', 'AND'),")
M('c06-binop-operands-swapped', 'C06', 'C06.R4', RUL, "        p[0] = BinOp(p[2], p[1], p[3])", "        p[0] = BinOp(p[2], p[3], p[1])")
M('c06-notin-wrong-operand', 'C06', 'C06.R4', RUL, "        p[0] = BinOp('not in', p[1], p[4])", "        p[0] = BinOp('not in', p[1], p[3])")
M('c06-action-reads-beyond', 'C06', 'C06.R4', RUL, "        p[0] = CallOp(name='list', args=p[2])", "        p[0] = CallOp(name='list', args=p[2]) if p[4] else None")
M('c06-dict-item-ambiguous', 'C06', 'C06.R2', RUL,
  '    """ dict_item : dict_item COMMA expression COLON expression\n                  | expression COLON expression\n    """\n    if p.slice[1].type == \'dict_item\':\n        p[0] = p[1] + [(p[3], p[5])]',
  '    """ dict_item : dict_item COMMA dict_item\n                  | expression COLON expression\n    """\n    if p.slice[1].type == \'dict_item\':\n        p[0] = p[1] + p[3]')
M('c06-new-conflicting-production', 'C06', None, RUL, '    """ expression : LPAREN expression RPAREN"""', '    """ expression : LPAREN expression RPAREN\n                   | LPAREN NAME RPAREN"""')
M('c06-uminus-on-not-row', 'C06', 'C06.R1', LEX, "    ('right', 'UNOT'),\n    ('right', 'UMINUS'),\n    ('left', 'LBRACKET'),", "    ('left', 'LBRACKET'),\n    ('right', 'UNOT'),\n    ('right', 'UMINUS'),")

B('c06-rename-token', 'C06', edits=[
  (LEX, "    'PLUS', 'MINUS', 'TIMES', 'POWER', 'DIVIDE',", "    'PLUS', 'MINUS', 'TIMES', 'POW', 'DIVIDE',"),
  (LEX, "t_POWER = r'\\*\\*'", "t_POW = r'\\*\\*'"),
  (LEX, "    ('right', 'POWER'),", "    ('right', 'POW'),"),
  (RUL, "                   | expression POWER expression", "                   | expression POW expression")])
B('c06-split-binop-function', 'C06', edits=[
  (RUL, "                   | expression AND expression\n                   | expression OR expression\n    \"\"\"\n    if p.slice[3].type == 'IN':",
        "                   | expression AND expression\n    \"\"\"\n    if p.slice[3].type == 'IN':"),
  (RUL, "def p_list_literal(p):", "def p_expression_or(p):\n    \"\"\" expression : expression OR expression \"\"\"\n    p[0] = BinOp(p[2], p[1], p[3])\n\n\ndef p_list_literal(p):")])
B('c06-conflict-free-production', 'C06', RUL, '    """ expression : NONE """', '    """ expression : NONE\n                   | LBRACE NONE RBRACE """')


# =============================================================================== C07
M('c07-minus-adds', 'C07', 'C07.R1', AST, "            return op1 - op2", "            return op1 + op2")
M('c07-divide-swapped', 'C07', 'C07.R1', AST, "            return op1 / op2", "            return op2 / op1")
M('c07-ge-is-gt', 'C07', 'C07.R1', AST, "        elif self.op == '>=':\n            return op1 >= op2", "        elif self.op == '>=':\n            return op1 > op2")
M('c07-notin-is-in', 'C07', 'C07.R1', AST, "            return op1 not in op2", "            return op1 in op2")
M('c07-ne-arm-missing', 'C07', 'C07.R1', AST, "        elif self.op == '!=':\n            return op1 != op2\n", "")
M('c07-unary-minus-identity', 'C07', 'C07.R1', AST, "            return -op1", "            return +op1")
M('c07-shortop-minus-adds', 'C07', 'C07.R1', AST, "            elif self.op == '-=':\n                state.names[self.name] -= value", "            elif self.op == '-=':\n                state.names[self.name] += value")
M('c07-setwithop-div-mul', 'C07', 'C07.R1', FUN, "        elif op == '/=':\n            container[key] /= value", "        elif op == '/=':\n            container[key] *= value")
M('c07-setwithop-arm-missing', 'C07', 'C07.R1', FUN, "        elif op == '-=':\n            container[key] -= value\n", "")
M('c07-notin-opstring-typo', 'C07', 'C07.R1', RUL, "        p[0] = BinOp('not in', p[1], p[4])", "        p[0] = BinOp('not_in', p[1], p[4])")
M('c07-lowering-unknown-name', 'C07', 'C07.R2', RUL, "    p[0] = CallOp(name='__delitem__', args=[p[2], p[4]])", "    p[0] = CallOp(name='__del__', args=[p[2], p[4]])")
M('c07-lowering-arity', 'C07', 'C07.R2', RUL, "    p[0] = CallOp(name='__setitem__', args=[p[1], p[3], p[6]])", "    p[0] = CallOp(name='__setitem__', args=[p[1], p[3]])")
M('c07-helper-arity', 'C07', 'C07.R2', FUN, "def _del(container: Any, key: Any) -> Any:", "def _del(container: Any) -> Any:\n    key = None")
M('c07-double-charge', 'C07', 'C07.R3', AST, "        super().eval(state)\n        return self.v", "        super().eval(state)\n        super().eval(state)\n        return self.v")
M('c07-new-modulo-token-unhandled', 'C07', 'C07.R1', LEX, "t_SHORT_OP = r'[+\\-\\*/]='", "t_SHORT_OP = r'[+\\-\\*/%]='")

B('c07-operator-module', 'C07', edits=[
  (AST, "import copy\n", "import copy\nimport operator\n"),
  (AST, "            return op1 - op2", "            return operator.sub(op1, op2)")])
B('c07-comparison-flipped-spelling', 'C07', AST, "            return op1 > op2", "            return op2 < op1")

# =============================================================================== C15
NLR = "    if t.value != ';':\n        t.lexer.lineno += 1\n\n    if t.value == ';' or t.lexer.paren_count == 0:\n        return t\n    else:\n        # ignore newlines inside of parens, braces and brackets\n        return None"
M('c15-tab-not-ignored', 'C15', 'C15.R1', LEX, 't_ignore = " \\t"', 't_ignore = " "')
M('c15-comment-returns-token', 'C15', 'C15.R1', LEX, '    r""" \\043.* """\n    return None', '    r""" \\043.* """\n    return t')
M('c15-comment-eats-newline', 'C15', 'C15.R1', LEX, '    r""" \\043.* """', '    r""" \\043.*\\n? """')
M('c15-newline-inside-brackets-returned', 'C15', 'C15.R1', LEX, "    if t.value == ';' or t.lexer.paren_count == 0:\n        return t\n    else:", "    if t.value == ';' or t.lexer.paren_count <= 1:\n        return t\n    else:")
M('c15-newline-swallowed-at-top', 'C15', 'C15.R1', LEX, "    if t.value == ';' or t.lexer.paren_count == 0:\n        return t\n    else:", "    if t.value == ';':\n        return t\n    else:")
M('c15-semicolon-inside-brackets-dropped', 'C15', 'C15.R1', LEX, "    if t.value == ';' or t.lexer.paren_count == 0:\n        return t\n    else:", "    if t.lexer.paren_count == 0:\n        return t\n    else:")
M('c15-bracket-forgets-count', 'C15', 'C15.R1', LEX, '    r"""\\["""\n    t.lexer.paren_count += 1\n    return t', '    r"""\\["""\n    return t')
M('c15-closer-counts-up', 'C15', 'C15.R1', LEX, '    r"""}"""\n    t.lexer.paren_count -= 1\n    return t', '    r"""}"""\n    t.lexer.paren_count += 1\n    return t')
M('c15-no-crlf', 'C15', 'C15.R1', LEX, '    r"""\\r\\n|\\n|;"""', '    r"""\\n|;"""')
M('c15-group-wraps', 'C15', 'C15.R5', RUL, '    """ expression : LPAREN expression RPAREN"""\n    p[0] = p[2]', '    """ expression : LPAREN expression RPAREN"""\n    p[0] = CodeOp([p[2]])')
M('c15-pipe-differs-from-dot', 'C15', 'C15.R6', RUL, "    if len_p == 7:\n        p[0] = CallOp(p[3], args=[p[1], *p[5]])", "    if len_p == 7:\n        p[0] = CallOp(p[3], args=[p[1], *p[5]] if p.slice[2].type == 'DOT' else [*p[5], p[1]])")
M('c15-method-trailing-comma-drops-arg', 'C15', 'C15.R3', RUL, "    elif len_p == 8:\n        p[0] = CallOp(p[3], args=[p[1], *p[5]])", "    elif len_p == 8:\n        p[0] = CallOp(p[3], args=[p[1], *p[5][:-1]])")
M('c15-dict-item-ambiguous', 'C15', 'C15.R4', RUL,
  '    """ dict_item : dict_item COMMA expression COLON expression\n                  | expression COLON expression\n    """\n    if p.slice[1].type == \'dict_item\':\n        p[0] = p[1] + [(p[3], p[5])]',
  '    """ dict_item : dict_item COMMA dict_item\n                  | expression COLON expression\n    """\n    if p.slice[1].type == \'dict_item\':\n        p[0] = p[1] + p[3]')
M('c15-blank-lines-appended', 'C15', 'C15.R2', RUL, "        if p[3] is not None:\n            p.lexer.ast.lines.append(p[3])", "        p.lexer.ast.lines.append(p[3])")
M('c15-list-trailing-comma-none', 'C15', 'C15.R3', RUL, "    if len(p) == 3:\n        p[0] = CallOp(name='list', args=[])\n    else:\n        p[0] = CallOp(name='list', args=p[2])",
  "    if len(p) == 3:\n        p[0] = CallOp(name='list', args=[])\n    elif len(p) == 5:\n        p[0] = CallOp(name='list', args=p[2] + [ValueOp(None)])\n    else:\n        p[0] = CallOp(name='list', args=p[2])")
M('c15-call-trailing-comma-alt-removed-from-action', 'C15', 'C15.R3', RUL, "    if len(p) >= 5:\n        p[0] = CallOp(p[1], args=p[3])", "    if len(p) == 5:\n        p[0] = CallOp(p[1], args=p[3])")

B('c15-newline-rule-restructured', 'C15', LEX, "    if t.value == ';' or t.lexer.paren_count == 0:\n        return t\n    else:\n        # ignore newlines inside of parens, braces and brackets\n        return None",
  "    if t.value != ';' and t.lexer.paren_count > 0:\n        return None\n    return t")
B('c15-ignore-order', 'C15', LEX, 't_ignore = " \\t"', 't_ignore = "\\t "')

# =============================================================================== C20
M('c20-semicolon-counted', 'C20', 'C20.R1', LEX, "    if t.value != ';':\n        t.lexer.lineno += 1\n", "    t.lexer.lineno += 1\n")
M('c20-bracket-lines-not-counted', 'C20', 'C20.R1', LEX, "    if t.value != ';':\n        t.lexer.lineno += 1\n", "    if t.value != ';' and t.lexer.paren_count == 0:\n        t.lexer.lineno += 1\n")
M('c20-lineno-twice', 'C20', 'C20.R1', LEX, "    if t.value != ';':\n        t.lexer.lineno += 1\n", "    if t.value != ';':\n        t.lexer.lineno += 2\n")
M('c20-lineno-never', 'C20', 'C20.R1', LEX, "    if t.value != ';':\n        t.lexer.lineno += 1\n", "")
M('c20-reset-to-zero', 'C20', 'C20.R1', SQP, "            self.lex.lineno = 1\n            self.lex.paren_count = 0\n\n            self.lex.ast = None", "            self.lex.lineno = 0\n            self.lex.paren_count = 0\n\n            self.lex.ast = None")
M('c20-message-lexer-line', 'C20', 'C20.R2', RUL, "at line {p.lineno}')", "at line {p.lexer.lineno}')")
M('c20-message-token-type', 'C20', 'C20.R2', RUL, "    raise ParserError(f'Syntax error: {p.value} at line {p.lineno}')", "    raise ParserError(f'Syntax error: {p.type} at line {p.lineno}')")
M('c20-message-no-line', 'C20', 'C20.R2', RUL, "    raise ParserError(f'Syntax error: {p.value} at line {p.lineno}')", "    raise ParserError(f'Syntax error: {p.value}')")
M('c20-eof-generic-message', 'C20', 'C20.R3', RUL, "        raise ParserError('Syntax error: unexpected end of input')", "        raise ParserError('Syntax error')")
M('c20-string-counts-lines', 'C20', 'C20.R1', LEX, "    if t.value[0] != 'r':\n", "    t.lexer.lineno += 1\n    if t.value[0] != 'r':\n")
M('c20-multiline-comment', 'C20', 'C20.R1', LEX, '    r""" \\043.* """', '    r""" \\043[^;]* """')

B('c20-count-newlines-in-value', 'C20', LEX, "    if t.value != ';':\n        t.lexer.lineno += 1\n", "    if t.value == '\\n' or t.value == '\\r\\n':\n        t.lexer.lineno += 1\n")
B('c20-eof-message-wording', 'C20', RUL, "        raise ParserError('Syntax error: unexpected end of input')", "        raise ParserError('Unexpected end of input')")


# =============================================================================== independently written changes (/verif/seeded)
def P(seed, props, rule=None):
    CORPUS.append({'id': 'S/' + seed, 'props': _norm_props(props), 'rule': rule, 'expect': 'violation',
                   'edits': [], 'patch': 'seeded/%s/patch.diff' % seed})


P('C01-A', 'C01', 'C01.R7'); P('C01-B', 'C01', 'C01.R8')
P('C02-A', 'C02', 'C02.R5'); P('C02-B', 'C02')
P('C03-A', 'C03'); P('C03-B', 'C03', 'C03.R4')
P('C04-A', ['C04', 'C08']); P('C04-B', 'C04', 'C04.R1')
P('C05-A', 'C05', 'C05.R2'); P('C05-B', 'C05', 'C05.R3')
P('C06-A', 'C06', 'C06.R1')
P('C07-A', 'C07', 'C07.R6'); P('C07-B', 'C14', 'C14.R1')
P('C08-A', 'C08', 'C08.R1'); P('C08-B', 'C08', 'C08.R2')
P('C09-A', 'C09', 'C09.R3'); P('C09-B', 'C09', 'C09.R1')
P('C10-A', 'C10', 'C10.R2'); P('C10-B', 'C10', 'C10.R3')
P('C11-A', 'C11', 'C11.R2'); P('C11-B', 'C11', 'C11.R3')
P('C12-A', 'C12', 'C12.R1'); P('C12-B', 'C12', 'C12.R1')
P('C13-A', 'C13', 'C13.R1'); P('C13-B', 'C13', 'C13.R1')
P('C14-A', 'C14', 'C14.R1')
P('C15-A', 'C15', 'C15.R1'); P('C15-B', 'C06', 'C06.R2')
P('C16-A', 'C16', 'C16.R1'); P('C16-B', 'C16', 'C16.R5')
P('C17-A', 'C17', 'C17.R1'); P('C17-B', 'C17', 'C17.R5')
P('C18-A', 'C18', 'C18.R1'); P('C18-B', 'C18')
P('C19-A', 'C19', 'C19.R1'); P('C19-B', 'C19', 'C19.R3')
P('C20-A', 'C20', 'C20.R1'); P('C20-B', 'C20', 'C20.R1')
# the refactoring that extends the language (see DESIGN 7.3) must at least not raise a false alarm or an analysis error
CORPUS.append({'id': 'S/C06-B-silent', 'props': ['C02', 'C07', 'C09', 'C12', 'C14', 'C15', 'C18'], 'rule': None, 'expect': 'silent',
               'edits': [], 'patch': 'seeded/C06-B/patch.diff'})

# ---- C07.R4 / R5
M('c07-no-coercion', 'C07', 'C07.R4', AST, "            if isinstance(op1, str) and not isinstance(op2, str):\n                op2 = str(op2)\n", "")
M('c07-coerce-right-string', 'C07', 'C07.R4', AST, "            if isinstance(op1, str) and not isinstance(op2, str):\n                op2 = str(op2)\n",
  "            if isinstance(op1, str) and not isinstance(op2, str):\n                op2 = str(op2)\n            elif isinstance(op2, str) and not isinstance(op1, str):\n                op1 = str(op1)\n")
M('c07-coerce-with-repr', 'C07', 'C07.R4', AST, "                op2 = str(op2)\n", "                op2 = repr(op2)\n")
M('c07-assign-returns-value', 'C07', 'C07.R5', AST, "        state.names[self.name] = copy.deepcopy(value)\n        return None", "        state.names[self.name] = copy.deepcopy(value)\n        return value")
M('c07-code-returns-first', 'C07', 'C07.R5', AST, "        res = None\n        for line in self.lines:\n            res = line.eval(state)\n\n        return res",
  "        res = None\n        for line in self.lines:\n            value = line.eval(state)\n            if res is None:\n                res = value\n\n        return res")
B('c07-coercion-rewritten', 'C07', AST, "            if isinstance(op1, str) and not isinstance(op2, str):\n                op2 = str(op2)\n            return op1 + op2",
  "            if isinstance(op1, str) and not isinstance(op2, str):\n                return op1 + str(op2)\n            return op1 + op2")

# ---- C07.R6 slice bounds
_SL = "        return slice(\n            safe_cast(self.start.eval(state), int),\n            safe_cast(self.stop.eval(state), int),\n            safe_cast(self.step.eval(state), int),\n        )"
M('c07-slice-truthy-bounds', 'C07', 'C07.R6', AST, _SL,
  "        a, b, c = self.start.eval(state), self.stop.eval(state), self.step.eval(state)\n        return slice(int(a) if a else None, int(b) if b else None, int(c) if c else None)")
M('c07-slice-step-uncast', 'C07', 'C07.R6', AST, "            safe_cast(self.step.eval(state), int),\n        )", "            self.step.eval(state),\n        )")
M('c07-slice-round-bounds', 'C07', 'C07.R6', AST, "            safe_cast(self.stop.eval(state), int),", "            safe_cast(self.stop.eval(state), round),")
B('c07-slice-comprehension', 'C07', AST, _SL,
  "        bounds = [part.eval(state) for part in (self.start, self.stop, self.step)]\n        return slice(*(None if b is None else int(b) for b in bounds))")
B('c07-slice-explicit-none-tests', 'C07', AST, _SL,
  "        a = self.start.eval(state)\n        b = self.stop.eval(state)\n        c = self.step.eval(state)\n        if a is not None:\n            a = int(a)\n        if b is not None:\n            b = int(b)\n        if c is not None:\n            c = int(c)\n        return slice(a, b, c)")

# ---- round 2 of independently written changes
P('C01-C', 'C01', 'C01.R7'); P('C01-D', 'C01', 'C01.R4')
P('C02-C', 'C02', 'C02.R3'); P('C02-D', 'C02', 'C02.R4')
P('C09-C', 'C09', 'C09.R2'); P('C09-D', 'C09', 'C09.R3')
P('C10-C', 'C10', 'C10.R2'); P('C10-D', 'C10', 'C10.R1')
P('C12-D', 'C12', 'C12.R1')
P('C17-C', 'C17', 'C17.R5'); P('C17-D', 'C17', 'C17.R1')
_RED = "def _reduce(container: Any, f: Callable) -> Any:\n    if isinstance(container, Iterable):\n        return functools.reduce(f, container)\n"
B('c02-reduce-sentinel-handled', ['C02', 'C13', 'C03'], edits=[
  (FUN, "CAST_DICT_KEYS_TO_STRINGS = True", "_NOT_GIVEN: Any = object()\nCAST_DICT_KEYS_TO_STRINGS = True"),
  (FUN, _RED, "def _reduce(container: Any, f: Callable, initial: Any = _NOT_GIVEN) -> Any:\n    if isinstance(container, Iterable):\n        if initial is _NOT_GIVEN:\n            return functools.reduce(f, container)\n        return functools.reduce(f, container, initial)\n")])
M('c02-reduce-sentinel-returned', 'C02', 'C02.R3', edits=[
  (FUN, "CAST_DICT_KEYS_TO_STRINGS = True", "_NOT_GIVEN: Any = object()\nCAST_DICT_KEYS_TO_STRINGS = True"),
  (FUN, _RED, "def _reduce(container: Any, f: Callable, initial: Any = _NOT_GIVEN) -> Any:\n    if isinstance(container, Iterable):\n        return functools.reduce(f, container, initial)\n")])
M('c02-get-default-module-object', 'C02', 'C02.R3', edits=[
  (FUN, "CAST_DICT_KEYS_TO_STRINGS = True", "_MISSING: Any = object()\nCAST_DICT_KEYS_TO_STRINGS = True"),
  (FUN, "def keys(value: Any) -> list:\n    return list(value.keys())", "def keys(value: Any) -> list:\n    return [value.get('keys', _MISSING)] + list(value.keys())")])

P('C12-C', 'C12', 'C12.R1'); P('C13-C', 'C13', 'C13.R3'); P('C13-D', 'C13', 'C13.R1')
M('c12-deepcopy-seeded-memo', 'C12', 'C12.R1', AST, "        state.names[self.name] = copy.deepcopy(value)\n        return None",
  "        state.names[self.name] = copy.deepcopy(value, {id(value): value})\n        return None")
B('c12-deepcopy-empty-memo', 'C12', AST, "        state.names[self.name] = copy.deepcopy(value)\n        return None",
  "        state.names[self.name] = copy.deepcopy(value, {})\n        return None")
M('c13-binop-extends-left', 'C13', 'C13.R3', AST, "            return op1 + op2\n        elif self.op == '-':",
  "            if isinstance(op1, list):\n                op1 += op2\n                return op1\n            return op1 + op2\n        elif self.op == '-':")
M('c13-nameop-sorts-in-place', 'C13', 'C13.R3', AST, "            raise ParserError(f'Undefined variable {self.name}')\n\n        return value",
  "            raise ParserError(f'Undefined variable {self.name}')\n\n        if isinstance(value, list):\n            value.reverse()\n            value.reverse()\n        return value")
M('c13-sorted-elements-touched', 'C13', 'C13.R1', FUN, "def keys(value: Any) -> list:\n    return list(value.keys())",
  "def keys(value: Any) -> list:\n    for v in list(value.values()):\n        if isinstance(v, list):\n            v.append(None)\n            v.pop()\n    return list(value.keys())")
B('c13-copy-then-mutate', 'C13', FUN, "def keys(value: Any) -> list:\n    return list(value.keys())",
  "def keys(value: Any) -> list:\n    out = list(value.keys())\n    out.reverse()\n    out.reverse()\n    return out")

EXC = 'smartquery/exceptions.py'
P('C16-C', 'C16', 'C16.R8')
M('c02-exception-ctor-logs-to-file', 'C02', 'C02.R4', EXC, "class ParserError(Exception):\n    pass",
  "class ParserError(Exception):\n    def __init__(self, *args):\n        super().__init__(*args)\n        with open('/tmp/smartquery-errors.log', 'a') as f:\n            f.write(repr(args))")
M('c16-exception-ctor-percent-template', 'C16', 'C16.R8', EXC, "class ParserError(Exception):\n    pass",
  "class ParserError(Exception):\n    def __init__(self, message='', *args):\n        super().__init__(message % args if args else message)")
M('c16-exception-str-strict-encode', 'C16', 'C16.R8', EXC, "class ParserError(Exception):\n    pass",
  "class ParserError(Exception):\n    def __str__(self):\n        return super().__str__().encode('ascii').decode('ascii')")
B('c16-exception-ctor-stores-fields', ['C16', 'C01', 'C03', 'C20', 'C02', 'C07'], EXC, "class ParserError(Exception):\n    pass",
  "class ParserError(Exception):\n    def __init__(self, message='', *args):\n        super().__init__(message, *args)\n        self.message = message")
CORPUS.append({'id': 'S/R5-1-silent', 'props': ['C01', 'C02', 'C03', 'C07', 'C16'], 'rule': None, 'expect': 'silent',
               'edits': [], 'patch': 'seeded_benign/R5-1/patch.diff'})
# R5-1 clips long messages: harmless for C16 (the twin it was derived for), but round 8 (seed C20-M) showed that clipping drops the
# " at line N" tail of a syntax-error message whose token is long - for C20 it is a breaking change and C20.R2 reports it
CORPUS.append({'id': 'S/R5-1-C20', 'props': ['C20'], 'rule': 'C20.R2', 'expect': 'violation',
               'edits': [], 'patch': 'seeded_benign/R5-1/patch.diff'})

P('C16-D', 'C16', 'C16.R2')
B('c16-hook-attr-created-in-init', ['C16'], edits=[
  (LEX, "    raise ParserError(f'Illegal character {t.value[0]}')", "    raise ParserError(f'Illegal character {t.value[0]} (depth {t.lexer.depth_hint})')"),
  (SQP, "        self.parse_cache = parse_cache\n", "        self.parse_cache = parse_cache\n        self._late = True\n"),
  (SQP, "            outputdir=output_dir)\n\n        self.yacc", "            outputdir=output_dir)\n        self.lex.depth_hint = 0\n\n        self.yacc")])

# ---- C14.R4 bounds tests
P('C14-B', 'C14', 'C14.R4')
_DG = "        if len(container) > key:\n            del container[key]"
M('c14-del-excludes-last', 'C14', 'C14.R4', FUN, _DG, "        if len(container) - 1 > key:\n            del container[key]")
M('c14-del-nonnegative-only', 'C14', 'C14.R4', FUN, _DG, "        if 0 <= key < len(container):\n            del container[key]")
M('c14-del-len-ge', 'C14', 'C14.R4', FUN, _DG, "        if key > -len(container) and key < len(container):\n            del container[key]")
B('c14-del-two-sided-exact', 'C14', FUN, _DG, "        if -len(container) <= key < len(container):\n            del container[key]")
B('c14-del-flipped', 'C14', FUN, _DG, "        if key < len(container):\n            del container[key]")
B('c14-del-le-minus-one', 'C14', FUN, _DG, "        if key <= len(container) - 1:\n            del container[key]")

# ---- round 3 of independently written changes
P('C03-C', 'C03', 'C03.R4'); P('C03-D', 'C03', 'C03.R5')
P('C04-C', 'C04', 'C04.R1'); P('C04-D', 'C04', 'C04.R3')
P('C05-C', 'C05', 'C05.R3'); P('C05-D', 'C05', 'C05.R2')
P('C06-C', 'C06', 'C06.R7'); P('C06-D', 'C06', 'C06.R8')
P('C07-D', 'C12', 'C12.R1')
P('C08-C', 'C08', 'C08.R1'); P('C08-D', 'C08', 'C08.R2')
P('C11-C', 'C11', 'C11.R2'); P('C11-D', 'C11', 'C11.R1')
P('C14-C', 'C14', 'C14.R1'); P('C14-D', 'C07', 'C07.R1')
P('C15-C', 'C15', 'C15.R1'); P('C15-D', 'C15', 'C15.R5')
P('C18-C', 'C18', 'C18.R1'); P('C18-D', 'C18', 'C18.R4')
P('C19-C', 'C19', 'C19.R1'); P('C19-D', 'C07', 'C07.R7')
P('C20-C', 'C20', 'C20.R1'); P('C20-D', 'C20', 'C20.R2')

# ---- independently written behaviour-preserving refactorings: every check must stay silent (DESIGN 7.4)
ALL_PROPS = ['C%02d' % i for i in range(1, 21)]
for _r in ('R1-1', 'R1-2', 'R1-3', 'R1-4', 'R2-1', 'R2-2', 'R2-3', 'R2-4', 'R3-1', 'R3-2', 'R3-3', 'R3-4', 'R4-1', 'R4-2', 'R4-3', 'R4-4',
           'R6-1', 'R6-2', 'R6-3', 'R6-4', 'R7-1', 'R7-2', 'R7-3', 'R7-4', 'R8-1', 'R8-2', 'R8-3', 'R8-4', 'R9-1', 'R9-2', 'R9-3', 'R9-4',
           'R10-1', 'R10-2', 'R10-3', 'R10-4', 'R11-1', 'R11-2', 'R11-3', 'R11-4', 'R12-1', 'R12-2', 'R12-3', 'R12-4', 'R13-1', 'R13-2', 'R13-3', 'R13-4',
           'R14-1', 'R14-2', 'R14-3', 'R14-4', 'R15-1', 'R15-2', 'R15-3', 'R15-4', 'R16-1', 'R16-2', 'R16-3', 'R16-4', 'R17-1', 'R17-2', 'R17-3', 'R17-4',
           'R18-1', 'R18-2', 'R18-3', 'R18-4', 'R19-1', 'R19-2', 'R19-3', 'R19-4', 'R20-1', 'R20-2', 'R20-3', 'R20-4',
           'R21-1', 'R21-2', 'R21-3', 'R21-4',
           'R22-1', 'R22-2', 'R22-3', 'R22-4', 'R23-1', 'R23-2', 'R23-3', 'R23-4', 'R24-1', 'R24-2', 'R24-3', 'R24-4',
           'R25-1', 'R25-2', 'R25-3', 'R25-4',
           'R26-1', 'R26-2', 'R26-3', 'R26-4', 'R27-1', 'R27-2', 'R27-3', 'R27-4', 'R28-1', 'R28-2', 'R28-3', 'R28-4',
           'R29-1', 'R29-2', 'R29-3', 'R29-4',
           'R30-1', 'R30-2', 'R30-3', 'R30-4', 'R31-1', 'R31-2', 'R31-3', 'R31-4', 'R32-1', 'R32-2', 'R32-3', 'R32-4',
           'R33-1', 'R33-2', 'R33-3', 'R33-4',
           'R34-1', 'R34-2', 'R34-3', 'R35-1', 'R35-2', 'R35-3', 'R36-1', 'R36-2', 'R36-3',
           'R38-1', 'R38-2', 'R38-3', 'R38-4', 'R39-1', 'R39-2', 'R39-3', 'R39-4', 'R40-1', 'R40-2', 'R40-3', 'R40-4',
           'R41-1', 'R41-2', 'R41-3', 'R41-4',
           'R42-1', 'R42-2', 'R42-3', 'R42-4', 'R43-1', 'R43-2', 'R43-3', 'R43-4', 'R44-1', 'R44-2', 'R44-3', 'R44-4', 'R45-1', 'R45-2', 'R45-3', 'R45-4'):
    CORPUS.append({'id': 'S/' + _r + '-silent', 'props': ALL_PROPS, 'rule': None, 'expect': 'silent', 'edits': [],
                   'patch': 'seeded_benign/%s/patch.diff' % _r, 'tolerate_rekeyed': True})

# ---- round 4 of independently written changes
P('C01-E', 'C01', 'C01.R8'); P('C01-F', 'C01', 'C01.R4')
P('C02-E', 'C02', 'C02.R4'); P('C02-F', 'C02', 'C02.R5')
P('C03-E', 'C03', 'C03.R4'); P('C03-F', 'C03')
P('C04-E', 'C07', 'C07.R1'); P('C04-F', 'C04', 'C04.R3')
P('C05-E', 'C05', 'C05.R1'); P('C05-F', 'C05', 'C05.R1')
P('C06-E', 'C06', 'C06.R2'); P('C06-F', 'C06', 'C06.R7')
P('C07-F', 'C06', 'C06.R1'); P('C09-E', 'C09', 'C09.R2'); P('C09-F', 'C06', 'C06.R1')
P('C10-E', 'C10', 'C10.R2'); P('C10-F', 'C10', 'C10.R3')
P('C11-F', 'C11', 'C11.R2')
P('C12-E', 'C09', 'C09.R3'); P('C12-F', 'C12', 'C12.R1')
P('C13-E', 'C13', 'C13.R1'); P('C13-F', 'C13', 'C13.R1')
P('C14-E', 'C14', 'C14.R1'); P('C14-F', 'C09', 'C09.R3')
P('C15-E', 'C15', 'C15.R5'); P('C15-F', 'C11', 'C11.R2')
P('C16-F', 'C01', 'C01.R7')
P('C17-E', 'C17', 'C17.R7'); P('C17-F', 'C17', 'C17.R1')
P('C18-E', 'C17', 'C17.R1'); P('C18-F', 'C10', 'C10.R1')
P('C19-E', 'C19', 'C19.R1'); P('C19-F', 'C15', 'C15.R6')
P('C20-E', 'C20', 'C20.R2')
P('C07-E', 'C07', 'C07.R9')

# ---- the scope stack in another representation (collections.ChainMap, seeded_benign/R18-4): C10 judges it through the class
# interface; changes seeded into that tree must still be reported
SDP = 'smartquery/scoped_dict.py'
CORPUS.append({'id': 'M/c10-chainmap-lookup-outermost-first', 'props': ['C10'], 'rule': 'C10.R1', 'expect': 'violation',
               'patch': 'seeded_benign/R18-4/patch.diff',
               'edits': [(SDP, "        for scope in self._chain.maps:\n            if item in scope:\n                return scope[item]\n\n        raise KeyError",
                          "        for scope in reversed(self._chain.maps):\n            if item in scope:\n                return scope[item]\n\n        raise KeyError")]})
CORPUS.append({'id': 'M/c10-chainmap-pop-outermost', 'props': ['C10'], 'rule': 'C10.R1', 'expect': 'violation',
               'patch': 'seeded_benign/R18-4/patch.diff',
               'edits': [(SDP, "self._chain.maps.pop(0)", "self._chain.maps.pop()")]})
CORPUS.append({'id': 'M/c10-chainmap-push-below', 'props': ['C10'], 'rule': 'C10.R1', 'expect': 'violation',
               'patch': 'seeded_benign/R18-4/patch.diff',
               'edits': [(SDP, "self._chain.maps.insert(0, scope)", "self._chain.maps.append(scope)")]})


# ---- the counter read before it is written back (attribute values are followed through stores on a path)
M('c01-threshold-compares-old-counter', 'C01', 'C01.R3', AST,
  "        state.ops_evaluated += 1\n        if state.ops_evaluated >= state.max_ops_evaluated:",
  "        old = state.ops_evaluated\n        state.ops_evaluated = old + 1\n        if old >= state.max_ops_evaluated:")
B('c01-counter-in-a-local', 'C01', AST,
  "        state.ops_evaluated += 1\n        if state.ops_evaluated >= state.max_ops_evaluated:",
  "        new = state.ops_evaluated + 1\n        state.ops_evaluated = new\n        if new >= state.max_ops_evaluated:")

B('c02-ply-built-in-helper-of-init', 'C02', edits=[
  (SQP, "        self.lex = lex.lex(\n            module=lexer,\n            optimize=True,\n            debug=False,\n            outputdir=output_dir)\n",
        "        self.lex = self._build_lexer(output_dir)\n"),
  (SQP, "    def list_names(self, expr: str) -> Iterable[str]:", "    @staticmethod\n    def _build_lexer(output_dir):\n        return lex.lex(\n            module=lexer,\n            optimize=True,\n            debug=False,\n            outputdir=output_dir)\n\n    def list_names(self, expr: str) -> Iterable[str]:")])

P('C20-F', 'C16', 'C16.R2'); P('C11-E', 'C11', 'C11.R1'); P('C16-E', 'C16', 'C16.R2'); P('C08-E', 'C07', 'C07.R7'); P('C08-F', 'C08', 'C08.R2')
B('c16-error-hook-unicode-name-with-default', 'C16', edits=[
  (LEX, "import regex\n", "import regex\nimport unicodedata\n") if False else (LEX, "def t_error(t):\n    raise ParserError(f'Illegal character {t.value[0]}')",
   "def t_error(t):\n    import_name = t.value[0]\n    raise ParserError(f'Illegal character {import_name}')")])

# ---- round 5 (value-flow changes that keep the visible structure)
P('C01-G', 'C01', 'C01.R8'); P('C01-H', 'C01', 'C01.R7')
P('C03-G', 'C03', 'C03.R4'); P('C03-H', 'C03', 'C03.R5')
P('C09-G', 'C09', 'C09.R2')
P('C10-G', 'C10', 'C10.R2'); P('C10-H', 'C02', 'C02.R3')
P('C11-G', 'C11', 'C11.R1'); P('C11-H', 'C11', 'C11.R2')
P('C12-G', 'C12', 'C12.R1'); P('C12-H', 'C12', 'C12.R1')
P('C13-G', 'C13', 'C13.R1'); P('C13-H', 'C13', 'C13.R3')
P('C16-G', 'C16', 'C16.R9'); P('C16-H', 'C16', 'C16.R9')
P('C17-G', 'C17', 'C17.R2'); P('C17-H', 'C17', 'C17.R2')
P('C18-G', 'C10', 'C10.R1'); P('C18-H', 'C18', 'C18.R1')
# round 5, second half (value-flow changes for the other ten properties)
P('C02-G', 'C02', 'C02.R5'); P('C02-H', 'C02', 'C02.R4')
P('C04-G', 'C04', 'C04.R1'); P('C04-H', 'C04', 'C04.R3')
P('C05-G', 'C05', 'C05.R3'); P('C05-H', 'C05', 'C05.R1')
P('C06-G', 'C06', 'C06.R8'); P('C06-H', 'C06', 'C06.R9')
P('C07-G', 'C07', 'C07.R9'); P('C07-H', 'C07', 'C07.R8')
P('C08-G', 'C08', 'C08.R1'); P('C08-H', 'C08', 'C08.R2')
P('C14-G', 'C14', 'C14.R1'); P('C14-H', 'C14', 'C14.R5')
P('C15-G', 'C15', 'C15.R5'); P('C15-H', 'C15', 'C15.R1')
P('C19-G', 'C19', 'C19.R1'); P('C19-H', 'C19', 'C19.R3')
P('C20-G', 'C20', 'C20.R1'); P('C20-H', 'C20', 'C20.R2')
# round 6 (one change outside functions.py / ast_ops.py, one anywhere)
P('C01-I', 'C01', 'C01.R4'); P('C01-J', 'C01', 'C01.R8')
P('C02-I', 'C02', 'C02.R4'); P('C02-J', 'C02', 'C02.R5')
P('C03-I', 'C03', 'C03.R5'); P('C03-J', 'C03', 'C03.R1')
P('C04-I', 'C04', 'C04.R4'); P('C04-J', 'C04', 'C04.R1')
P('C05-I', 'C05', 'C05.R3'); P('C05-J', 'C05', 'C05.R1')
P('C06-I', 'C06', 'C06.R9'); P('C06-J', 'C06', 'C06.R8')
P('C07-I', 'C06', 'C06.R9'); P('C07-J', 'C07', 'C07.R1')
P('C08-I', 'C08', 'C08.R1'); P('C08-J', 'C08', 'C08.R3')
P('C09-I', 'C09', 'C09.R2'); P('C09-J', 'C09', 'C09.R1')
P('C10-I', 'C10', 'C10.R2'); P('C10-J', 'C10', 'C10.R6')
P('C11-I', 'C11', 'C11.R2'); P('C11-J', 'C11', 'C11.R1')
P('C12-I', 'C17', 'C17.R6'); P('C12-J', 'C12', 'C12.R2')
P('C13-I', 'C10', 'C10.R3'); P('C13-J', 'C13', 'C13.R1')
P('C14-I', 'C17', 'C17.R5'); P('C14-J', 'C14', 'C14.R1')
P('C15-I', 'C15', 'C15.R1'); P('C15-J', 'C06', 'C06.R8')
P('C16-I', 'C11', 'C11.R2'); P('C16-J', 'C06', 'C06.R8')
P('C17-I', 'C17', 'C17.R3'); P('C17-J', 'C17', 'C17.R2')
P('C18-I', 'C18', 'C18.R1'); P('C18-J', 'C16', 'C16.R2')
P('C19-I', 'C04', 'C04.R3'); P('C19-J', 'C19', 'C19.R1')
P('C20-I', 'C20', 'C20.R1'); P('C20-J', 'C20', 'C20.R1')
# round 7 (feature additions that are correct in isolation)
P('C01-K', 'C01', 'C01.R8'); P('C01-L', 'C01', 'C01.R7')
P('C02-K', 'C02', 'C02.R5'); P('C02-L', 'C02', 'C02.R3')
CORPUS.append({'id': 'S/C02-L-silent', 'props': ['C01'], 'rule': None, 'expect': 'silent', 'edits': [], 'patch': 'seeded/C02-L/patch.diff'})   # the ops-limit error is re-raised by an earlier clause
P('C03-K', 'C03', 'C03.R3'); P('C03-L', 'C03', 'C03.R5')
P('C04-K', 'C04', 'C04.R1'); P('C04-L', 'C04', 'C04.R1')
P('C05-K', 'C05', 'C05.R1'); P('C05-L', 'C01', 'C01.R5')
P('C06-K', 'C06', 'C06.R2'); P('C06-L', 'C11', 'C11.R2')
P('C07-K', 'C07', 'C07.R2'); P('C07-L', 'C02', 'C02.R3')
P('C08-K', 'C08', 'C08.R2'); P('C08-L', 'C08', 'C08.R3')
P('C09-K', 'C09', 'C09.R1'); P('C09-L', 'C01', 'C01.R8')
P('C10-K', 'C10', 'C10.R6'); P('C10-L', 'C10', 'C10.R3')
P('C11-K', 'C11', 'C11.R2'); P('C11-L', 'C11', 'C11.R1')
P('C12-K', 'C12', 'C12.R1'); P('C12-L', 'C12', 'C12.R2')
P('C13-K', 'C13', 'C13.R1'); P('C13-L', 'C07', 'C07.R7')
P('C14-K', 'C07', 'C07.R2'); P('C14-L', 'C14', 'C14.R5')
P('C15-K', 'C15', 'C15.R1'); P('C15-L', 'C15', 'C15.R6')
P('C16-K', 'C16', 'C16.R5'); P('C16-L', 'C16', 'C16.R1')
P('C17-K', 'C17', 'C17.R7'); P('C17-L', 'C17', 'C17.R5')
P('C18-K', 'C11', 'C11.R2'); P('C18-L', 'C18', 'C18.R3')
P('C19-K', 'C19', 'C19.R1'); P('C19-L', 'C07', 'C07.R7')
P('C20-K', 'C20', 'C20.R1'); P('C20-L', 'C20', 'C20.R2')
B('c16-finally-guarded-delete', 'C16', SQP, "            return ast.eval(state)\n", "            try:\n                return ast.eval(state)\n            finally:\n                if '__tmp__' in scoped_names.scopes[-1]:\n                    del scoped_names.scopes[-1]['__tmp__']\n")

# round 8 (performance optimisations and robustness changes, M/N): the rule of the seed's own property that reports it.
# C08-N (round() returns integral values unchanged, wrong only for negative digit counts) is not reported by any rule.
P('C01-M', 'C01', 'C01.R8'); P('C01-N', 'C01', 'C01.R4')
P('C02-M', 'C02', 'C02.R5'); P('C02-N', 'C02', 'C02.R4')
P('C03-M', 'C03', 'C03.R4'); P('C03-N', 'C03', 'C03.R6')
P('C04-M', 'C04', 'C04.R1'); P('C04-N', 'C04', 'C04.R2')
P('C05-M', 'C05', 'C05.R1'); P('C05-N', 'C05', 'C05.R3')
P('C06-M', 'C06', 'C06.R8'); P('C06-N', 'C06', 'C06.R7')
P('C07-M', 'C07', 'C07.R10'); P('C07-N', 'C07', 'C07.R11')
P('C08-M', 'C08', 'C08.R1')
P('C09-M', 'C09', 'C09.R1'); P('C09-N', 'C09', 'C09.R4')
P('C10-M', 'C10', 'C10.R5'); P('C10-N', 'C10', 'C10.R1')
P('C11-M', 'C11', 'C11.R1'); P('C11-N', 'C11', 'C11.R3')
P('C12-M', 'C12', 'C12.R1'); P('C12-N', 'C12', 'C12.R3')
P('C13-M', 'C13', 'C13.R1'); P('C13-N', 'C13', 'C13.R3')
P('C14-M', 'C14', 'C14.R1'); P('C14-N', 'C14', 'C14.R6')
P('C15-M', 'C15', 'C15.R7'); P('C15-N', 'C15', 'C15.R1')
P('C16-M', 'C16', 'C16.R2'); P('C16-N', 'C16', 'C16.R5')
P('C17-M', 'C17', 'C17.R1'); P('C17-N', 'C17', 'C17.R8')
P('C18-M', 'C18', 'C18.R1'); P('C18-N', 'C18', 'C18.R4')
P('C19-M', 'C19', 'C19.R1'); P('C19-N', 'C19', 'C19.R2')
P('C20-M', 'C20', 'C20.R2'); P('C20-N', 'C20', 'C20.R2')
# seeds of this round that must leave other properties alone (false alarms seen while evaluating them)
CORPUS.append({'id': 'S/C03-N-silent', 'props': ['C01'], 'rule': None, 'expect': 'silent', 'edits': [], 'patch': 'seeded/C03-N/patch.diff'})
CORPUS.append({'id': 'S/C15-M-silent', 'props': ['C17'], 'rule': None, 'expect': 'silent', 'edits': [], 'patch': 'seeded/C15-M/patch.diff'})
CORPUS.append({'id': 'S/C13-M-silent', 'props': ['C14', 'C16'], 'rule': None, 'expect': 'silent', 'edits': [], 'patch': 'seeded/C13-M/patch.diff'})
CORPUS.append({'id': 'S/C05-M-silent', 'props': ['C02'], 'rule': None, 'expect': 'silent', 'edits': [], 'patch': 'seeded/C05-M/patch.diff'})

# round 9 (API evolution / maintainability changes, O/P).  Not reported by their own property: C04-P (a store skipped when the
# new value compares equal: reported by C12.R1), C06-O (repr of the tree in a debug f-string: RecursionError on deep trees; C02
# answers ANALYSIS-ERROR for the unclassified logger call), C07-O (pretty() dispatching on numbers.Number, which bool satisfies),
# C07-P (lambda values as instances of a Closure class: reported by C02.R3, anchors of C01/C07/C10 vanish), C08-P (floor/ceil to a
# step: v / step rounds a long literal first), C16-P (a budget of 0 normalised to the default: reported by C01.R4/R5) and the three
# that introduce PLY lexer states (C15-P, C18-O, C20-P: C11.R2 reports, the token-level checks answer ANALYSIS-ERROR).
P('C01-O', 'C01', 'C01.R4'); P('C01-P', 'C01', 'C01.R4')
P('C02-O', 'C02', 'C02.R5'); P('C02-P', 'C02', 'C02.R4')
P('C03-O', 'C03', 'C03.R3'); P('C03-P', 'C03', 'C03.R4')
P('C04-O', 'C04', 'C04.R4'); P('C04-P', 'C12', 'C12.R1')
P('C05-O', 'C05', 'C05.R2'); P('C05-P', 'C05', 'C05.R1')
P('C06-P', 'C06', 'C06.R9')
P('C07-P', 'C02', 'C02.R3')
P('C08-O', 'C08', 'C08.R2'); P('C08-P', 'C04', 'C04.R1')
P('C09-O', 'C09', 'C09.R1'); P('C09-P', 'C09', 'C09.R2')
P('C10-O', 'C10', 'C10.R2'); P('C10-P', 'C10', 'C10.R6')
P('C11-O', 'C11', 'C11.R3'); P('C11-P', 'C11', 'C11.R1')
P('C12-O', 'C12', 'C12.R1'); P('C12-P', 'C12', 'C12.R2')
P('C13-O', 'C13', 'C13.R1'); P('C13-P', 'C13', 'C13.R3')
P('C14-O', 'C14', 'C14.R6'); P('C14-P', 'C14', 'C14.R7')
P('C15-O', 'C15', 'C15.R5'); P('C15-P', 'C11', 'C11.R2')
P('C16-O', 'C16', 'C16.R7'); P('C16-P', 'C01', 'C01.R4')
P('C17-O', 'C17', 'C17.R8'); P('C17-P', 'C17', 'C17.R8')
P('C18-O', 'C11', 'C11.R2'); P('C18-P', 'C18', 'C18.R5')
P('C19-O', 'C19', 'C19.R1'); P('C19-P', 'C19', 'C19.R1')
P('C20-O', 'C20', 'C20.R2'); P('C20-P', 'C11', 'C11.R2')
CORPUS.append({'id': 'S/C16-O-silent', 'props': ['C20'], 'rule': None, 'expect': 'silent', 'edits': [], 'patch': 'seeded/C16-O/patch.diff'})   # a subclass with its own __str__ is not what p_error raises

# round 10 (observability / configuration plumbing that breaks the property through the plumbing, Q/R; C19 was not delivered).
# Not reported by their own property: C05-R (a non-reentrant lock taken again by __repr__ inside a WARNING log line: C02.R4 reports the
# log line), C07-R / C10-R's twin (a shared default names dict: C10.R3, C01.R4), C09-R (`left` precedence for IF/ELSE: C06.R1), C12-R
# (writes of equal values skipped by the scope stack: C10.R1), C14-R (deepcopy memo kept per evaluation: C12.R1), C17-R (a cursor object on
# the tree that remembers where the last run stopped: C09.R1).  Not reported at all: C11-R (a lock held by a suspended generator).
P('C01-Q', 'C01', 'C01.R4'); P('C01-R', 'C01', 'C01.R6')
P('C02-Q', 'C02', 'C02.R4'); P('C02-R', 'C02', 'C02.R3')
P('C03-Q', 'C03', 'C03.R4'); P('C03-R', 'C03', 'C03.R3')
P('C04-Q', 'C04', 'C04.R4'); P('C04-R', 'C04', 'C04.R2')
P('C05-Q', 'C05', 'C05.R1'); P('C05-R', 'C02', 'C02.R4')
P('C06-Q', 'C06', 'C06.R8'); P('C06-R', 'C06', 'C06.R2')
P('C07-Q', 'C07', 'C07.R8'); P('C07-R', 'C10', 'C10.R3')
P('C08-Q', 'C08', 'C08.R3'); P('C08-R', 'C08', 'C08.R3')
P('C09-Q', 'C09', 'C09.R1'); P('C09-R', 'C06', 'C06.R1')
P('C10-Q', 'C10', 'C10.R1'); P('C10-R', 'C10', 'C10.R3')
P('C11-Q', 'C11', 'C11.R1')
P('C12-Q', 'C12', 'C12.R1'); P('C12-R', 'C10', 'C10.R1')
P('C13-Q', 'C13', 'C13.R1'); P('C13-R', 'C13', 'C13.R3')
P('C14-Q', 'C14', 'C14.R3'); P('C14-R', 'C12', 'C12.R1')
P('C15-Q', 'C15', 'C15.R5'); P('C15-R', 'C15', 'C15.R7')
P('C16-Q', 'C16', 'C16.R7'); P('C16-R', 'C16', 'C16.R9')
P('C17-Q', 'C17', 'C17.R3'); P('C17-R', 'C09', 'C09.R1')
P('C18-Q', 'C18', 'C18.R1'); P('C18-R', 'C18', 'C18.R5')
P('C20-Q', 'C20', 'C20.R1'); P('C20-R', 'C20', 'C20.R2')
P('C19-Q', 'C19', 'C19.R1'); P('C19-R', 'C08', 'C08.R1')

# grammar-level mutation sweep (tools/mutation_sweep.py --grammar): survivors of the test suite
M('c15-gm-method-call-trailing-comma-dropped', 'C15', 'C15.R4', RUL,
  "                   | expression DOT NAME LPAREN arglist COMMA RPAREN\n", "")
M('c15-gm-pipe-call-trailing-comma-dropped', 'C15', 'C15.R4', RUL,
  "                   | expression PIPE NAME LPAREN arglist COMMA RPAREN\n", "")
M('c15-gm-pipe-call-trailing-comma-symbols-swapped', 'C15', 'C15.R4', RUL,
  "                   | expression PIPE NAME LPAREN arglist COMMA RPAREN\n",
  "                   | expression NAME PIPE LPAREN arglist COMMA RPAREN\n")
# equivalent mutants: the LALR tables are identical (these rows never decide a conflict)
B('c06-gm-assign-row-right', ['C06', 'C15', 'C18'], LEX, "    ('left', 'ASSIGN'),", "    ('right', 'ASSIGN'),")
B('c06-gm-dot-row-right', ['C06', 'C15'], LEX, "    ('left', 'DOT'),", "    ('right', 'DOT'),")
B('c06-gm-unot-row-left', ['C06'], LEX, "    ('right', 'UNOT'),", "    ('left', 'UNOT'),")
B('c06-gm-lbracket-row-right', ['C06'], LEX, "    ('left', 'LBRACKET'),", "    ('right', 'LBRACKET'),")
B('c06-gm-pipe-dot-rows-swapped', ['C06', 'C15'], LEX, "    ('left', 'PIPE'),\n    ('left', 'DOT'),", "    ('left', 'DOT'),\n    ('left', 'PIPE'),")
B('c16-gm-reserved-while-dropped', ['C16', 'C20', 'C06'], RUL, "                   | WHILE\n", "")

# round 11 (language features and bug fixes that break the property for the new construct or for old programs, S/T).
# C08-T (min/max drop Decimal zeros through filter(None, ...)) and C19-S (optional chaining decides by truthiness) were not
# reported on arrival; C07.R12 was written for them.
P('C01-S', 'C01', 'C01.R6'); P('C01-T', 'C01', 'C01.R6')
P('C02-S', 'C02', 'C02.R4'); P('C02-T', 'C02', 'C02.R3')
P('C03-S', 'C03', 'C03.R5'); P('C03-T', 'C03', 'C03.R3')
P('C04-S', 'C04', 'C04.R3'); P('C04-T', 'C04', 'C04.R1')
P('C05-S', 'C05', 'C05.R3'); P('C05-T', 'C02', 'C02.R4')
P('C06-S', 'C16', 'C16.R9'); P('C06-T', 'C06', 'C06.R2')
P('C07-S', 'C16', 'C16.R9'); P('C07-T', 'C14', 'C14.R3')
P('C08-S', 'C15', 'C15.R1'); P('C08-T', 'C07', 'C07.R12')
P('C09-S', 'C09', 'C09.R2'); P('C09-T', 'C09', 'C09.R1')
P('C10-S', 'C18', 'C18.R2'); P('C10-T', 'C10', 'C10.R2')
P('C11-S', 'C11', 'C11.R2'); P('C11-T', 'C11', 'C11.R1')
P('C12-S', 'C12', 'C12.R1'); P('C12-T', 'C12', 'C12.R1')
P('C13-S', 'C02', 'C02.R3'); P('C13-T', 'C07', 'C07.R7')
P('C14-S', 'C14', 'C14.R1'); P('C14-T', 'C14', 'C14.R5')
P('C15-S', 'C15', 'C15.R1'); P('C15-T', 'C20', 'C20.R1')
P('C16-S', 'C06', 'C06.R8'); P('C16-T', 'C16', 'C16.R9')
P('C17-S', 'C17', 'C17.R7'); P('C17-T', 'C17', 'C17.R9')
P('C18-S', 'C18', 'C18.R3'); P('C18-T', 'C18', 'C18.R3')
P('C19-S', 'C07', 'C07.R12'); P('C19-T', 'C19', 'C19.R1')
P('C20-S', 'C20', 'C20.R2'); P('C20-T', 'C20', 'C20.R2')
# a new statement form the assignment analysis cannot classify must not re-key the open findings of C03 / C04
CORPUS.append({'id': 'S/C17-S-silent', 'props': ['C03', 'C04'], 'rule': None, 'expect': 'silent', 'edits': [], 'patch': 'seeded/C17-S/patch.diff'})
CORPUS.append({'id': 'S/C18-T-silent', 'props': ['C04'], 'rule': None, 'expect': 'silent', 'edits': [], 'patch': 'seeded/C18-T/patch.diff'})
# campaign 9, the operator `??` (seeded_benign/R37-3): a third lazy operator contradicts the letter of C09 ("every other operand
# is evaluated exactly once") and is reported there; its declared precedence row defines its level for C06, C07 leaves it undecided
CORPUS.append({'id': 'S/R37-3-C09', 'props': ['C09'], 'rule': 'C09.R1', 'expect': 'violation', 'edits': [], 'patch': 'seeded_benign/R37-3/patch.diff'})
CORPUS.append({'id': 'S/R37-3-silent', 'props': ['C06', 'C07', 'C01', 'C15', 'C16'], 'rule': None, 'expect': 'silent', 'edits': [],
               'patch': 'seeded_benign/R37-3/patch.diff'})
# the never-reduced alternative behind known finding K3 removed (a clean-up): the conflict and the finding go away, nothing else changes
B('c06-gm-arglist-def-name-dropped', ['C06', 'C15'], RUL, '    """ arglist_def : arglist COMMA NAME\n                    | NAME\n    """', '    """ arglist_def : arglist COMMA NAME\n    """')

# round 12 ("modernise syntax, no functional change": codemod-style rewrites one of which is not equivalent, U/V; C13 was not
# delivered).  Not reported by any rule: C07-U (string escapes decoded in one re.sub pass), C17-V (__slots__ without __weakref__:
# only a WeakValueDictionary as cache notices), C08-U (the function table built with a dict comprehension over a loop variable
# that the lambdas bind late: 13 checks stop with ANALYSIS-ERROR because the table is no longer a literal).
P('C01-U', 'C01', 'C01.R6'); P('C01-V', 'C01', 'C01.R8')
P('C02-U', 'C02', 'C02.R2'); P('C02-V', 'C02', 'C02.R5')
P('C03-U', 'C03', 'C03.R6'); P('C03-V', 'C02', 'C02.R4')
P('C04-U', 'C06', 'C06.R9'); P('C04-V', 'C04', 'C04.R2')
P('C05-U', 'C02', 'C02.R3'); P('C05-V', 'C05', 'C05.R1')
P('C06-U', 'C06', 'C06.R7'); P('C06-V', 'C04', 'C04.R4')
P('C07-V', 'C06', 'C06.R2')
P('C08-V', 'C07', 'C07.R1')
P('C09-U', 'C09', 'C09.R1'); P('C09-V', 'C06', 'C06.R1')
P('C10-U', 'C10', 'C10.R1'); P('C10-V', 'C18', 'C18.R5')
P('C11-U', 'C15', 'C15.R1'); P('C11-V', 'C11', 'C11.R1')
P('C12-U', 'C02', 'C02.R2'); P('C12-V', 'C12', 'C12.R1')
P('C14-U', 'C07', 'C07.R6'); P('C14-V', 'C14', 'C14.R3')
P('C15-U', 'C15', 'C15.R6'); P('C15-V', 'C15', 'C15.R6')
P('C16-U', 'C15', 'C15.R1'); P('C16-V', 'C10', 'C10.R1')
P('C17-U', 'C17', 'C17.R2')
P('C18-U', 'C06', 'C06.R7'); P('C18-V', 'C11', 'C11.R1')
P('C19-U', 'C19', 'C19.R1'); P('C19-V', 'C02', 'C02.R1')
P('C20-U', 'C20', 'C20.R1'); P('C20-V', 'C15', 'C15.R7')
