#!/venv/bin/python
"""Self-test of the checkers: every corpus entry is a textual edit of a scratch
copy of /repo/smartquery; a *mutant* must make the named property's check
report a violation (exit 1, VIOLATION line, optionally a rule id in the
output), a *benign* variant must leave it silent (exit 0).

usage: selftest/run.py [--only SUBSTR] [--prop Cnn] [-j N] [-v]
Scratch copies live under a mkdtemp() directory that is removed afterwards.
"""
from __future__ import annotations

import argparse
import concurrent.futures as cf
import hashlib
import json
import os
import shutil
import subprocess
import sys
import tempfile

HERE = os.path.dirname(os.path.abspath(__file__))
VERIF = os.path.dirname(HERE)
sys.path.insert(0, VERIF)

from selftest.corpus import CORPUS  # noqa: E402


def tree_digest(repo: str) -> str:
    h = hashlib.sha256()
    d = os.path.join(repo, 'smartquery')
    for fn in sorted(os.listdir(d)):
        if fn.endswith('.py'):
            h.update(fn.encode())
            h.update(open(os.path.join(d, fn), 'rb').read())
    return h.hexdigest()


def apply_edits(dst: str, edits) -> str:
    for rel, old, new in edits:
        p = os.path.join(dst, rel)
        s = open(p).read()
        n = s.count(old)
        if n != 1:
            return 'anchor %r occurs %d times in %s' % (old[:50], n, rel)
        open(p, 'w').write(s.replace(old, new))
    return ''


def run_one(args):
    entry, repo, tmp, verbose = args
    name = entry['id']
    dst = os.path.join(tmp, name.replace('/', '_'))
    os.makedirs(dst)
    try:
        shutil.copytree(os.path.join(repo, 'smartquery'), os.path.join(dst, 'smartquery'),
                        ignore=shutil.ignore_patterns('__pycache__'))
        if entry.get('patch'):
            # only the package is copied: sections of the patch that touch other files (new tests) are dropped
            text = open(os.path.join(VERIF, entry['patch'])).read()
            parts = text.split('\ndiff --git ')
            kept = [parts[0]] if parts[0].startswith('diff --git ') and ' b/smartquery/' in parts[0].split('\n', 1)[0] else []
            kept += ['diff --git ' + x for x in parts[1:] if ' b/smartquery/' in x.split('\n', 1)[0]]
            if parts[0].startswith('diff --git ') and not kept and len(parts) == 1:
                kept = [parts[0]]
            fpatch = os.path.join(dst, '.selftest.patch')
            open(fpatch, 'w').write('\n'.join(kept) + '\n')
            r = subprocess.run('patch -p1 -s -f --no-backup-if-mismatch < %s' % fpatch, shell=True,
                               cwd=dst, capture_output=True, text=True)
            os.unlink(fpatch)
            err = '' if r.returncode == 0 else 'patch does not apply: ' + (r.stdout + r.stderr)[-200:]
            if not err and entry.get('edits'):
                err = apply_edits(dst, entry['edits'])       # a change seeded into the refactored tree
        else:
            err = apply_edits(dst, entry['edits'])
        if err:
            return (name, 'SKIP', err, '')
        # must still compile
        r = subprocess.run([sys.executable, '-m', 'compileall', '-q', os.path.join(dst, 'smartquery')],
                           capture_output=True, text=True)
        if r.returncode != 0:
            return (name, 'SKIP', 'variant does not compile', r.stdout[-300:])
        results = []
        out_all = ''
        for prop in entry['props']:
            evd = os.path.join(dst, 'ev')
            r = subprocess.run([sys.executable, '-m', 'sqstatic.run', prop, '--repo', dst, '--evidence-dir', evd],
                               capture_output=True, text=True, cwd=VERIF)
            out_all += r.stdout + r.stderr
            results.append((prop, r.returncode, r.stdout))
        exp = entry['expect']
        ok = True
        why = []
        for prop, rc, out in results:
            if exp == 'violation':
                if rc != 1 or 'VIOLATION property=%s' % prop not in out:
                    ok = False
                    why.append('%s: expected a violation, exit=%d' % (prop, rc))
                elif entry.get('rule') and entry['rule'] not in out.split('VIOLATION', 1)[1]:
                    ok = False
                    why.append('%s: violation reported but not by rule %s' % (prop, entry['rule']))
            else:
                if rc == 1 and entry.get('tolerate_rekeyed'):
                    # a refactoring moves/renames the constructs of open findings: their keys change, the rules stay the same
                    import re as _re
                    known = {(k['property'], k['key'].split(' :: ', 1)[0]) for k in json.load(open(os.path.join(VERIF, 'known_findings.json')))['open']}
                    fresh = [m.group(1) for m in _re.finditer(r'^\s+(C\d\d\.R\d+) :: ', out, _re.M) if (prop, m.group(1)) not in known]
                    if not fresh and 'ANALYSIS-ERROR' not in out:
                        continue
                if rc != 0:
                    ok = False
                    why.append('%s: expected silence, exit=%d' % (prop, rc))
        return (name, 'PASS' if ok else 'FAIL', '; '.join(why), out_all if (verbose or not ok) else '')
    finally:
        shutil.rmtree(dst, ignore_errors=True)


DIGEST_FILE = os.path.join(HERE, 'validated_digest.txt')


def run_entries(entries, repo='/repo', jobs=16, verbose=False):
    tmp = tempfile.mkdtemp(prefix='sqstatic-selftest-')
    try:
        with cf.ProcessPoolExecutor(max_workers=jobs) as ex:
            return list(ex.map(run_one, [(e, repo, tmp, verbose) for e in entries]))
    finally:
        shutil.rmtree(tmp, ignore_errors=True)


def for_property(prop: str, repo: str = '/repo', jobs: int = 16):
    """Used by the thorough tier: re-validate the checker of one property against its corpus.

    The corpus entries are textual patches; they only apply to the tree they were validated on."""
    try:
        recorded = open(DIGEST_FILE).read().strip()
    except OSError:
        recorded = ''
    cur = tree_digest(repo)
    if recorded != cur:
        return {'ran': False, 'reason': 'the analysed tree differs from the one the corpus was validated on (digest %s... vs %s...); '
                                        'corpus patches are textual, self-test skipped' % (cur[:12], recorded[:12])}
    # only this property's check is run on an entry (a benign entry names all twenty: the other nineteen are re-validated by
    # their own thorough runs)
    entries = [dict(e, props=[prop]) for e in CORPUS if prop in e['props']]
    res = run_entries(entries, repo, jobs)
    return {'ran': True, 'entries': len(res), 'mutants': sum(1 for e in entries if e['expect'] == 'violation'),
            'benign': sum(1 for e in entries if e['expect'] != 'violation'),
            'passed': sum(1 for r in res if r[1] == 'PASS'), 'skipped': [r[0] for r in res if r[1] == 'SKIP'],
            'failed': [{'id': r[0], 'why': r[2]} for r in res if r[1] == 'FAIL']}


def main() -> int:
    ap = argparse.ArgumentParser()
    ap.add_argument('--repo', default='/repo')
    ap.add_argument('--only')
    ap.add_argument('--prop')
    ap.add_argument('-j', type=int, default=16)
    ap.add_argument('-v', action='store_true')
    ap.add_argument('--record', action='store_true', help='record the digest of the tree when everything passes')
    a = ap.parse_args()
    entries = CORPUS
    if a.only:
        entries = [e for e in entries if any(x in e['id'] for x in a.only.split(','))]
    if a.prop:
        entries = [e for e in entries if a.prop in e['props']]
    res = run_entries(entries, a.repo, a.j, a.v)
    bad = 0
    for name, status, why, out in res:
        if status != 'PASS' or a.v:
            print('%-5s %s %s' % (status, name, why))
            if out:
                print('      ' + '\n      '.join(l for l in out.splitlines() if l.startswith(('VIOLATION', 'ANALYSIS', '  C', 'Traceback', 'KNOWN'))[:12]) if False else
                      '      ' + '\n      '.join([l for l in out.splitlines() if l.startswith(('VIOLATION', 'ANALYSIS', '  C', 'KNOWN')) or 'Error' in l][:14]))
        if status == 'FAIL':
            bad += 1
    n = len(res)
    print('selftest: %d entries, %d pass, %d fail, %d skipped' % (
        n, sum(1 for r in res if r[1] == 'PASS'), bad, sum(1 for r in res if r[1] == 'SKIP')))
    if a.record and not bad and not a.only and not a.prop:
        open(DIGEST_FILE, 'w').write(tree_digest(a.repo) + '\n')
        print('recorded digest of %s' % a.repo)
    return 1 if bad else 0


if __name__ == '__main__':
    sys.exit(main())
