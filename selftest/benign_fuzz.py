#!/venv/bin/python
"""False-alarm test: apply behaviour-preserving source transformations to a scratch copy of
/repo/smartquery and require every check to report nothing new.

The transformations are syntactic identities of Python (no judgement involved):
  reformat   - ast.unparse of every file (layout, quotes, parentheses, comments dropped)
  locals     - every local variable that is not a parameter gets a new name
  tempret    - `return E`  ->  `_r = E; return _r`        (non-generator functions)
  invert     - `if c: A else: B`  ->  `if not c: B else: A`
  swapeq     - `a == K` / `a != K` with a constant on the right  ->  constant on the left
  elif2else  - `elif` chains rewritten as nested `else: if`   (what ast.unparse of a rebuilt tree does anyway)
  alias      - `import copy` users: a module-level alias `_deepcopy = copy.deepcopy` replaces the attribute calls
  ifexpret   - `return A if C else B`  ->  if C: return A / else: return B
  comp2loop  - `x = [E for t in it]`  ->  x = []; for t in it: x.append(E)
  expandaug  - `obj.attr += <int>`  ->  obj.attr = obj.attr + <int>
  fstr2format- f'a {x} b'  ->  'a {} b'.format(x)
and combinations of them.  A violation is tolerated only when it is an open finding of
known_findings.json re-keyed by the transformation (same rule, same function).

usage: selftest/benign_fuzz.py [-j 16] [--only name]
"""
from __future__ import annotations

import argparse
import ast
import concurrent.futures as cf
import copy as _copy
import json
import os
import re
import shutil
import subprocess
import sys
import tempfile

HERE = os.path.dirname(os.path.abspath(__file__))
VERIF = os.path.dirname(HERE)
FILES = ['ast_ops.py', 'functions.py', 'sq_parser.py', 'scoped_dict.py', 'lexer.py', 'rules.py', 'vm_state.py', 'utils.py',
         'exceptions.py', 'custom_types.py']


class Locals(ast.NodeTransformer):
    def visit_FunctionDef(self, node):
        params = {a.arg for a in node.args.posonlyargs + node.args.args + node.args.kwonlyargs}
        if node.args.vararg:
            params.add(node.args.vararg.arg)
        if node.args.kwarg:
            params.add(node.args.kwarg.arg)
        assigned = set()
        declared = set()
        for n in ast.walk(node):
            if isinstance(n, (ast.Global, ast.Nonlocal)):
                declared.update(n.names)
        # only names assigned directly in this function (not in nested defs)
        def collect(n, top=True):
            for ch in ast.iter_child_nodes(n):
                if isinstance(ch, (ast.FunctionDef, ast.Lambda, ast.ClassDef)):
                    if isinstance(ch, ast.FunctionDef):
                        pass
                    continue
                if isinstance(ch, ast.Name) and isinstance(ch.ctx, ast.Store):
                    assigned.add(ch.id)
                collect(ch, False)
        collect(node)
        names = {n for n in assigned if n not in params and n not in declared and not n.startswith('__')}
        # names used by nested functions/lambdas keep their spelling only if we rename there too: rename everywhere below
        if names:
            for n in ast.walk(node):
                if isinstance(n, ast.Name) and n.id in names:
                    n.id = n.id + '_v'
        for ch in node.body:
            if isinstance(ch, ast.FunctionDef):
                self.visit(ch)
        return node


class TempRet(ast.NodeTransformer):
    def visit_FunctionDef(self, node):
        if any(isinstance(n, (ast.Yield, ast.YieldFrom)) for n in ast.walk(node)):
            return node
        self.generic_visit(node)
        return node

    def _block(self, stmts):
        out = []
        for st in stmts:
            if isinstance(st, ast.Return) and st.value is not None and not isinstance(st.value, (ast.Name, ast.Constant)):
                out.append(ast.Assign(targets=[ast.Name(id='_ret', ctx=ast.Store())], value=st.value, lineno=st.lineno))
                out.append(ast.Return(value=ast.Name(id='_ret', ctx=ast.Load())))
            else:
                out.append(st)
        return out

    def generic_visit(self, node):
        super().generic_visit(node)
        for f in ('body', 'orelse', 'finalbody'):
            v = getattr(node, f, None)
            if isinstance(v, list) and v and isinstance(v[0], ast.stmt):
                setattr(node, f, self._block(v))
        return node


class Invert(ast.NodeTransformer):
    def visit_If(self, node):
        self.generic_visit(node)
        if node.orelse and not (len(node.orelse) == 1 and isinstance(node.orelse[0], ast.If)):
            return ast.If(test=ast.UnaryOp(op=ast.Not(), operand=node.test), body=node.orelse, orelse=node.body)
        return node


class SwapEq(ast.NodeTransformer):
    def visit_Compare(self, node):
        self.generic_visit(node)
        if len(node.ops) == 1 and isinstance(node.ops[0], (ast.Eq, ast.NotEq)) and isinstance(node.comparators[0], ast.Constant) \
                and not isinstance(node.left, ast.Constant):
            return ast.Compare(left=node.comparators[0], ops=node.ops, comparators=[node.left])
        return node


class Alias(ast.NodeTransformer):
    """copy.deepcopy(x) -> _deepcopy(x) with a module-level alias."""
    used = False

    def visit_Call(self, node):
        self.generic_visit(node)
        f = node.func
        if isinstance(f, ast.Attribute) and f.attr == 'deepcopy' and isinstance(f.value, ast.Name) and f.value.id == 'copy':
            self.used = True
            node.func = ast.Name(id='_deepcopy', ctx=ast.Load())
        return node


class IfExpReturn(ast.NodeTransformer):
    """return A if C else B  ->  if C: return A / else: return B"""
    def _block(self, stmts):
        out = []
        for st in stmts:
            if isinstance(st, ast.Return) and isinstance(st.value, ast.IfExp):
                out.append(ast.If(test=st.value.test, body=[ast.Return(value=st.value.body)], orelse=[ast.Return(value=st.value.orelse)]))
            else:
                out.append(st)
        return out

    def generic_visit(self, node):
        super().generic_visit(node)
        for f in ('body', 'orelse', 'finalbody'):
            v = getattr(node, f, None)
            if isinstance(v, list) and v and isinstance(v[0], ast.stmt):
                setattr(node, f, self._block(v))
        return node


class CompToLoop(ast.NodeTransformer):
    """x = [E for t in it]  ->  x = []; for t in it: x.append(E)      (single generator, no conditions, plain name target)"""
    def _block(self, stmts):
        out = []
        for st in stmts:
            if isinstance(st, ast.Assign) and len(st.targets) == 1 and isinstance(st.targets[0], ast.Name) and isinstance(st.value, ast.ListComp) \
                    and len(st.value.generators) == 1 and not st.value.generators[0].ifs and not st.value.generators[0].is_async:
                name = st.targets[0].id
                g = st.value.generators[0]
                uses = [n for n in ast.walk(st.value) if isinstance(n, ast.Name) and n.id == name]
                if uses:
                    out.append(st)
                    continue
                out.append(ast.Assign(targets=[ast.Name(id=name, ctx=ast.Store())], value=ast.List(elts=[], ctx=ast.Load()), lineno=st.lineno))
                out.append(ast.For(target=g.target, iter=g.iter, orelse=[], body=[ast.Expr(value=ast.Call(
                    func=ast.Attribute(value=ast.Name(id=name, ctx=ast.Load()), attr='append', ctx=ast.Load()), args=[st.value.elt], keywords=[]))]))
            else:
                out.append(st)
        return out

    def generic_visit(self, node):
        super().generic_visit(node)
        for f in ('body', 'orelse', 'finalbody'):
            v = getattr(node, f, None)
            if isinstance(v, list) and v and isinstance(v[0], ast.stmt):
                setattr(node, f, self._block(v))
        return node


class ExpandAug(ast.NodeTransformer):
    """obj.attr += <int constant>  ->  obj.attr = obj.attr + <constant>   (numbers only: no in-place semantics involved)"""
    def visit_AugAssign(self, node):
        if isinstance(node.target, ast.Attribute) and isinstance(node.op, (ast.Add, ast.Sub)) and isinstance(node.value, ast.Constant) \
                and isinstance(node.value.value, int) and not isinstance(node.value.value, bool):
            load = ast.Attribute(value=node.target.value, attr=node.target.attr, ctx=ast.Load())
            return ast.Assign(targets=[node.target], value=ast.BinOp(left=load, op=node.op, right=node.value), lineno=node.lineno)
        return node


class FStrToFormat(ast.NodeTransformer):
    """f'a {x} b'  ->  'a {} b'.format(x)   (plain {expr} fields only, no braces in the literal parts)"""
    def visit_JoinedStr(self, node):
        parts, args = [], []
        for v in node.values:
            if isinstance(v, ast.Constant) and isinstance(v.value, str):
                if '{' in v.value or '}' in v.value:
                    return node
                parts.append(v.value)
            elif isinstance(v, ast.FormattedValue) and v.conversion == -1 and v.format_spec is None:
                parts.append('{}')
                args.append(v.value)
            else:
                return node
        if not args:
            return node
        return ast.Call(func=ast.Attribute(value=ast.Constant(value=''.join(parts)), attr='format', ctx=ast.Load()), args=args, keywords=[])


def transform(src: str, names) -> str:
    tree = ast.parse(src)
    for n in names:
        if n == 'reformat':
            continue
        if n == 'alias':
            a = Alias()
            tree = a.visit(tree)
            if a.used:
                # insert after the imports
                idx = max(i for i, st in enumerate(tree.body) if isinstance(st, (ast.Import, ast.ImportFrom))) + 1
                tree.body.insert(idx, ast.parse('_deepcopy = copy.deepcopy').body[0])
            continue
        t = {'locals': Locals, 'tempret': TempRet, 'invert': Invert, 'swapeq': SwapEq, 'ifexpret': IfExpReturn, 'comp2loop': CompToLoop,
             'expandaug': ExpandAug, 'fstr2format': FStrToFormat}[n]()
        tree = t.visit(tree)
    ast.fix_missing_locations(tree)
    return ast.unparse(tree) + '\n'


VARIANTS = [
    ('reformat', ['reformat']),
    ('locals', ['locals']),
    ('tempret', ['tempret']),
    ('invert', ['invert']),
    ('swapeq', ['swapeq']),
    ('alias', ['alias']),
    ('locals+tempret', ['locals', 'tempret']),
    ('invert+swapeq', ['invert', 'swapeq']),
    ('ifexpret', ['ifexpret']),
    ('comp2loop', ['comp2loop']),
    ('expandaug', ['expandaug']),
    ('fstr2format', ['fstr2format']),
    ('all', ['locals', 'tempret', 'invert', 'swapeq', 'alias']),
    ('all2', ['ifexpret', 'comp2loop', 'expandaug', 'fstr2format', 'locals', 'invert']),
]


def open_findings():
    d = json.load(open(os.path.join(VERIF, 'known_findings.json')))
    out = set()
    for e in d['open']:
        rule, rest = e['key'].split(' :: ', 1)
        fn = re.findall(r'smartquery\.[\w\.]+|FUNCTIONS\[\'\w+\'\]', rest)
        out.add((e['property'], rule, tuple(fn[:1])))
    return out


def run_variant(args):
    name, names, files, repo, tmp = args
    dst = os.path.join(tmp, name.replace('+', '_'))
    shutil.copytree(os.path.join(repo, 'smartquery'), os.path.join(dst, 'smartquery'), ignore=shutil.ignore_patterns('__pycache__'))
    for fn in files:
        p = os.path.join(dst, 'smartquery', fn)
        src = open(p).read()
        open(p, 'w').write(transform(src, names))
    r = subprocess.run([sys.executable, '-m', 'compileall', '-q', os.path.join(dst, 'smartquery')], capture_output=True, text=True)
    if r.returncode != 0:
        return (name, 'SKIP', ['does not compile: ' + r.stdout[-200:]])
    # the transformed tree must still pass the repository's tests (it is supposed to be behaviour preserving)
    shutil.copytree(os.path.join(repo, 'tests'), os.path.join(dst, 'tests'))
    for f in ('pytest.ini', 'setup.cfg'):
        if os.path.exists(os.path.join(repo, f)):
            shutil.copy(os.path.join(repo, f), dst)
    r = subprocess.run([sys.executable, '-m', 'pytest', '-q', '-p', 'no:cacheprovider', '-x'], cwd=dst, capture_output=True, text=True,
                       env=dict(os.environ, PYTHONPATH=dst))
    if ' passed' not in r.stdout or 'failed' in r.stdout:
        return (name, 'SKIP', ['transformed tree fails the test-suite (transformation not behaviour preserving here): ' + r.stdout[-200:]])
    known = open_findings()
    problems = []
    props = [json.loads(l)['id'] for l in open(os.path.join(VERIF, 'properties.jsonl'))]
    for prop in props:
        r = subprocess.run([sys.executable, '-m', 'sqstatic.run', prop, '--repo', dst, '--evidence-dir', os.path.join(dst, 'ev')],
                           capture_output=True, text=True, cwd=VERIF)
        if r.returncode == 0:
            continue
        for line in r.stdout.splitlines():
            if line.startswith('ANALYSIS-ERROR'):
                problems.append(line[:300])
            m = re.match(r'\s+(C\d\d\.R\d) :: (.*)', line)
            if m:
                rule, rest = m.group(1), m.group(2)
                fn = tuple(re.findall(r'smartquery\.[\w\.]+|FUNCTIONS\[\'\w+\'\]', rest)[:1])
                if (prop, rule, fn) in known:
                    continue        # an open finding re-keyed by the transformation
                problems.append('%s %s :: %s' % (prop, rule, rest[:260]))
    shutil.rmtree(dst, ignore_errors=True)
    return (name, 'PASS' if not problems else 'FAIL', problems)


def main() -> int:
    ap = argparse.ArgumentParser()
    ap.add_argument('--repo', default='/repo')
    ap.add_argument('-j', type=int, default=16)
    ap.add_argument('--only')
    a = ap.parse_args()
    jobs = []
    tmp = tempfile.mkdtemp(prefix='sqstatic-benign-')
    try:
        for name, names in VARIANTS:
            if a.only and a.only not in name:
                continue
            jobs.append((name, names, FILES, a.repo, tmp))
            # per-file variants of the combined transformation
            if name == 'all':
                for fn in FILES[:6]:
                    jobs.append(('all@' + fn[:-3], names, [fn], a.repo, tmp))
        with cf.ProcessPoolExecutor(max_workers=a.j) as ex:
            res = list(ex.map(run_variant, jobs))
    finally:
        shutil.rmtree(tmp, ignore_errors=True)
    bad = 0
    for name, status, problems in res:
        print('%-5s %s' % (status, name))
        for p in problems[:12]:
            print('      ' + p)
        if status == 'FAIL':
            bad += 1
    print('benign_fuzz: %d variants, %d pass, %d fail, %d skipped' % (len(res), sum(1 for r in res if r[1] == 'PASS'), bad,
                                                                   sum(1 for r in res if r[1] == 'SKIP')))
    return 1 if bad else 0


if __name__ == '__main__':
    sys.exit(main())
