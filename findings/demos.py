#!/venv/bin/python
"""Demonstrations of the recorded known findings against the real code.

Documentation only (not part of any registered check): run it against a scratch copy,
    rsync -a --exclude .git /repo/ /tmp/sq_demo/ && /venv/bin/python findings/demos.py /tmp/sq_demo; rm -rf /tmp/sq_demo
because constructing SqParser() rewrites smartquery/gen/*.py.
"""
import sys
root = sys.argv[1] if len(sys.argv) > 1 else '/tmp/sq_demo'
sys.path.insert(0, root)
from smartquery import SqParser  # noqa: E402

P = SqParser()
BIG = [10000 + i for i in range(10000)]        # longest host value: 10000 elements


def show(label, fn, expect):
    try:
        r = fn()
    except Exception as e:  # noqa
        r = 'EXC %s: %s' % (type(e).__name__, str(e)[:60])
    print('%-6s %-70s -> %s' % (label, expect, str(r)[:80]))


n = {}
P.eval('f = x => x + 1', names=n, max_ops_evaluated=20)
rs = []
for i in range(7):
    try:
        rs.append(P.eval('f(1)', names=n, max_ops_evaluated=20))
    except Exception as e:
        rs.append(type(e).__name__)
show('K1', lambda: rs, 'identical calls f(1) under budget 20: the 6th fails')
n1 = {'y': 1}
P.eval('g = a => y', names=n1)
show('K1', lambda: P.eval('g(0)', names={'y': 2, 'g': n1['g']}), 'lambda resolves y in the defining call\'s names (1, not 2)')
show('K2', lambda: P.parse('a + b not in c'), 'a + b not in c groups as a + (b not in c)')
show('K3', lambda: P.parse('(x) => x + 1'), '(x) => e is a syntax error although the grammar derives it')
show('K4a', lambda: P.eval('l = [1,2,3,4,5,6,7,8,9,10]\n' + 'l = l + l\n' * 11 + 'len(l)', names={}, max_ops_evaluated=10000), 'list + list: 20480 elements')
show('K4b', lambda: P.eval('x += y\nlen(x)', names={'x': list(range(9000)), 'y': list(range(9000))}), 'x += y: 18000')
show('K4c', lambda: P.eval('x *= n\nlen(x)', names={'x': list(range(9000)), 'n': 5}), 'x *= 5: 45000')
show('K4d', lambda: P.eval('d["k"] += d["k"]\nlen(d["k"])', names={'d': {'k': list(range(9000))}}), 'd[k] += d[k]: 18000')
show('K4e', lambda: P.eval('d["k"] *= n\nlen(d["k"])', names={'d': {'k': list(range(9000))}, 'n': 2}), 'd[k] *= 2: 18000')
show('K4f', lambda: P.eval('s = "aaaaaaaaaa"\ns = replace(s,"a",s)\ns = replace(s,"a",s)\ns = replace(s, "a", "aaaaaaaaaa")\nlen(enumerate(s))', names={}, max_ops_evaluated=1000), 'replace: 100000-element list from a 10-char literal')
show('K4g', lambda: P.eval('len(enumerate(join(l, "")))', names={'l': ['a' * 10000] * 10}), 'join: 100000')
show('K4g', lambda: P.eval('len(enumerate(pretty(l, "")))', names={'l': ['a' * 10000] * 10}), 'pretty(list): 100000')
show('K4g', lambda: P.eval('len(enumerate(pretty(d, "")))', names={'d': {str(i): 'a' * 10000 for i in range(10)}}), 'pretty(dict): >100000')
show('K4g', lambda: P.eval('len(enumerate(pretty(12345678, s)))', names={'s': 'a' * 10000}), 'pretty(number, sep): >20000')
show('K4h', lambda: P.eval('len(enumerate(str(l)))', names={'l': BIG}), 'str(list): 70000')
show('K4h', lambda: P.eval('len(enumerate("" + l))', names={'l': BIG}), '"" + list: 70000')
show('K4h', lambda: P.eval('len(enumerate(pretty([l])))', names={'l': BIG}), 'pretty([list]): 70000')
show('K4h', lambda: P.eval('len(enumerate(pretty(l)))', names={'l': (1, BIG)}), 'pretty(other): str(value)')
show('K4h', lambda: P.eval('d = {}\nd[l] = 1\nlen(enumerate(keys(d)[0]))', names={'l': BIG}), 'dict key str(list): 70000')
show('K4i', lambda: P.eval('len(split(s, "a"))', names={'s': 'a' * 20000}), 'split: 20001 from a 20000-char string')
show('K4j', lambda: P.eval('len(match_all(s, ""))', names={'s': 'a' * 20000}), 'match_all: 20001')
show('K5a', lambda: len(str(P.eval('x *= x\nx *= x\nx', names={'x': 10 ** 30}))), 'x *= x twice on a host int: 121 digits')
show('K5b', lambda: len(str(P.eval('d["x"] *= d["x"]\nd["x"] *= d["x"]\nd["x"]', names={'d': {'x': 10 ** 30}}))), 'd[x] *= d[x]: 121 digits')
show('K5c', lambda: len(str(P.eval('int(10 ** 99999)', names={}))), 'int(10 ** 99999): 100000 digits')
