#!/venv/bin/python
"""Print the table of DESIGN.md section 7.3 from /verif/seeded/*/meta.json (use --refresh to re-run the checks first)."""
import json, os, subprocess, sys
V = os.path.dirname(os.path.dirname(os.path.abspath(__file__)))
sys.path.insert(0, os.path.join(V, 'tools'))
rows = []
if '--refresh' in sys.argv:
    # re-evaluate every stored change (8 at a time; each evaluation applies the patch to a scratch copy and runs all 20 checks)
    from concurrent.futures import ThreadPoolExecutor
    names = [d for d in sorted(os.listdir(os.path.join(V, 'seeded'))) if os.path.exists(os.path.join(V, 'seeded', d, 'meta.json'))]

    def one(d):
        prop, x = d.split('-')
        subprocess.run(['/venv/bin/python', os.path.join(V, 'tools', 'seeded_eval.py'), prop, x, '--keep', '--src', os.path.join(V, 'seeded', d)],
                       capture_output=True, text=True)
    with ThreadPoolExecutor(8) as ex:
        list(ex.map(one, names))
for d in sorted(os.listdir(os.path.join(V, 'seeded'))):
    mp = os.path.join(V, 'seeded', d, 'meta.json')
    if not os.path.exists(mp):
        continue
    m = json.load(open(mp))
    prop = m['property']
    own = prop in m['caught_by']
    rules = []
    for k in m['caught_by']:
        for l in m['reports'].get(k, []):
            if '::' in l:
                rules.append(l.split(' :: ')[0].strip())
    first = m['breaks'].splitlines()[0][:150] if m['breaks'] else ''
    rows.append('| %s | %s | %s | %s | %s |' % (d, first.replace('|', '/'), 'yes' if own else ('**no**' if not m['caught_by'] else 'by other'),
                                              ', '.join(sorted(set(rules))) or ', '.join(m['caught_by']) or '-', ', '.join(m['analysis_errors']) or '-'))
print('| id | change (first line of the author\'s note) | caught by its own property | reporting rules | analysis errors |')
print('|----|------------------------------------------|----------------------------|-----------------|-----------------|')
print('\n'.join(rows))
