#!/venv/bin/python
"""Regenerate the tables of DESIGN.md sections 7.3 / 7.4 from seeded/*/meta.json and seeded_benign/*/meta.json.
usage: tools/update_design_tables.py [--refresh]   (--refresh re-applies every patch and re-runs all checks first)"""
import json, os, re, subprocess, sys
V = os.path.dirname(os.path.dirname(os.path.abspath(__file__)))
PY = '/venv/bin/python'
args = ['--refresh'] if '--refresh' in sys.argv else []
tab = subprocess.run([PY, os.path.join(V, 'tools', 'seeded_report.py')] + args, capture_output=True, text=True).stdout
tab = tab[tab.index('| id |'):]
rows = ['| id | what was restructured (first lines of the author\'s note) | suite | reports on the refactored tree |', '|----|---|---|---|']
if '--refresh' in sys.argv:
    from concurrent.futures import ThreadPoolExecutor

    def one(d):
        subprocess.run([PY, os.path.join(V, 'tools', 'benign_eval.py'), os.path.join(V, 'seeded_benign', d, 'patch.diff'), d, '--keep'],
                       capture_output=True, text=True)
    with ThreadPoolExecutor(8) as ex:
        list(ex.map(one, sorted(os.listdir(os.path.join(V, 'seeded_benign')))))
for d in sorted(os.listdir(os.path.join(V, 'seeded_benign'))):
    mp = os.path.join(V, 'seeded_benign', d, 'meta.json')
    if not os.path.exists(mp):
        continue
    m = json.load(open(mp))
    note = ' '.join(m.get('note', '').split())[:230].replace('|', '/')
    fa = m.get('false_alarms', [])
    kinds = sorted({re.sub(r' ::.*', '', x)[:40] if not x.startswith('ANALYSIS') else 'ANALYSIS-ERROR' for x in fa})
    rows.append('| %s | %s | %s | %s |' % (d, note, m.get('suite_with_patch', '').split(' in ')[0], 'none' if not fa else '%d: %s' % (len(fa), ', '.join(kinds)[:160])))
s = open(os.path.join(V, 'DESIGN.md')).read()
for name, body in (('seeded-table', tab.strip()), ('benign-table', '\n'.join(rows))):
    b, e = '<!-- %s:begin (tools/update_design_tables.py) -->' % name, '<!-- %s:end -->' % name
    if b in s and e in s:
        s = s[:s.index(b) + len(b)] + '\n' + body + '\n' + s[s.index(e):]
open(os.path.join(V, 'DESIGN.md'), 'w').write(s)
print('DESIGN.md tables updated')
