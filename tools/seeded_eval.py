#!/venv/bin/python
"""Verify a sub-agent's seeded change and, if it holds up, keep it under /verif/seeded/<id>/.

usage: tools/seeded_eval.py Cnn X [--keep]          (reads /tmp/wt_Cnn/_seed/X/{patch.diff,demo.py,note.txt})
Steps (all on scratch copies of /repo's HEAD under a mkdtemp directory, removed afterwards):
  1. patch applies;  2. test suite still passes with it;  3. demo fails with it;  4. demo passes without it;
  5. every registered check is run against the patched copy (quick tier) and the verdicts are listed.
"""
import json, os, shutil, subprocess, sys, tempfile

V = os.path.dirname(os.path.dirname(os.path.abspath(__file__)))
PY = '/venv/bin/python'


def sh(cmd, cwd=None, timeout=600):
    r = subprocess.run(cmd, shell=True, cwd=cwd, capture_output=True, text=True, timeout=timeout)
    return r.returncode, (r.stdout + r.stderr)


def scratch(tmp, name):
    d = os.path.join(tmp, name)
    os.makedirs(d)
    rc, out = sh('git -C /repo archive HEAD | tar -x -C %s' % d)
    assert rc == 0, out
    return d


def evaluate(prop, x, src=None, keep=False, quiet=False, name=None):
    src = src or '/tmp/wt_%s/_seed/%s' % (prop, x)
    patch = os.path.join(src, 'patch.diff')
    demo = os.path.join(src, 'demo.py')
    res = {'property': prop, 'variant': x, 'source': src}
    tmp = tempfile.mkdtemp(prefix='sq-seeded-')
    try:
        orig = scratch(tmp, 'orig')
        pat = scratch(tmp, 'patched')
        rc, out = sh('git apply --exclude="smartquery/gen/*" %s' % patch, cwd=pat) if False else sh('patch -p1 --no-backup-if-mismatch < %s' % patch, cwd=pat)
        res['applies'] = rc == 0
        if rc != 0:
            res['error'] = out[-400:]
            return res
        rc, out = sh('%s -m pytest -q -p no:cacheprovider --timeout=900 2>&1 | tail -3' % PY, cwd=pat)
        res['tests'] = out.strip().splitlines()[-1] if out.strip() else ''
        res['tests_pass'] = ' passed' in res['tests'] and 'failed' not in res['tests']
        os.makedirs(os.path.join(pat, '_seed', x)); shutil.copy(demo, os.path.join(pat, '_seed', x, 'demo.py'))
        os.makedirs(os.path.join(orig, '_seed', x)); shutil.copy(demo, os.path.join(orig, '_seed', x, 'demo.py'))
        rc1, out1 = sh('PYTHONPATH=%s %s _seed/%s/demo.py' % (pat, PY, x), cwd=pat, timeout=300)
        rc0, out0 = sh('PYTHONPATH=%s %s _seed/%s/demo.py' % (orig, PY, x), cwd=orig, timeout=300)
        res['demo_fails_with_patch'] = rc1 != 0
        res['demo_passes_without'] = rc0 == 0
        res['demo_output'] = out1.strip()[-300:]
        # restore gen/ in the patched copy (SqParser() rewrote it) - the checks ignore gen/ anyway
        verdicts = {}
        for l in open(os.path.join(V, 'properties.jsonl')):
            pid = json.loads(l)['id']
            rc, out = sh('%s -m sqstatic.run %s --repo %s --evidence-dir %s/ev' % (PY, pid, pat, tmp), cwd=V)
            if rc != 0:
                lines = [ln.strip()[:400] for ln in out.splitlines() if ln.startswith(('  C', 'ANALYSIS-ERROR'))]
                verdicts[pid] = {'exit': rc, 'lines': [l for l in lines if '::' in l or l.startswith('ANALYSIS')][:6]}
        res['alarms'] = verdicts
        res['caught_by_own_property'] = prop in verdicts and verdicts[prop]['exit'] == 1
        res['caught_by'] = sorted(k for k, v in verdicts.items() if v['exit'] == 1)
        res['analysis_errors'] = sorted(k for k, v in verdicts.items() if v['exit'] == 2)
        ok = res['tests_pass'] and res['demo_fails_with_patch'] and res['demo_passes_without']
        res['valid'] = ok
        if keep and ok:
            dst = os.path.join(V, 'seeded', name or '%s-%s' % (prop, x))
            os.makedirs(dst, exist_ok=True)
            if os.path.abspath(src) != os.path.abspath(dst):
                shutil.copy(patch, os.path.join(dst, 'patch.diff'))
                shutil.copy(demo, os.path.join(dst, 'demo.py'))
            note = open(os.path.join(src, 'note.txt')).read() if os.path.exists(os.path.join(src, 'note.txt')) else ''
            if not note and os.path.exists(os.path.join(dst, 'meta.json')):
                note = json.load(open(os.path.join(dst, 'meta.json'))).get('breaks', '')
            meta = {'property': prop, 'breaks': note.strip(), 'needs_to_manifest': 'see breaks / demo.py',
                    'verified': {'repo_head': sh('git -C /repo rev-parse --short HEAD')[1].strip(),
                                 'suite_with_patch': res['tests'], 'demo_with_patch': 'exit != 0: ' + res['demo_output'][-160:],
                                 'demo_without_patch': 'exit 0'},
                    'ran': ['patch -p1 < patch.diff on a scratch export of /repo HEAD', PY + ' -m pytest -q -p no:cacheprovider',
                            PY + ' demo.py (patched: fails, original: passes)', './check <all 20> --repo <patched copy>'],
                    'caught_by': res['caught_by'], 'analysis_errors': res['analysis_errors'],
                    'reports': {k: v['lines'] for k, v in verdicts.items()}}
            json.dump(meta, open(os.path.join(dst, 'meta.json'), 'w'), indent=1)
            res['kept'] = dst
        return res
    finally:
        shutil.rmtree(tmp, ignore_errors=True)


if __name__ == '__main__':
    prop, x = sys.argv[1], sys.argv[2]
    src = None
    if '--src' in sys.argv:
        src = sys.argv[sys.argv.index('--src') + 1]
    name = None
    if '--name' in sys.argv:
        name = sys.argv[sys.argv.index('--name') + 1]
    r = evaluate(prop, x, src=src, keep='--keep' in sys.argv, name=name)
    print(json.dumps(r, indent=1))
