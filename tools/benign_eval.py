#!/venv/bin/python
"""Evaluate a behaviour-preserving refactoring written by a sub-agent: apply the patch to a scratch export of /repo HEAD,
run the test suite, run all 20 checks; anything other than exit 0 that is not a re-keyed open finding is a false alarm.

usage: tools/benign_eval.py <patch.diff> [name] [--keep] [--scratch <dir to leave the patched copy in>]
"""
import json, os, re, shutil, subprocess, sys, tempfile
V = os.path.dirname(os.path.dirname(os.path.abspath(__file__)))
PY = '/venv/bin/python'


def sh(cmd, cwd=None, timeout=900):
    r = subprocess.run(cmd, shell=True, cwd=cwd, capture_output=True, text=True, timeout=timeout)
    return r.returncode, r.stdout + r.stderr


def open_findings():
    d = json.load(open(os.path.join(V, 'known_findings.json')))
    out = set()
    for e in d['open']:
        rule = e['key'].split(' :: ', 1)[0]
        out.add((e['property'], rule))
    return out


def evaluate(patch, name=None, keep=False):
    tmp = tempfile.mkdtemp(prefix='sq-benign-')
    res = {'patch': patch, 'name': name}
    try:
        d = os.path.join(tmp, 'p')
        os.makedirs(d)
        sh('git -C /repo archive HEAD | tar -x -C %s' % d)
        rc, out = sh('patch -p1 --no-backup-if-mismatch < %s' % patch, cwd=d)
        res['applies'] = rc == 0
        if rc:
            res['error'] = out[-300:]
            return res
        rc, out = sh('PYTHONPATH=%s %s -m pytest -q -p no:cacheprovider 2>&1 | tail -2' % (d, PY), cwd=d)
        res['tests'] = out.strip().splitlines()[-1] if out.strip() else ''
        known = open_findings()
        problems = []
        for l in open(os.path.join(V, 'properties.jsonl')):
            pid = json.loads(l)['id']
            rc, out = sh('%s -m sqstatic.run %s --repo %s --evidence-dir %s/ev' % (PY, pid, d, tmp), cwd=V)
            if rc == 0:
                continue
            for line in out.splitlines():
                if line.startswith('ANALYSIS-ERROR'):
                    problems.append(line[:330])
                m = re.match(r'\s+(C\d\d\.R\d) :: (.*)', line)
                if m:
                    if (pid, m.group(1)) in known:
                        continue            # an open finding, re-keyed by the refactoring
                    problems.append('%s %s :: %s' % (pid, m.group(1), m.group(2)[:300]))
        res['false_alarms'] = problems
        if keep and name:
            dst = os.path.join(V, 'seeded_benign', name)
            os.makedirs(dst, exist_ok=True)
            if os.path.abspath(patch) != os.path.join(dst, 'patch.diff'):
                shutil.copy(patch, os.path.join(dst, 'patch.diff'))
            note = os.path.join(os.path.dirname(patch), 'note.txt')
            old_meta = os.path.join(dst, 'meta.json')
            old_note = json.load(open(old_meta)).get('note', '') if os.path.exists(old_meta) else ''
            json.dump({'note': open(note).read().strip() if os.path.exists(note) else old_note, 'suite_with_patch': res['tests'],
                       'false_alarms': problems}, open(os.path.join(dst, 'meta.json'), 'w'), indent=1)
        if '--scratch' in sys.argv:
            sc = sys.argv[sys.argv.index('--scratch') + 1]
            shutil.rmtree(sc, ignore_errors=True)
            shutil.copytree(d, sc)
        return res
    finally:
        shutil.rmtree(tmp, ignore_errors=True)


if __name__ == '__main__':
    r = evaluate(sys.argv[1], sys.argv[2] if len(sys.argv) > 2 and not sys.argv[2].startswith('--') else None, '--keep' in sys.argv)
    print(r.get('name'), '| applies:', r.get('applies'), '| tests:', r.get('tests'), '| false alarms:', len(r.get('false_alarms', [])))
    for p in r.get('false_alarms', [])[:14]:
        print('    ', p)
    if r.get('error'):
        print('    ', r['error'])
