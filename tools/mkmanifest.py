#!/venv/bin/python
"""Regenerate MANIFEST.json from the table below (claimed = a checker module exists and is listed)."""
import json, os, sys
V = os.path.dirname(os.path.dirname(os.path.abspath(__file__)))
props = [json.loads(l) for l in open(os.path.join(V, 'properties.jsonl'))]

CLAIMED = {
 # id: (technique, level text, level note)
}
exec(open(os.path.join(V, 'tools', 'claims.py')).read())

NA_DEFAULT = 'checker under construction (see DESIGN.md); will be claimed once its rules are implemented'
NA = {}
exec(open(os.path.join(V, 'tools', 'na.py')).read()) if os.path.exists(os.path.join(V, 'tools', 'na.py')) else None

checks = []
for p in props:
    pid = p['id']
    if pid in CLAIMED:
        tech, text, note = CLAIMED[pid]
        checks.append({
            'property_id': pid,
            'quick_cmd': './check %s --tier quick' % pid,
            'thorough_cmd': './check %s --tier thorough' % pid,
            'evidence_file': '/verif/evidence/%s.json' % pid,
            'replay_cmd_template': './check %s --explain {path}' % pid,
            'engine': 'sqstatic',
            'level_claimed': {'category': 'other', 'text': text, 'design_ref': 'DESIGN.md section 2, %s' % pid},
            'level_note': note,
            'technique': tech,
        })
m = {
 'version': 1,
 'setup_cmd': '/venv/bin/python -m compileall -q sqstatic',
 'hooks': {'guard': 'SMARTQUERY_VERIF', 'enable': 'none needed: static analysis reads /repo\'s working tree; no instrumentation commits',
           'baseline_off_cmd': 'cd /repo && /venv/bin/python -m pytest -ra -q -p no:cacheprovider --timeout=900 --continue-on-collection-errors',
           'source_commits': [], 'add_only': True},
 'engines': [{'name': 'sqstatic', 'path': '/verif/sqstatic', 'serves_properties': sorted(CLAIMED),
              'kind_free_text': 'repository-specific static analysis: ast fact base, path-enumerating symbolic evaluator over the '
                                'package\'s functions, own LALR(1) construction cross-checked against PLY\'s generator, action templates, regex-syntax lexer model'}],
 'checks': checks,
 'notes': 'Static analysis only (no SmartQuery program is lexed, parsed or evaluated by any check). See DESIGN.md. '
          'Exit 0 = all obligations discharged or listed in known_findings.json; 1 = VIOLATION; 2 = ANALYSIS-ERROR.',
 'not_applicable': [{'property_id': p['id'], 'reason': NA.get(p['id'], NA_DEFAULT)} for p in props if p['id'] not in CLAIMED],
}
json.dump(m, open(os.path.join(V, 'MANIFEST.json'), 'w'), indent=1)
print('claimed', sorted(CLAIMED), 'n/a', [x['property_id'] for x in m['not_applicable']])
