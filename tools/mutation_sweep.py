#!/venv/bin/python
"""Mechanical mutation sweep: every single-node mutant of the package sources (comparison / boolean / arithmetic operator
replaced, integer constant off by one, condition forced, statement dropped, wrapping call removed, arguments swapped, return
value dropped) is applied to a scratch copy of /repo HEAD; mutants the test suite does not kill are handed to all 20 checks.

This is an *evaluation* of the checkers, not a check: it runs the test suite (to find the mutants the tests cannot settle) and
then the static checks on each surviving mutant.  Results: <out>/survivors.json (per surviving mutant: which checks report it).

usage: tools/mutation_sweep.py [--out DIR] [--jobs N] [--files a.py,b.py] [--limit N] [--grammar]
(--grammar: textual mutants of the precedence table, keyword table, token regexes and production docstrings instead)
"""
import ast, copy, json, os, shutil, subprocess, sys, tempfile
from concurrent.futures import ThreadPoolExecutor

V = os.path.dirname(os.path.dirname(os.path.abspath(__file__)))
PY = '/venv/bin/python'
FILES = ['ast_ops.py', 'functions.py', 'sq_parser.py', 'scoped_dict.py', 'vm_state.py', 'custom_types.py', 'exceptions.py',
         'utils.py', 'lexer.py', 'rules.py']

CMP = {ast.GtE: ast.Gt, ast.Gt: ast.GtE, ast.LtE: ast.Lt, ast.Lt: ast.LtE, ast.Eq: ast.NotEq, ast.NotEq: ast.Eq,
       ast.Is: ast.IsNot, ast.IsNot: ast.Is, ast.In: ast.NotIn, ast.NotIn: ast.In}
BIN = {ast.Add: ast.Sub, ast.Sub: ast.Add, ast.Mult: ast.Div, ast.Div: ast.Mult, ast.Pow: ast.Mult}


def mutants_of(src: str):
    """Yield (description, mutated source)."""
    tree = ast.parse(src)
    nodes = list(ast.walk(tree))
    parents = {}
    for n in nodes:
        for c in ast.iter_child_nodes(n):
            parents[c] = n
    docstrings = set()
    for n in nodes:
        if isinstance(n, (ast.FunctionDef, ast.ClassDef, ast.Module)) and n.body and isinstance(n.body[0], ast.Expr) \
                and isinstance(n.body[0].value, ast.Constant) and isinstance(n.body[0].value.value, str):
            docstrings.add(n.body[0])

    def emit(desc, apply, undo):
        apply()
        try:
            out = ast.unparse(tree)
        finally:
            undo()
        return desc, out

    for n in nodes:
        ln = getattr(n, 'lineno', 0)
        if isinstance(n, ast.Compare):
            for i, op in enumerate(n.ops):
                if type(op) in CMP:
                    old = n.ops[i]
                    new = CMP[type(op)]()
                    yield emit('L%d compare %s -> %s' % (ln, type(old).__name__, type(new).__name__),
                               lambda n=n, i=i, new=new: n.ops.__setitem__(i, new), lambda n=n, i=i, old=old: n.ops.__setitem__(i, old))
        elif isinstance(n, ast.BoolOp):
            old = n.op
            new = ast.Or() if isinstance(old, ast.And) else ast.And()
            yield emit('L%d boolop %s -> %s' % (ln, type(old).__name__, type(new).__name__),
                       lambda n=n, new=new: setattr(n, 'op', new), lambda n=n, old=old: setattr(n, 'op', old))
        elif isinstance(n, ast.UnaryOp) and isinstance(n.op, ast.Not):
            p = parents.get(n)
            for f, v in ast.iter_fields(p) if p is not None else []:
                if v is n:
                    yield emit('L%d drop not' % ln, lambda p=p, f=f, n=n: setattr(p, f, n.operand), lambda p=p, f=f, n=n: setattr(p, f, n))
                elif isinstance(v, list) and n in v:
                    i = v.index(n)
                    yield emit('L%d drop not' % ln, lambda v=v, i=i, n=n: v.__setitem__(i, n.operand), lambda v=v, i=i, n=n: v.__setitem__(i, n))
        elif isinstance(n, ast.BinOp) and type(n.op) in BIN:
            old = n.op
            new = BIN[type(old)]()
            yield emit('L%d binop %s -> %s' % (ln, type(old).__name__, type(new).__name__),
                       lambda n=n, new=new: setattr(n, 'op', new), lambda n=n, old=old: setattr(n, 'op', old))
        elif isinstance(n, ast.AugAssign) and type(n.op) in BIN:
            old = n.op
            new = BIN[type(old)]()
            yield emit('L%d augassign %s -> %s' % (ln, type(old).__name__, type(new).__name__),
                       lambda n=n, new=new: setattr(n, 'op', new), lambda n=n, old=old: setattr(n, 'op', old))
        elif isinstance(n, ast.Constant) and isinstance(n.value, bool):
            old = n.value
            yield emit('L%d const %r -> %r' % (ln, old, not old), lambda n=n, old=old: setattr(n, 'value', not old), lambda n=n, old=old: setattr(n, 'value', old))
        elif isinstance(n, ast.Constant) and isinstance(n.value, int) and not isinstance(n.value, bool):
            old = n.value
            for new in (old + 1, old - 1):
                yield emit('L%d const %r -> %r' % (ln, old, new), lambda n=n, new=new: setattr(n, 'value', new), lambda n=n, old=old: setattr(n, 'value', old))
        elif isinstance(n, (ast.If, ast.IfExp, ast.While)):
            old = n.test
            for val in (True, False):
                new = ast.copy_location(ast.Constant(value=val), old)
                yield emit('L%d condition -> %r' % (ln, val), lambda n=n, new=new: setattr(n, 'test', new), lambda n=n, old=old: setattr(n, 'test', old))
        elif isinstance(n, ast.Return) and n.value is not None and not (isinstance(n.value, ast.Constant) and n.value.value is None):
            old = n.value
            yield emit('L%d return -> None' % ln, lambda n=n: setattr(n, 'value', None), lambda n=n, old=old: setattr(n, 'value', old))
        elif isinstance(n, ast.Call) and len(n.args) == 1 and not n.keywords and isinstance(n.func, (ast.Name, ast.Attribute)) \
                and not isinstance(n.args[0], ast.Starred):
            # unwrap f(x) -> x   (deepcopy, Decimal, int, str, list, reversed, ...)
            p = parents.get(n)
            for f, v in ast.iter_fields(p) if p is not None else []:
                if v is n:
                    yield emit('L%d unwrap %s(...)' % (ln, ast.unparse(n.func)), lambda p=p, f=f, n=n: setattr(p, f, n.args[0]), lambda p=p, f=f, n=n: setattr(p, f, n))
                elif isinstance(v, list) and n in v and not isinstance(p, ast.Expr):
                    i = v.index(n)
                    yield emit('L%d unwrap %s(...)' % (ln, ast.unparse(n.func)), lambda v=v, i=i, n=n: v.__setitem__(i, n.args[0]), lambda v=v, i=i, n=n: v.__setitem__(i, n))
        elif isinstance(n, ast.Call) and len(n.args) == 2 and not n.keywords and not any(isinstance(a, ast.Starred) for a in n.args):
            yield emit('L%d swap arguments of %s' % (ln, ast.unparse(n.func)), lambda n=n: n.args.reverse(), lambda n=n: n.args.reverse())
        if isinstance(n, (ast.Expr, ast.Assign, ast.AugAssign, ast.Raise, ast.Delete)) and n not in docstrings:
            p = parents.get(n)
            for f, v in ast.iter_fields(p) if p is not None else []:
                if isinstance(v, list) and n in v:
                    if isinstance(n, ast.Assign) and isinstance(p, (ast.Module, ast.ClassDef)):
                        continue            # module / class level bindings: import-time failures, killed by anything
                    i = v.index(n)
                    new = ast.copy_location(ast.Pass(), n)
                    yield emit('L%d drop `%s`' % (ln, ast.unparse(n)[:60]), lambda v=v, i=i, new=new: v.__setitem__(i, new), lambda v=v, i=i, n=n: v.__setitem__(i, n))


def grammar_mutants(rel: str, src: str):
    """Textual mutants of what the AST mutators do not reach: the precedence table and the keyword tables of lexer.py, token regexes
    (string rules and docstrings of token functions), and the production docstrings of rules.py."""
    import re
    lines = src.split('\n')
    if rel == 'lexer.py':
        # precedence rows: associativity flipped, adjacent rows swapped, one token dropped
        rows = [i for i, l in enumerate(lines) if re.match(r"\s*\('(left|right|nonassoc)',", l)]
        for i in rows:
            for a, b in (("'left'", "'right'"), ("'right'", "'left'")):
                if a in lines[i]:
                    yield 'L%d precedence %s -> %s' % (i + 1, a, b), '\n'.join(lines[:i] + [lines[i].replace(a, b, 1)] + lines[i + 1:])
            toks = re.findall(r"'([A-Z_]+)'", lines[i])
            for t in toks:
                new = re.sub(r",\s*'%s'" % t, '', lines[i], count=1)
                if new != lines[i]:
                    yield 'L%d precedence row loses %s' % (i + 1, t), '\n'.join(lines[:i] + [new] + lines[i + 1:])
        for i, j in zip(rows, rows[1:]):
            if j == i + 1:
                sw = list(lines)
                sw[i], sw[j] = sw[j], sw[i]
                yield 'L%d precedence rows %d/%d swapped' % (i + 1, i + 1, j + 1), '\n'.join(sw)
        # string token rules: t_X = r'...'
        for i, l in enumerate(lines):
            m = re.match(r"(t_[A-Z_]+\s*=\s*r?)(['\"])(.*)\2\s*$", l)
            if m and m.group(3):
                rx = m.group(3)
                for desc, new in (('regex loses its last character', rx[:-1]), ('regex made optional', '(' + rx + ')?') if False else ('regex doubled', rx + rx)):
                    if new:
                        yield 'L%d %s %s' % (i + 1, m.group(1).split('=')[0].strip(), desc), '\n'.join(lines[:i] + [m.group(1) + m.group(2) + new + m.group(2)] + lines[i + 1:])
        # keyword table entries dropped
        for i, l in enumerate(lines):
            if re.match(r"\s*'[A-Za-z]+':\s*'[A-Z]+',\s*$", l):
                yield 'L%d keyword entry dropped: %s' % (i + 1, l.strip()), '\n'.join(lines[:i] + lines[i + 1:])
    if rel == 'rules.py':
        # production docstrings: an alternative dropped, two adjacent symbols swapped
        for i, l in enumerate(lines):
            m = re.match(r'(\s*)\|\s*(.+?)\s*("""\s*)?$', l)
            if m and not l.strip().startswith('#'):
                syms = m.group(2).split()
                if all(re.match(r"[A-Za-z_%]+$", x) for x in syms) and syms:
                    tail = m.group(3) or ''
                    yield 'L%d alternative dropped: %s' % (i + 1, m.group(2)), '\n'.join(lines[:i] + ([m.group(1) + tail] if tail else []) + lines[i + 1:])
                    for k in range(len(syms) - 1):
                        if syms[k] != syms[k + 1] and '%prec' not in syms[k:k + 2]:
                            sw = syms[:k] + [syms[k + 1], syms[k]] + syms[k + 2:]
                            yield 'L%d symbols %d/%d swapped in `%s`' % (i + 1, k + 1, k + 2, m.group(2)), \
                                '\n'.join(lines[:i] + [m.group(1) + '| ' + ' '.join(sw) + (' ' + tail if tail else '')] + lines[i + 1:])


def run(cmd, cwd=None, timeout=300):
    try:
        r = subprocess.run(cmd, shell=True, cwd=cwd, capture_output=True, text=True, timeout=timeout)
        return r.returncode, r.stdout + r.stderr
    except subprocess.TimeoutExpired:
        return 124, 'timeout'


def evaluate(job):
    idx, rel, desc, text, base, outdir = job
    d = tempfile.mkdtemp(prefix='sq-mut-')
    try:
        run('cp -r %s/. %s/' % (base, d))
        with open(os.path.join(d, 'smartquery', rel), 'w') as f:
            f.write(text)
        rc, out = run('PYTHONPATH=%s %s -m pytest -q -x -p no:cacheprovider tests 2>&1 | tail -3' % (d, PY), cwd=d, timeout=120)
        last = out.strip().splitlines()[-1] if out.strip() else ''
        if ' passed' not in last or 'failed' in last or 'error' in last:
            return {'id': idx, 'file': rel, 'mutation': desc, 'killed_by_tests': True}
        res = {'id': idx, 'file': rel, 'mutation': desc, 'killed_by_tests': False, 'caught_by': [], 'analysis_errors': [], 'reports': {}}
        ev = os.path.join(d, '_ev')
        for i in range(1, 21):
            pid = 'C%02d' % i
            rc, out = run('%s -m sqstatic.run %s --repo %s --evidence-dir %s' % (PY, pid, d, ev), cwd=V, timeout=300)
            if rc == 1:
                res['caught_by'].append(pid)
                res['reports'][pid] = [l.strip()[:240] for l in out.splitlines() if ' :: ' in l and l.startswith('  C')][:2]
            elif rc != 0:
                res['analysis_errors'].append(pid)
        return res
    finally:
        shutil.rmtree(d, ignore_errors=True)


def main():
    out = sys.argv[sys.argv.index('--out') + 1] if '--out' in sys.argv else tempfile.mkdtemp(prefix='sq-sweep-')
    jobs = int(sys.argv[sys.argv.index('--jobs') + 1]) if '--jobs' in sys.argv else 14
    files = sys.argv[sys.argv.index('--files') + 1].split(',') if '--files' in sys.argv else FILES
    limit = int(sys.argv[sys.argv.index('--limit') + 1]) if '--limit' in sys.argv else None
    os.makedirs(out, exist_ok=True)
    base = tempfile.mkdtemp(prefix='sq-base-')
    run('git -C /repo archive HEAD | tar -x -C %s' % base)
    todo = []
    for rel in files:
        src = open(os.path.join(base, 'smartquery', rel)).read()
        seen = set()
        if '--grammar' in sys.argv:
            gen = grammar_mutants(rel, src)
        else:
            gen = mutants_of(src)
        for desc, text in gen:
            if text in seen or text == ast.unparse(ast.parse(src)) or text == src:
                continue
            try:
                compile(text, rel, 'exec')
            except SyntaxError:
                continue
            seen.add(text)
            todo.append([len(todo), rel, desc, text, base, out])
    if limit:
        todo = todo[:limit]
    print('%d mutants' % len(todo), flush=True)
    with ThreadPoolExecutor(jobs) as ex:
        results = list(ex.map(evaluate, todo))
    shutil.rmtree(base, ignore_errors=True)
    surv = [r for r in results if not r['killed_by_tests']]
    json.dump(surv, open(os.path.join(out, 'survivors.json'), 'w'), indent=1)
    texts = {j[0]: j[3] for j in todo}
    for r in surv:
        if not r['caught_by'] and not r['analysis_errors']:
            with open(os.path.join(out, 'uncaught_%d.py' % r['id']), 'w') as f:
                f.write('# %s :: %s\n' % (r['file'], r['mutation']) + texts[r['id']])
    caught = [r for r in surv if r['caught_by']]
    ae = [r for r in surv if not r['caught_by'] and r['analysis_errors']]
    print('%d mutants, %d killed by the tests, %d survive; of those %d reported by a check, %d only ANALYSIS-ERROR, %d silent'
          % (len(results), len(results) - len(surv), len(surv), len(caught), len(ae), len(surv) - len(caught) - len(ae)))
    for r in surv:
        if not r['caught_by'] and not r['analysis_errors']:
            print('  silent: %s %s' % (r['file'], r['mutation']))
    print('results in', out)


if __name__ == '__main__':
    main()
