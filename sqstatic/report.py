"""Obligation bookkeeping, known findings, evidence and exit codes."""
from __future__ import annotations

import json
import os
import time
from dataclasses import dataclass, field
from typing import Any, Dict, List, Optional

from .facts import AnalysisError, Facts

VERIF = os.path.dirname(os.path.dirname(os.path.abspath(__file__)))


@dataclass
class Obligation:
    rule: str            # C01.R1
    construct: str       # stable key of the construct (qualified name / normalised text), no line numbers
    where: str           # file:line for the reader
    verdict: str         # discharged | violated | unrecognised
    detail: str = ''
    extra: Dict[str, Any] = field(default_factory=dict)

    @property
    def key(self) -> str:
        return '%s :: %s' % (self.rule, self.construct)

    def as_dict(self) -> Dict[str, Any]:
        d = {'rule': self.rule, 'construct': self.construct, 'where': self.where, 'verdict': self.verdict}
        if self.detail:
            d['detail'] = self.detail
        if self.extra:
            d.update(self.extra)
        return d


class Check:
    """Collects the obligations of one property run."""

    def __init__(self, prop: str, facts: Facts, tier: str = 'quick'):
        self.prop = prop
        self.facts = facts
        self.tier = tier
        self.obs: List[Obligation] = []
        self.rules: Dict[str, str] = {}        # rule id -> statement
        self.floors: Dict[str, int] = {}       # rule id -> minimum number of obligations
        self.decided: List[str] = []
        self.not_decided: List[str] = []
        self.assumptions: List[str] = []
        self.trusted: List[str] = []
        self.notes: List[str] = []
        self.t0 = time.time()
        self.extra: Dict[str, Any] = {}

    # ------------------------------------------------------------- recording
    def rule(self, rid: str, text: str, floor: int = 1) -> str:
        self.rules[rid] = text
        self.floors[rid] = floor
        return rid

    def ok(self, rule: str, construct: str, where: str = '', detail: str = '', **extra) -> None:
        self.obs.append(Obligation(rule, construct, where, 'discharged', detail, extra))

    def bad(self, rule: str, construct: str, where: str = '', detail: str = '', **extra) -> None:
        self.obs.append(Obligation(rule, construct, where, 'violated', detail, extra))

    def unrec(self, rule: str, construct: str, where: str = '', detail: str = '', **extra) -> None:
        self.obs.append(Obligation(rule, construct, where, 'unrecognised', detail, extra))

    def require(self, cond: bool, rule: str, construct: str, where: str = '', detail: str = '', **extra) -> bool:
        (self.ok if cond else self.bad)(rule, construct, where, detail, **extra)
        return cond

    def count(self, rule: str) -> int:
        return sum(1 for o in self.obs if o.rule == rule)


def load_known() -> Dict[str, Any]:
    p = os.path.join(VERIF, 'known_findings.json')
    if not os.path.exists(p):
        return {'open': [], 'fixed': []}
    with open(p) as f:
        return json.load(f)


def finish(chk: Check, seed: int = 0, evidence_dir: Optional[str] = None, quiet: bool = False) -> int:
    """Print the verdict lines, write evidence and replay files, return exit code."""
    evidence_dir = evidence_dir or os.path.join(VERIF, 'evidence')
    os.makedirs(evidence_dir, exist_ok=True)
    replay_dir = os.path.join(evidence_dir, 'replay')
    os.makedirs(replay_dir, exist_ok=True)
    # stale replay files of this property
    for fn in os.listdir(replay_dir):
        if fn.startswith(chk.prop + '-'):
            try:
                os.unlink(os.path.join(replay_dir, fn))
            except OSError:
                pass
    known = load_known()
    open_keys = {(k['property'], k['key']): k for k in known.get('open', [])}
    open_sites = {(k['property'], k['site']): k for k in known.get('open', []) if k.get('site')}

    problems: List[str] = []
    for rid, floor in chk.floors.items():
        n = chk.count(rid)
        if n < floor:
            problems.append('rule %s matched %d construct(s), fewer than the %d confirmed by hand '
                            '(anchor vanished or idiom not recognised)' % (rid, n, floor))
    unrec = [o for o in chk.obs if o.verdict == 'unrecognised']
    for o in unrec:
        problems.append('%s: unrecognised idiom at %s (%s): %s' % (o.rule, o.where, o.construct, o.detail))

    violated = [o for o in chk.obs if o.verdict == 'violated']
    # de-duplicate by key (one report per construct)
    seen = {}
    for o in violated:
        seen.setdefault(o.key, o)
    violated = list(seen.values())
    def known_entry(o):
        # an open finding is identified by its key, or - when the code around it was restructured - by its site: the entry point
        # it is reached from and the kind of operation that fails there (what the demonstrating input exercises)
        return open_keys.get((chk.prop, o.key)) or (open_sites.get((chk.prop, o.extra.get('site'))) if o.extra.get('site') else None)
    known_hits = [o for o in violated if known_entry(o) is not None]
    fresh = [o for o in violated if known_entry(o) is None]

    lines: List[str] = []
    for o in known_hits:
        k = known_entry(o)
        lines.append('KNOWN-FINDING: property=%s %s [%s] %s' % (chk.prop, o.key, k.get('id', '?'), k.get('what', o.detail)))
    replay_paths = []
    if True:
        for i, o in enumerate(fresh):
            rp = os.path.join(replay_dir, '%s-%d.json' % (chk.prop, i + 1))
            with open(rp, 'w') as f:
                json.dump({'property': chk.prop, 'rule': o.rule, 'rule_text': chk.rules.get(o.rule, ''),
                           'construct': o.construct, 'where': o.where, 'detail': o.detail, 'key': o.key,
                           'extra': o.extra, 'repo': chk.facts.repo}, f, indent=1, default=str)
            replay_paths.append(rp)
            lines.append('VIOLATION property=%s replay=%s' % (chk.prop, rp))
            lines.append('  %s at %s: %s' % (o.key, o.where, o.detail))

    n_ob = len(chk.obs)
    n_dis = sum(1 for o in chk.obs if o.verdict == 'discharged')
    distinct = len({o.key for o in chk.obs})
    by_rule: Dict[str, Dict[str, int]] = {}
    for o in chk.obs:
        r = by_rule.setdefault(o.rule, {'obligations': 0, 'discharged': 0, 'violated': 0, 'unrecognised': 0})
        r['obligations'] += 1
        r[o.verdict] += 1
    samples = []
    per_rule_seen: Dict[str, int] = {}
    for o in chk.obs:
        c = per_rule_seen.get(o.rule, 0)
        if c < 6 or o.verdict != 'discharged':
            samples.append(o.as_dict())
        per_rule_seen[o.rule] = c + 1
    explanation = (
        'Static analysis of the working tree at %s (sha256 of consulted sources %s). '
        'Decided clauses: %s. Not decided: %s.' % (
            chk.facts.repo, chk.facts.digest()[:16],
            '; '.join(chk.decided) or '-', '; '.join(chk.not_decided) or 'nothing of substance'))
    ev = {
        'property_id': chk.prop,
        'tier': chk.tier,
        'seed': seed,
        'level': 'other',
        'coverage': {
            'explanation': explanation,
            'evaluations': n_ob,
            'distinct_nontrivial': distinct,
            'rule': 'one obligation per (rule, construct) instance found in the source; distinct = distinct '
                    '(rule, construct) keys; every obligation names a real construct of the analysed tree, '
                    'positive self-test examples are not counted',
            'obligations': n_ob,
            'discharged': n_dis,
            'unrecognised': len(unrec),
            'exhaustive': True,
            'rules': {rid: {'text': txt, 'floor': chk.floors.get(rid, 0), **by_rule.get(rid, {})}
                      for rid, txt in chk.rules.items()},
            'samples': samples,
            'files_digest': chk.facts.digest(),
            'trusted_base': chk.trusted,
            'notes': chk.notes,
            **chk.extra,
        },
        'assumptions': chk.assumptions + ['stock configuration followed for %s' % x for x in sorted(chk.facts.__dict__.get('_ctor_options_assumed', ()))],
        'wall_s': round(time.time() - chk.t0, 3),
        'violations': len(fresh),
        'known_findings': [o.key for o in known_hits],
        'analysis_errors': problems,
    }
    with open(os.path.join(evidence_dir, chk.prop + '.json'), 'w') as f:
        json.dump(ev, f, indent=1, default=str)

    if not quiet:
        print('%s: %d obligations, %d discharged, %d known finding(s), %d new violation(s), %d analysis problem(s)  [%s tier, %.2fs]'
              % (chk.prop, n_ob, n_dis, len(known_hits), len(fresh), len(problems), chk.tier, time.time() - chk.t0))
        for rid, txt in chk.rules.items():
            r = by_rule.get(rid, {})
            print('  %-8s %3d/%-3d %s' % (rid, r.get('discharged', 0), r.get('obligations', 0), txt[:110]))
    for p in problems:
        print('ANALYSIS-ERROR property=%s %s' % (chk.prop, p))
    for l in lines:
        print(l)
    if fresh:
        return 1          # positive evidence of a violation outranks an incomplete analysis
    return 2 if problems else 0
