"""C01 -- the op budget is enforced exactly, on every evaluation path."""
from __future__ import annotations

import ast
from typing import List

from ..facts import AnalysisError, norm
from ..report import Check
from ..symexec import SymExec, freeze, show, Closure, closure_paths, is_const
from .. import opmodel as om
from . import common


def check(chk: Check) -> None:
    F = chk.facts
    R1 = chk.rule('C01.R1', 'charge-first: on every path of every eval override the first effect is exactly one '
                            '+1 increment of the given state\'s op counter, outside any loop', floor=8)
    R2 = chk.rule('C01.R2', 'every node kind the grammar can build, every default-factory node and every class with '
                            'an eval method belongs to the Op hierarchy', floor=10)
    R3 = chk.rule('C01.R3', 'exact threshold: the increment is followed by one comparison equivalent to '
                            'ops - max >= 0 whose true branch raises the ops-limit ParserError and does nothing else',
                  floor=8)
    R4 = chk.rule('C01.R4', 'SqParser.eval builds a fresh VMState per call whose budget is the unmodified '
                            'max_ops_evaluated parameter and passes that same state to every tree evaluation',
                  floor=2)
    R5 = chk.rule('C01.R5', 'nobody else touches the counters: one store to ops_evaluated (the increment), no store '
                            'to max_ops_evaluated, its only loads are the comparison and the message', floor=2)
    R6 = chk.rule('C01.R6', 'lambda bodies are charged: a closure created by an eval method evaluates its body '
                            'through <Op field>.eval(state) on every invocation', floor=1)
    R7 = chk.rule('C01.R7', 'the VM state does not outlive its eval call: it is not captured by an escaping '
                            'closure nor stored anywhere', floor=8)
    R8 = chk.rule('C01.R8', 'the ops-limit error is never swallowed: no handler in code that runs during an evaluation catches '
                            'the ops-limit class (ParserError, Exception, bare except ...) and then continues or raises '
                            'something else', floor=2)
    chk.decided += ['who charges, when, by how much, with which comparison, against which number (R1,R3,R5)',
                    'propagation of the ops-limit error through every handler on the evaluation paths (R8)',
                    'budget forwarded unmodified into a fresh state (R4)', 'lambda bodies charged (R6)',
                    'cross-call clause: state escape (R7)', 'every node kind is chargeable (R2)']
    chk.not_decided += ['"effects of an aborted run are a prefix of the unbounded run" beyond R1+R5: needs '
                        'deterministic host callbacks (run-time assumption)']
    chk.assumptions += ['host callbacks are deterministic', 'CPython evaluates statements in program order']

    rootq = om.ROOT + '.eval'
    charge_rules(chk, R1, R3)

    # ------------------------------------------------------------------- R2
    common.every_node_is_an_op(chk, R2)

    # ------------------------------------------------------------------- R4
    _r4(chk, R4)
    # ------------------------------------------------------------------- R5
    _r5(chk, R5, rootq)
    # --------------------------------------------------------------- R6 / R7
    common.lambda_bodies_charged(chk, R6)
    _state_handed_down(chk, R4)
    _callbacks_run_inside_the_call(chk, R6)
    common.state_does_not_escape(chk, R7)
    _r8(chk, R8)


def _state_handed_down(chk: Check, R4: str) -> None:
    """Every evaluation of a child node receives the very state object the parent was given (one counter per eval call)."""
    F = chk.facts
    for cls in om.op_classes(F):
        if not om.own_eval(F, cls):
            continue
        q = cls + '.eval'
        selft = ('param', om.self_param(F, q))
        stt = ('param', om.state_param(F, q))
        n = 0
        odd = {}
        for p in om.eval_paths(F, cls):
            for e in p.events:
                if om.is_child_eval(e, selft, stt) and len(e.args) == 1:
                    n += 1
                    if freeze(e.args[0]) != stt:
                        odd['`%s`' % e.text()] = show(e.args[0])
        if n:
            chk.require(not odd, R4, '%s hands its state down' % q, F.func(q).where,
                        '; '.join('%s evaluates a child with %s, not with the state the node was given' % kv for kv in sorted(odd.items()))
                        or '%d child evaluation(s) receive the state parameter itself' % n)


def _callbacks_run_inside_the_call(chk: Check, R6: str) -> None:
    """A builtin that is handed a callable (a lambda of the program) runs it before it returns: what it returns is not a lazy
    iterator (map / filter / zip / generator / itertools.*) that would call the lambda after eval has returned - outside the budget."""
    F = chk.facts
    from .c02 import Kinds
    from .. import functab
    tab = functab.table(F)
    n = 0
    for key in sorted(tab):
        ent = tab[key]
        if ent.kind != 'fn':
            continue
        fi = ent.funcinfo(F)
        if fi is None or not isinstance(fi.node, ast.FunctionDef):
            continue
        params = {a.arg for a in fi.node.args.args + fi.node.args.kwonlyargs}
        ks = Kinds(F, params)
        lazy = {}
        for p in SymExec(F, fi).run():
            if not p.normal:
                continue
            try:
                kk = ks.kind(p.outcome[1])
            except Exception:
                continue
            if kk == 'iterator' and any(om.mentions(freeze(p.outcome[1]), ('param', a)) for a in params):
                lazy[show(p.outcome[1])[:90]] = kk
        n += 1
        if lazy:
            chk.bad(R6, 'FUNCTIONS[%r] runs its callbacks before it returns' % key, fi.where,
                    'returns the lazy iterator `%s`: the work (and every call of a lambda handed in) happens when the host consumes '
                    'it, after eval returned and outside the op budget' % sorted(lazy)[0])
    chk.ok(R6, 'builtins return finished values', F.modules[functab.FUNCS_MOD].rel, '%d table functions examined for lazy results' % n)


def _r8(chk: Check, R8: str) -> None:
    """Every except clause reachable during an evaluation that can catch the ops-limit error must re-raise it."""
    F = chk.facts
    from .c02 import entry_units
    from ..symexec import closure_paths
    limit = [q for q in F.subclasses(om.PARSER_ERROR) if q != om.PARSER_ERROR]
    if not limit:
        raise AnalysisError('anchor vanished: no ops-limit subclass of ParserError')
    lim = limit[0]
    seen = {}
    for key, e, p, fi, se in common.handlers_catching(chk, lim):
        h = e.d['handler']
        rc = common.raised_class(F, p.outcome[1]) if p.outcome[0] == 'raise' else None
        reraises = p.outcome[0] == 'raise' and (freeze(p.outcome[1])[:1] == ('exc',) or freeze(p.outcome[1]) == ('unknown', 'reraise')
                                                or (rc is not None and rc == ('cls', lim)))
        prev = seen.get(key, (True, '', 0, ''))
        if not reraises:
            what = 'continues normally' if p.outcome[0] != 'raise' else 'raises %s instead' % show(p.outcome[1])
            seen[key] = (False, 'this handler also catches the ops-limit error (a %s) and %s: a run that exceeds its '
                                'budget inside the guarded code is not stopped' % (lim.rsplit('.', 1)[-1], what), h.lineno, fi.module.rel)
        elif prev[0]:
            seen[key] = (True, 're-raises', h.lineno, fi.module.rel)
    for q_, wh_, ret_ in common.suppressing_exits(F):
        chk.bad(R8, q_ + ' returns ' + ret_, wh_, '__exit__ returns %s: when that is truthy the ops-limit error leaving the with-block is dropped' % ret_)
    for key, (ok, det, line, rel) in sorted(seen.items()):
        chk.require(ok, R8, key, '%s:%d' % (rel, line), det)
    # handlers that cannot catch it are the normal case: record them so the rule is not vacuous
    n = 0
    done_nodes = set()
    units = [fi for _l, fi, _ in entry_units(chk)]
    # ... and the handlers of helpers the units go through (error-conversion context managers in a module of their own)
    units += [fi for q, fi in sorted(F.functions.items()) if '.ply' not in fi.module.name and isinstance(fi.node, ast.FunctionDef)]
    for fi in units:
        if fi.module.name.endswith(('.lexer', '.rules')):
            continue
        for node in ast.walk(fi.node):
            if isinstance(node, ast.ExceptHandler):
                if id(node) in done_nodes:
                    continue
                done_nodes.add(id(node))
                n += 1
                ts = [F.resolve_expr(fi.module, t) for t in (node.type.elts if isinstance(node.type, ast.Tuple) else [node.type])] if node.type is not None else [('builtin', 'BaseException')]
                k = '%s :: except %s (line %d)' % (fi.qual, '/'.join(str(q) for _, q in ts), node.lineno)
                if not any(k2.endswith('(line %d)' % node.lineno) and fi.qual.rsplit('.', 1)[-1] in k2 for k2 in seen):
                    chk.ok(R8, k, '%s:%d' % (fi.module.rel, node.lineno), 'cannot catch the ops-limit error')


def charge_rules(chk: Check, R1: str, R3: str) -> None:
    """Charge-first (R1) and exact threshold (R3) for every node kind."""
    F = chk.facts
    _FACTS[0] = F
    classes = om.op_classes(F)
    rootq = om.ROOT + '.eval'
    limit_classes = [q for q in F.subclasses(om.PARSER_ERROR) if q != om.PARSER_ERROR]

    # ---------------------------------------------------------------- R1, R3
    for cls in classes:
        q = om.eval_method(F, cls)
        fi = F.func(q)
        where = fi.where
        if not om.own_eval(F, cls) and cls != om.ROOT:
            chk.ok(R3, '%s inherits %s' % (cls, q), F.cls(cls).module.rel + ':%d' % F.cls(cls).node.lineno,
                   'no override: evaluation of this node kind is the inherited charge-and-compare')
            continue
        st = ('param', om.state_param(F, q))
        paths = om.eval_paths(F, cls)
        complaints_r1: List[str] = []
        complaints_r3: List[str] = []
        for p in paths:
            eff = om.effect_events(p)
            incs = [(i, e, om.is_increment(e, st)) for i, e in enumerate(eff) if om.is_increment(e, st) is not None]
            if not incs:
                complaints_r1.append('path %s reaches %s without charging an operation' % (
                    _pathdesc(p), p.outcome[0]))
                continue
            i0, e0, verdict = incs[0]
            if verdict != 'ok':
                complaints_r1.append(verdict)
            if i0 != 0:
                complaints_r1.append('`%s` (line %d) happens before the charge' % (eff[0].text(), eff[0].line))
            if len(incs) > 1:
                complaints_r1.append('the counter is incremented %d times on one path' % len(incs))
            if e0.in_ctx('loop') or e0.in_ctx('comp') or e0.in_ctx('handler') or e0.in_ctx('finally'):
                complaints_r1.append('the charge sits inside a loop/handler')
            # R3: the assumption that follows the increment
            pos = p.events.index(e0)
            nxt = [e for e in p.events[pos + 1:] if not (e.kind == 'call' and e.d.get('inlined')) and e.kind not in ('return', 'binop')]
            if not nxt or nxt[0].kind != 'assume':
                complaints_r3.append('no budget comparison directly after the increment on path %s' % _pathdesc(p))
                continue
            a = nxt[0]
            form = om.threshold_form(a.cond, a.value, st)
            raised_here = len(nxt) >= 2 and _is_limit_raise(F, nxt[1:3], p, limit_classes) and a.value is not None
            if form is None:
                complaints_r3.append('comparison `%s` is not a test of ops_evaluated against max_ops_evaluated' % show(a.cond))
                continue
            # which side raises?
            after = [e for e in nxt[1:] if e.kind != 'assume']
            after = [e for e in after if e.kind not in ('return', 'log')]
            raises_now = p.outcome[0] == 'raise' and all(e.kind in ('call', 'raise') for e in after) and \
                any(e.kind == 'raise' for e in after) and \
                all(e.kind == 'raise' or e.d.get('ctor') or _builds_message(e) for e in after)
            if raises_now:
                if form != '0':
                    complaints_r3.append('raises when ops - max >= %s; the budget N is exceeded at the N-th operation '
                                         'only if the threshold is 0 (comparison `%s` taken %s)' % (form, show(a.cond), a.value))
                exc_cls = _raised_class(p)
                if exc_cls is None or exc_cls not in limit_classes:
                    complaints_r3.append('the over-budget branch raises %s, not the ops-limit subclass of ParserError' % (
                        exc_cls or show(p.outcome[1])))
                extra = [e for e in after if e.kind == 'call' and not e.d.get('ctor') and not _builds_message(e)]
                if extra:
                    complaints_r3.append('the over-budget branch does more than raise: `%s`' % extra[0].text())
            else:
                # complementary side: must be the negation of the correct threshold
                neg = om.threshold_form(a.cond, not a.value, st)
                if neg != '0':
                    complaints_r3.append('continues when not(ops - max >= %s): threshold is not exact (comparison `%s`)' % (neg, show(a.cond)))
        key = cls
        if complaints_r1:
            chk.bad(R1, key + '.eval', where, '; '.join(sorted(set(complaints_r1))))
        elif cls != om.ROOT:
            chk.ok(R1, key + '.eval', where, '%d path(s): first effect is the +1 charge of `%s`' % (len(paths), st[1]))
        if complaints_r3:
            chk.bad(R3, key + '.eval', where, '; '.join(sorted(set(complaints_r3))))
        else:
            chk.ok(R3, key + '.eval', where, 'increment then `ops - max >= 0` -> raise ops-limit error, on %d path(s)' % len(paths))

    # the charge function itself: nothing else has an effect
    rp = om.eval_paths(F, om.ROOT)
    st = ('param', om.state_param(F, rootq))
    other = []
    for p in rp:
        for e in om.effect_events(p):
            if om.is_increment(e, st) == 'ok' or e.kind == 'raise' or (e.kind == 'call' and e.d.get('ctor')) or _builds_message(e):
                continue
            other.append('`%s`' % e.text())
    if not any(p.normal for p in rp):
        other.append('no path returns normally')
    chk.require(not other, R3, om.ROOT + '.eval has no other effect', F.func(rootq).where,
                'extra effects: %s' % ', '.join(sorted(set(other))) if other else 'straight-line charge-and-compare')


def _pathdesc(p) -> str:
    a = [('%s is %s' % (show(c), v)) for c, v, _ in p.assumptions]
    return '[' + ', '.join(a[:4]) + (']' if len(a) <= 4 else ', ...]')


def _raised_class(p):
    t = p.outcome[1]
    if isinstance(t, tuple) and t and t[0] == 'new':
        return t[1]
    return None


_FACTS = [None]


def _builds_message(e) -> bool:
    """A call that only builds the text of an error message: str()/repr()/format() or a str method on a constant template."""
    if e.kind != 'call':
        return False
    f = freeze(e.func)
    if isinstance(f, tuple) and f[:2] == ('ref', 'builtin') and f[2] in ('str', 'repr', 'format'):
        return True
    if isinstance(f, tuple) and f and f[0] == 'attr' and f[2] in ('format', 'join', 'format_map') and is_const(f[1]) and isinstance(f[1][1], str):
        return True
    # a line for the host's diagnostic channel (logger.debug(...) on a module-level logging.Logger) changes nothing the program or
    # the caller of eval can see; type(x) for such a message likewise
    if isinstance(f, tuple) and f[:1] == ('attr',) and isinstance(f[1], tuple) and f[1][:2] == ('ref', 'modvar') and f[2] in (
            'debug', 'info', 'isEnabledFor') and common.is_module_logger(_FACTS[0], f[1][2]):
        return True
    if isinstance(f, tuple) and f[:2] == ('ref', 'builtin') and f[2] in ('type', 'len', 'id'):
        return True
    # a classmethod/helper of the exception class that builds the instance (inlined: its events are classified one by one)
    return bool(e.d.get('inlined'))


def _is_limit_raise(F, evs, p, limit_classes) -> bool:
    return p.outcome[0] == 'raise'


def _r4(chk: Check, R4: str) -> None:
    F = chk.facts
    q = 'smartquery.sq_parser.SqParser.eval'
    fi = F.func(q)
    names = [a.arg for a in fi.node.args.args + fi.node.args.kwonlyargs]
    if 'max_ops_evaluated' not in names:
        chk.bad(R4, q + ' budget parameter', fi.where, 'SqParser.eval has no max_ops_evaluated parameter')
        return
    vm = 'smartquery.vm_state.VMState'
    F.cls(vm)
    paths = SymExec(F, fi).run()
    ctor_problems, use_problems = [], []
    skipped = []
    n_ctor = n_use = 0
    seen_ctor_nodes, seen_use_nodes = set(), set()
    for p in paths:
        states = [e for e in p.events if e.kind == 'call' and e.d.get('ctor') and e.resolved == vm]
        evals = [e for e in p.events if e.kind == 'call' and isinstance(freeze(e.func), tuple)
                 and freeze(e.func)[0] == 'attr' and freeze(e.func)[2] == 'eval'
                 and e.resolved is None]
        if p.normal and not evals and p.outcome[1] != ('const', None):
            # a result handed to the caller that no budgeted evaluation produced on this call (a memo of earlier results,
            # a shortcut for "constant" programs): whether the call is stopped no longer depends on its own N
            skipped.append(show(p.outcome[1]))
        for e in evals:
            seen_use_nodes.add(e.node)
            a = e.args
            if len(a) != 1 or not (isinstance(a[0], tuple) and a[0] and a[0][0] == 'new' and a[0][1] == vm):
                use_problems.append('`%s` is not given a VMState built in this call (got %s)' % (
                    e.text(), ', '.join(show(x) for x in a)))
                continue
            created = [s for s in states if freeze(s.result) == a[0]]
            if not created:
                use_problems.append('`%s`: state was not constructed on this path' % e.text())
        for s in states:
            seen_ctor_nodes.add(s.node)
            t = freeze(s.result)
            f = dict(t[2])
            b = f.get('max_ops_evaluated')
            if b != ('param', 'max_ops_evaluated'):
                ctor_problems.append('budget field receives %s instead of the max_ops_evaluated argument' % (
                    show(b) if b is not None else 'nothing'))
            o = f.get('ops_evaluated')
            if o is not None and o[0] == 'default':
                dflt = [d for n, a_, d, c in F.all_fields(vm) if n == 'ops_evaluated']
                if not dflt or not (isinstance(dflt[0], ast.Constant) and dflt[0].value == 0
                                    and not isinstance(dflt[0].value, bool)):
                    ctor_problems.append('VMState.ops_evaluated does not default to 0')
            elif o != ('const', 0):
                ctor_problems.append('op counter starts at %s' % show(o))
            if s.in_ctx('loop'):
                pass
        if len({freeze(s.result) for s in states}) > 1 and evals:
            args = {e.args for e in evals}
            if len(args) > 1:
                use_problems.append('tree evaluations of one call use different states')
    n_ctor, n_use = len(seen_ctor_nodes), len(seen_use_nodes)
    if n_ctor == 0:
        chk.bad(R4, q + ' VMState construction', fi.where, 'no VMState is constructed inside SqParser.eval')
    for n in seen_ctor_nodes:
        chk.require(not ctor_problems, R4, q + ' :: ' + 'VMState(...)', '%s:%d' % (fi.module.rel, n.lineno),
                    '; '.join(sorted(set(ctor_problems))) or 'fresh state, budget = parameter, counter = 0')
    chk.require(not skipped, R4, q + ' :: every result comes from an evaluation of this call', fi.where,
                ('a path returns %s without evaluating a tree under the budget of this call' % skipped[0]) if skipped else
                'every returning path either evaluates the tree with the state of this call or returns None')
    for n in sorted(seen_use_nodes, key=lambda n: n.lineno):
        mine = [u for u in use_problems if norm(n) in u]
        chk.require(not mine and not [u for u in use_problems if 'different states' in u], R4,
                    q + ' :: ' + norm(n), '%s:%d' % (fi.module.rel, n.lineno),
                    '; '.join(sorted(set(mine or use_problems))) or 'evaluated with the state built in this call')


def _r5(chk: Check, R5: str, rootq: str) -> None:
    F = chk.facts
    # the charge function: the one function that holds the increment (normally Op.eval; a helper it calls first
    # is equally fine -- R1 already proves every eval reaches it first)
    holders = []
    for q, fi in F.functions.items():
        if '.ply' in fi.module.name:
            continue
        for n in ast.walk(fi.node):
            # the increment (an augmented assignment or `x.ops = x.ops + 1`), not the plain store of a constructor
            if isinstance(n, ast.AugAssign) and isinstance(n.target, ast.Attribute) and n.target.attr == 'ops_evaluated':
                holders.append(q)
            elif isinstance(n, ast.Assign) and any(isinstance(t, ast.Attribute) and t.attr == 'ops_evaluated' for t in n.targets) \
                    and any(isinstance(x, ast.Attribute) and x.attr == 'ops_evaluated' and isinstance(x.ctx, ast.Load) for x in ast.walk(fi.node)) \
                    and fi.qual.rsplit('.', 1)[-1] not in ('__init__', '__post_init__', '__new__'):
                # new = x.ops + 1; x.ops = new  (the counter is read and written back in the same function)
                holders.append(q)
    extra_nodes = set()
    holder_ids = set()          # the functions that make up the charge function besides charge_q
    if rootq in holders or not holders:
        charge_q = rootq
    else:
        hname = holders[0].rsplit('.', 1)[-1]
        if rootq in F.functions and any((isinstance(x, ast.Attribute) and x.attr == hname) or (isinstance(x, ast.Name) and x.id == hname)
                                        for x in ast.walk(F.func(rootq).node)):
            # the root eval delegates the increment to a helper (state.charge(), _charge(state)): the charge function is the
            # root eval together with that helper
            charge_q = rootq
            for h in holders:
                extra_nodes.update(ast.walk(F.func(h).node))
                holder_ids.add(id(F.func(h).node))
        else:
            charge_q = holders[0]
    root_fi = F.func(charge_q)
    root_nodes = set(ast.walk(root_fi.node)) | extra_nodes
    # housekeeping of the state class itself: its constructor fills the fields of the object being built, and its value
    # protocol (__repr__/__eq__/... and private helpers only they use) reads them; evaluation code never applies that
    # protocol to a state (R7: the state is handed to child evaluations only)
    vm = 'smartquery.vm_state.VMState'
    init_stores, protocol_loads = set(), set()
    if vm in F.classes:
        vci = F.cls(vm)
        PROTOCOL = {'__repr__', '__str__', '__eq__', '__ne__', '__hash__', '__format__', '__reduce__', '__getstate__', '__copy__', '__deepcopy__'}
        proto = {mn for mn in vci.methods if mn in PROTOCOL}
        changed = True
        while changed:
            changed = False
            for mn, mnode in vci.methods.items():
                if mn in proto or mn.startswith('__'):
                    continue
                users = set()
                for m2 in F.modules.values():
                    if '.ply' in m2.name:
                        continue
                    for q2, fi2 in F.functions.items():
                        if fi2.module is m2 and q2 != vm + '.' + mn and any(
                                isinstance(x, ast.Attribute) and x.attr == mn for x in ast.walk(fi2.node)):
                            users.add(q2)
                if users and all(u.startswith(vm + '.') and u[len(vm) + 1:].split('.')[0] in proto for u in users):
                    proto.add(mn)
                    changed = True
        for mn in proto:
            protocol_loads.update(x for x in ast.walk(vci.methods[mn]) if isinstance(x, ast.Attribute) and isinstance(x.ctx, ast.Load))
        # methods / properties of the state class that only the charge function uses are part of the charge function
        if True:
            charge_name = charge_q[len(vm) + 1:].split('.')[0] if charge_q.startswith(vm + '.') else None
            for mn, mnode in vci.methods.items():
                if mn == charge_name or mn in proto or mn.startswith('__'):
                    continue
                users = set()
                for q2, fi2 in F.functions.items():
                    if '.ply' in fi2.module.name or q2 == vm + '.' + mn:
                        continue
                    if any(isinstance(x, ast.Attribute) and x.attr == mn for x in ast.walk(fi2.node)):
                        users.add(id(fi2.node))         # (a node class that inherits eval is listed under its own name too)
                if users and users <= ({id(root_fi.node)} | holder_ids):
                    root_nodes.update(ast.walk(mnode))
        init = vci.methods.get('__init__')
        if init is not None and init.args.args:
            sp = init.args.args[0].arg
            for x in ast.walk(init):
                if isinstance(x, ast.Attribute) and isinstance(x.ctx, ast.Store) and isinstance(x.value, ast.Name) and x.value.id == sp:
                    init_stores.add(x)
    # statistics kept for the host (objects the package only ever writes into): their fields may share a name with the counters
    stat_targets, stat_values = set(), set()
    for (_cq, _a), tnodes in common.statistics_objects(F).items():
        stat_targets.update(tnodes)
    for m_ in F.modules.values():
        if '.ply' in m_.name:
            continue
        for n_ in ast.walk(m_.tree):
            if isinstance(n_, (ast.Assign, ast.AugAssign)):
                tg_ = n_.targets if isinstance(n_, ast.Assign) else [n_.target]
                if tg_ and all(t_ in stat_targets for t_ in tg_):
                    stat_values.update(ast.walk(n_.value))
    # field names spelled as strings where a class *declares* its fields (__slots__, __match_args__) are declarations
    declared_names = set()
    for ci_ in F.classes.values():
        for st_ in ci_.node.body:
            if isinstance(st_, (ast.Assign, ast.AnnAssign)):
                tg = st_.targets if isinstance(st_, ast.Assign) else [st_.target]
                if any(isinstance(t, ast.Name) and t.id in ('__slots__', '__match_args__') for t in tg) and st_.value is not None:
                    declared_names.update(ast.walk(st_.value))
    for m in F.modules.values():
        if '.ply' in m.name or '.gen' in m.name:
            continue
        for n in ast.walk(m.tree):
            where = '%s:%d' % (m.rel, getattr(n, 'lineno', 0))
            if isinstance(n, ast.Attribute) and n.attr in ('ops_evaluated', 'max_ops_evaluated'):
                store = isinstance(n.ctx, (ast.Store, ast.Del))
                inside = n in root_nodes
                if n in init_stores:
                    chk.ok(R5, 'store %s in %s' % (n.attr, _encl(F, m, n)), where, 'the constructor fills the field of the state being built')
                    continue
                if n in stat_targets:
                    chk.ok(R5, 'store %s in %s' % (n.attr, _encl(F, m, n)), where, 'a field of a statistics object the package only writes into (not the VM state)')
                    continue
                if n in stat_values and not store:
                    chk.ok(R5, 'load %s in %s' % (n.attr, _encl(F, m, n)), where, 'flows into a statistic nobody reads')
                    continue
                if n in common.logger_call_nodes(F) and not store:
                    chk.ok(R5, 'load %s in %s' % (n.attr, _encl(F, m, n)), where, 'argument of a log line (diagnostic channel of the host)')
                    continue
                if n in protocol_loads:
                    chk.ok(R5, 'load %s in %s' % (n.attr, _encl(F, m, n)), where, 'value protocol of the state class (repr/eq), not used by evaluation code')
                    continue
                if n.attr == 'ops_evaluated':
                    if store:
                        chk.require(inside, R5, 'store ops_evaluated in %s' % _encl(F, m, n), where,
                                    'the op counter is written outside the charge function' if not inside else
                                    'the increment of the charge function')
                    else:
                        chk.require(inside, R5, 'load ops_evaluated in %s' % _encl(F, m, n), where,
                                    'the op counter is read outside the charge function (an outcome may now depend on it)'
                                    if not inside else 'comparison operand')
                else:
                    if store:
                        chk.bad(R5, 'store max_ops_evaluated in %s' % _encl(F, m, n), where,
                                'the budget is overwritten after the state was built')
                    else:
                        chk.require(inside, R5, 'load max_ops_evaluated in %s' % _encl(F, m, n), where,
                                    'the budget is read outside the charge function: behaviour can depend on N other '
                                    'than through the threshold (breaks monotonicity in N)' if not inside else
                                    'comparison / message of the charge function')
            if isinstance(n, ast.Constant) and n.value in ('ops_evaluated', 'max_ops_evaluated') and n not in declared_names:
                chk.bad(R5, 'string %r in %s' % (n.value, _encl(F, m, n)), where,
                        'counter accessed reflectively (string constant naming it)')
            if isinstance(n, ast.Call) and isinstance(n.func, ast.Name) and n.func.id in ('setattr', 'delattr', 'vars') \
                    and m.name in ('smartquery.ast_ops', 'smartquery.sq_parser', 'smartquery.vm_state') \
                    and not _always_constant_setattr(F, n):
                chk.bad(R5, '%s(...) in %s' % (n.func.id, _encl(F, m, n)), where,
                        'reflective attribute write next to the VM state: `%s`' % norm(n))
            if isinstance(n, ast.Attribute) and n.attr == '__dict__' \
                    and m.name in ('smartquery.ast_ops', 'smartquery.sq_parser', 'smartquery.vm_state') \
                    and not _pickling_of_other_class(F, m, n, vm):
                chk.bad(R5, '__dict__ access in %s' % _encl(F, m, n), where, 'reflective attribute access: `%s`' % norm(n))


def _pickling_of_other_class(F, m, node, vm: str) -> bool:
    """`self.__dict__` inside __getstate__ / __setstate__ / __reduce__ / __copy__ / __deepcopy__ of a class that is not the VM
    state: the pickling / copying protocol of that class, which never sees a state object."""
    if not (isinstance(node.value, ast.Name)):
        return False
    for cq, ci in F.classes.items():
        if ci.module is not m or cq == vm or (vm in F.classes and F.is_subclass(cq, vm)):
            continue
        for mn in ('__getstate__', '__setstate__', '__reduce__', '__reduce_ex__', '__copy__', '__deepcopy__'):
            fn = ci.methods.get(mn)
            if fn is not None and fn.args.args and fn.args.args[0].arg == node.value.id and any(x is node for x in ast.walk(fn)):
                return True
    return False


def _encl(F, m, node) -> str:
    """Qualified name of the function enclosing a node."""
    best = None
    for q, fi in F.functions.items():
        if fi.module is m and fi.node.lineno <= getattr(node, 'lineno', 0) <= getattr(fi.node, 'end_lineno', 10 ** 9):
            if any(x is node for x in ast.walk(fi.node)):
                if best is None or fi.node.lineno >= F.functions[best].node.lineno:
                    best = q
    return best or m.name


def _always_constant_setattr(F, node) -> bool:
    """A setattr(obj, name, v) call whose name was a known constant every time a path went through it (and some path did):
    the evaluator has turned it into the plain attribute stores it stands for, which the other rules see."""
    rec = F.__dict__.get('_setattr_nodes', {}).get(id(node))
    return bool(rec) and rec[0] is node and rec[1] is True
