"""C18 -- list_names reports every name an evaluation can ask the host for."""
from __future__ import annotations

import ast
from typing import Any, Dict, List, Optional, Set, Tuple

from ..facts import AnalysisError, norm, FuncInfo
from ..report import Check
from ..symexec import SymExec, freeze, show, Path, Event, closure_paths
from .. import opmodel as om
from .. import ctx as C
from .. import actions as A
from .. import functab
from .. import lexmodel as LM
from . import common

PARSER = 'smartquery.sq_parser.SqParser'
IDENT_START_SAMPLE = 'abcdefghijklmnopqrstuvwxyzABCDEFGHIJKLMNOPQRSTUVWXYZ_%жé'


def ident_token(lm) -> str:
    ids = [n for n, rm in lm.rules.items() if rm.type_expr is not None]
    if len(ids) != 1:
        raise AnalysisError('lexer: expected exactly one identifier rule (type looked up in the keyword table), found %r' % ids)
    return ids[0]


def check(chk: Check) -> None:
    F = chk.facts
    R1 = chk.rule('C18.R1', 'list_names drives the parser\'s own lexer until it returns None and yields t.value for '
                            'exactly the tokens whose type is the identifier terminal: no other filter, transformation '
                            'or early exit', floor=3)
    R2 = chk.rule('C18.R2', 'what is a NAME: keywords are re-typed through the keyword table, the value is the matched '
                            'text unchanged, no earlier lexer rule can swallow the start of an identifier, strings and '
                            'comments are matched whole and comments emit nothing', floor=4)
    R3 = chk.rule('C18.R3', 'every looked-up name was a NAME token: in all templates the name fields the evaluator looks '
                            'up hold the text of an identifier token or one of the fixed implicit names', floor=40)
    R4 = chk.rule('C18.R4', 'evaluation looks up only those fields: every access to the scoped names in an eval method or '
                            'lambda closure is keyed by self.<name field> (or binds a lambda parameter\'s .name)', floor=3)
    chk.decided += ['lister: same lexer, exact NAME filter, exhaustive loop (R1)', 'lexer facts about NAME (R2)',
                    'provenance of every looked-up name field in all templates (R3)', 'lookups only through those fields (R4)']
    chk.assumptions += ['reset/feeding of the lexer is C11.R2 (same rule, same evidence)']
    lm = C.lexmodel(F)
    g = C.grammar(F)
    T = C.templates(F)
    IDENT = ident_token(lm)

    # --------------------------------------------------------------------- R1
    q = PARSER + '.list_names'
    fi = F.func(q)
    selft = ('param', om.self_param(F, q))
    lex = common.lexer_term(F, selft)
    paths = SymExec(F, fi).run()
    filt, loop, val = [], [], []
    n_yield = 0
    n_exit = [0]
    for p in paths:
        toks = [e for e in p.events if e.kind == 'call' and freeze(e.func) == ('attr', lex, 'token')]
        other_lexers = [e for e in p.events if e.kind == 'call' and isinstance(freeze(e.func), tuple) and freeze(e.func)[0] == 'attr'
                        and freeze(e.func)[2] == 'token' and freeze(e.func)[1] != lex]
        for e in other_lexers:
            loop.append('tokens are taken from `%s`, not from the lexer the parser uses' % show(freeze(e.func)[1]))
        if not toks:
            if p.normal and not other_lexers:
                loop.append('a path finishes without asking the lexer for a token')
            continue
        # `while (t := lex.token()) is not None:` evaluates its test once before the loop and once per iteration: the
        # request that belongs to the iteration is the one inside the loop
        tk_ev = next((e for e in reversed(toks) if e.in_ctx('loop')), toks[0])
        tk = freeze(tk_ev.result)
        if not tk_ev.in_ctx('loop'):
            if p.normal and any(e.kind == 'yield' for e in p.events):
                loop.append('the token request is not inside a loop')
            elif p.normal and not any(c == ('cmp', 'is', tk, ('const', None)) and v or (c == tk and not v) for c, v, _ in p.assumptions) \
                    and not any(e.kind == 'loop_test' or (e.kind == 'loop_skip' and om.mentions(freeze(e.d.get('cond')), tk)) for e in p.events):
                loop.append('the token request is not inside a loop')
        ttype, tval = ('attr', tk, 'type'), ('attr', tk, 'value')
        assumed = [(c, v) for c, v, _ in p.assumptions]
        # what the PLY lexer hands out is a LexToken or None: `case LexToken(...)` / isinstance(t, LexToken) decides nothing
        # once None is excluded, and a path on which a non-None token is not a LexToken does not exist
        def _is_lextoken_test(c):
            return isinstance(c, tuple) and c[:2] == ('pcall', 'isinstance') and len(c[2]) == 2 and c[2][0] == tk \
                and c[2][1] in (('ref', 'ext', 'smartquery.ply.lex.LexToken'),)
        if any(_is_lextoken_test(c) and not v for c, v in assumed) and not any(
                (c == ('cmp', 'is', tk, ('const', None)) and v) or (c == tk and not v) for c, v in assumed):
            continue
        assumed = [(c, v) for c, v in assumed if not _is_lextoken_test(c)]
        is_none = [v for c, v in assumed if c == ('cmp', 'is', tk, ('const', None))] + \
                  [not v for c, v in assumed if c == tk]
        typed = [(c, v) for c, v in assumed if om.mentions(c, ttype)]
        others = [(c, v) for c, v in assumed if not om.mentions(c, ttype) and c != ('cmp', 'is', tk, ('const', None)) and c != tk]
        ys = [e for e in p.events if e.kind == 'yield']
        ended = any(e.kind == 'return' and e.depth() == 0 for e in p.events)
        if ended:
            if not (is_none and is_none[0]):
                loop.append('the loop is left although the lexer has not returned None (early exit: later names are not reported)')
            else:
                n_exit[0] += 1
        elif is_none and is_none[0] and p.normal:
            n_exit[0] += 1          # `while (t := token()) is not None:` falls off the end of the generator
        if is_none and is_none[0] and not ended and p.normal:
            pass
        for c, v in typed:
            if c != ('cmp', '==', ttype, ('const', IDENT)):
                filt.append('tokens are selected by `%s`, not by type == %r' % (show(c), IDENT))
        want = any(c == ('cmp', '==', ttype, ('const', IDENT)) and v for c, v in typed)
        if want:
            if others:
                filt.append('an identifier token is additionally filtered by `%s`' % show(others[0][0]))
            if len(ys) != 1:
                filt.append('an identifier token is yielded %d times' % len(ys))
        elif ys:
            filt.append('a token is yielded on a path where its type was not found to be %r' % IDENT)
        for y in ys:
            n_yield += 1
            if freeze(y.value) != tval:
                val.append('yields %s instead of the token\'s value' % show(y.value))
    if n_yield == 0:
        filt.append('nothing is ever yielded')
    endless = any(isinstance(n_, ast.While) and isinstance(n_.test, ast.Constant) and n_.test.value is True for n_ in ast.walk(fi.node))
    has_loop_tests = any(e.kind in ('loop_test', 'loop_skip') and not (isinstance(e.node, ast.While) and isinstance(e.node.test, ast.Constant))
                         for p in paths for e in p.events)
    if not n_exit[0] and not loop and endless and not has_loop_tests:
        loop.append('no path ends the generator when the lexer returns None: after the last token the loop goes on with None (t.type raises '
                    'AttributeError at the end of every text)')
    chk.require(not loop, R1, q + ' :: loop', fi.where, '; '.join(sorted(set(loop))) or 'asks self.lex for tokens until None')
    chk.require(not filt, R1, q + ' :: filter', fi.where, '; '.join(sorted(set(filt))) or 'yields exactly the tokens with type == %r' % IDENT)
    chk.require(not val, R1, q + ' :: value', fi.where, '; '.join(sorted(set(val))) or 'yields t.value unchanged')
    # the names listed are the names of the text that is evaluated: eval hands the parser its source argument itself (white
    # space trimmed at the ends at most) - a normalised / rewritten text can spell its names differently from the text that
    # list_names was asked about
    qe = PARSER + '.eval'
    fie = F.func(qe)
    selfe = ('param', om.self_param(F, qe))
    src_e = ('param', [a.arg for a in fie.node.args.args][1])
    text_problems = []
    n_parse = 0
    for p in SymExec(F, fie).run():
        for e in p.events:
            if e.kind != 'call' or e.resolved != PARSER + '.parse' or e.depth():
                continue
            n_parse += 1
            kw = dict(freeze(e.kwargs))
            a = kw.get('expr', freeze(e.args)[0] if e.args else None)
            if isinstance(a, tuple) and a[:1] == ('call',) and isinstance(a[2], tuple) and a[2][:1] == ('attr',) and a[2][2] in ('rstrip', 'strip', 'lstrip') \
                    and not a[3] and not a[4]:
                a = a[2][1]
            if a != src_e:
                text_problems.append('eval parses %s, not its source argument: the identifiers of that text need not be spelled like '
                                     'the ones list_names reports for the source' % (show(a) if a is not None else 'nothing'))
    chk.require(not text_problems and n_parse, R1, qe + ' :: text', fie.where,
                '; '.join(sorted(set(text_problems))) or 'parses the source argument itself (trailing white space trimmed)')

    # --------------------------------------------------------------------- R2
    rm = lm.rules[IDENT]
    where = '%s:%d' % (lm.spec.module.rel, rm.rule.line)
    chk.ok(R2, 't_%s re-types keywords' % IDENT, where, 't.type = <keyword table>.get(t.value, %r): %d keywords are never %s' % (IDENT, len(lm.reserved), IDENT))
    rets = rm.returns_token
    chk.require(rets == 'always' and not rm.value_changed, R2, 't_%s value' % IDENT, where,
                'returns its token on every path with the matched text unchanged' if (rets == 'always' and not rm.value_changed) else
                ('the identifier rule %s' % ('changes t.value' if rm.value_changed else 'does not always return its token')))
    idx = lm.order.index(IDENT)
    problems = identifier_prefix_thieves(lm, IDENT)
    chk.require(not problems, R2, 'rules tried before t_%s' % IDENT, lm.spec.module.rel,
                '; '.join(problems) or '%d earlier rules cannot swallow the start of an identifier (raw-string prefix must be followed by a quote)' % idx)
    # comments: emit nothing, nothing else starts with the comment character, a match cannot span lines
    silent = [n for n, r in lm.rules.items() if r.returns_token == 'never']
    cproblems = []
    for n in silent:
        r = lm.rules[n]
        starts = [ch for ch in '#' if LM.first_chars_can(r.parsed, ch)]
        for ch in starts:
            for other in lm.order:
                if other != n and LM.first_chars_can(lm.rules[other].parsed, ch):
                    cproblems.append('rule %s also matches at %r' % (other, ch))
        if r.newline and LM.last_char_can(r.parsed, '\n'):
            cproblems.append('the silent rule %s can swallow the line break that ends it' % n)
    chk.require(bool(silent) and not cproblems, R2, 'silent rules (comments)', lm.spec.module.rel,
                '; '.join(cproblems) or ('%s emit no token and own their start character' % ', '.join(silent) if silent else 'no comment rule found'))
    # strings: tried before the identifier rule
    strs = [n for n, r in lm.rules.items() if r.value_changed and any(LM.first_chars_can(r.parsed, c) for c in '"\'')]
    chk.require(bool(strs) and all(lm.order.index(s) < idx for s in strs), R2, 'string rule precedes t_%s' % IDENT, lm.spec.module.rel,
                'string literal rule(s) %s are tried first, so a raw-string prefix never lexes as a name' % ', '.join(strs) if strs else 'no string rule found')

    # --------------------------------------------------------------------- R4
    looked: Set[Tuple[str, str]] = set()
    units = []
    for cls in om.op_classes(F):
        if om.own_eval(F, cls) and cls != om.ROOT:
            units.append((cls + '.eval', cls, None))
    for owner, c, p in common.eval_closures(chk):
        units.append((c.qual, owner.rsplit('.', 1)[0], c))
    for qn, cls, clo in units:
        owner = cls + '.eval'
        fi2 = F.func(owner)
        selft2, stt = ('param', om.self_param(F, owner)), ('param', om.state_param(F, owner))
        names = ('attr', stt, 'names')
        paths2 = closure_paths(F, fi2, clo) if clo is not None else om.eval_paths(F, cls)
        seen: Dict[str, Tuple[bool, str, int]] = {}
        for p in paths2:
            for e in p.events:
                if e.kind in ('load_sub', 'aug_sub', 'store_sub', 'del_sub') and freeze(e.obj) == names:
                    i = freeze(e.index)
                    key = '%s :: `%s`' % (qn, e.text())
                    if isinstance(i, tuple) and i[:2] == ('attr', selft2):
                        looked.add((cls, i[2]))
                        seen.setdefault(key, (True, 'keyed by self.%s' % i[2], e.line))
                    else:
                        seen[key] = (False, 'the scoped names are accessed with key %s, which is not a name field of the node: '
                                            'list_names cannot know about it' % show(i), e.line)
                if e.kind == 'call':
                    f = freeze(e.func)
                    if isinstance(f, tuple) and f and f[0] == 'attr' and f[1] == names and f[2] in ('get', 'pop', 'setdefault', '__getitem__', '__contains__'):
                        seen['%s :: `%s`' % (qn, e.text())] = (False, 'scoped names accessed through .%s' % f[2], e.line)
                    if isinstance(f, tuple) and f and f[0] == 'attr' and f[2] == 'make_scope' and f[1] == names:
                        arg = freeze(e.args)[0] if e.args else None
                        pairs = common.scope_bindings(arg, p.events)
                        ok = bool(pairs) and all(isinstance(k_, tuple) and k_[:1] == ('attr',) and k_[2] == 'name' and
                                                 om.base_field(k_[1], selft2) is not None for k_, _ in pairs)
                        key = '%s :: `%s`' % (qn, norm(e.node.func) if isinstance(e.node, ast.Call) else e.text())
                        if ok:
                            seen.setdefault(key, (True, 'binds parameters under the .name of the nodes in self.%s' % om.base_field(pairs[0][0][1], selft2), e.line))
                        elif pairs is not None and not pairs:
                            seen.setdefault(key, (True, 'empty scope', e.line))
                        else:
                            seen[key] = (False, 'the pushed scope %s binds names that are not the .name of a parameter node' % show(arg), e.line)
        for key, (ok, det, line) in sorted(seen.items()):
            chk.require(ok, R4, key, '%s:%d' % (fi2.module.rel, line), det)

    # --------------------------------------------------------------------- R5
    R5 = chk.rule('C18.R5', 'the host mapping is consulted through the scope stack only: SqParser.eval hands its names argument to the scope '
                            'stack as it is and does nothing else with it - a copy, an iteration or a conversion (dict(names), list(names), '
                            '{**names}) asks the host for every key it has, listed or not', floor=1)
    chk.decided += ['no access to the host mapping beside the keyed lookups of R4 (R5)']
    qe = 'smartquery.sq_parser.SqParser.eval'
    fie = F.func(qe)
    host_params = [a.arg for a in fie.node.args.args[1:] + fie.node.args.kwonlyargs if a.arg == 'names'] or \
                  [a.arg for a in fie.node.args.args[2:3]]
    if not host_params:
        raise AnalysisError('anchor vanished: SqParser.eval has no names parameter')
    hp = ('param', host_params[0])
    problems5 = []
    n5 = 0
    for p in SymExec(F, fie).run():
        for e in p.events:
            if e.kind == 'call':
                f = freeze(e.func)
                args_ = tuple(freeze(e.args)) + tuple(v for _, v in freeze(e.kwargs))
                is_push = isinstance(f, tuple) and f[:1] == ('attr',) and f[2] in ('push_scope', 'make_scope')
                direct = hp in args_ or any(isinstance(a_, tuple) and a_[:1] in (('star',), ('dstar',)) and a_[1] == hp for a_ in args_) \
                    or (isinstance(f, tuple) and f[:1] == ('attr',) and f[1] == hp)
                if is_push and not direct and om.mentions(args_[:1], hp):
                    direct = True           # push_scope({**names}) / push_scope(dict(names)): a copy, not the mapping
                    args_ = ()
                if not direct:
                    continue
                n5 += 1
                if e.d.get('inlined'):
                    continue            # a helper of the package: what it does with the mapping shows in its own events
                name_ = f[2] if isinstance(f, tuple) and f[:1] in (('attr',), ('ref',)) and len(f) > 2 else None
                handed_on = hp in args_ and ((isinstance(f, tuple) and f[:1] == ('attr',) and f[2] in (
                    'push_scope', 'make_scope', 'append', 'appendleft', 'insert', 'new_child'))        # kept by reference
                                             or (isinstance(f, tuple) and f[:2] == ('ref', 'ext') and f[2] in ('collections.ChainMap', 'types.MappingProxyType'))
                                             or e.d.get('ctor') or (isinstance(f, tuple) and f[:2] == ('ref', 'builtin') and f[2] in ('isinstance', 'type', 'id', 'callable')))
                if handed_on:
                    continue
                problems5.append('`%s` (line %d) reads the host mapping as a whole: every key it holds is asked for, whether the program '
                                 'mentions it or not' % (e.text(), e.line))
            # a membership test against the host mapping while the scope stack is set up (`name in names` for every builtin, to
            # report shadowing): the host is asked about names the program never mentions
            terms_ = [freeze(v_) for k_, v_ in e.d.items() if k_ in ('args', 'kwargs', 'value', 'cond', 'result', 'index')]
            if e.kind != 'assume' or not (isinstance(freeze(e.cond), tuple) and freeze(e.cond)[:2] == ('cmp', 'is')):
                hit_ = _membership_on(terms_, hp)
                if hit_ is not None:
                    n5 += 1
                    problems5.append('`%s` (line %d) tests %s for membership in the host mapping before any program runs' % (e.text()[:80], e.line, show(hit_)[:60]))
            if e.kind == 'call':
                pass
            elif e.kind in ('load_sub', 'loop_test', 'loop_skip') and om.mentions(freeze(e.d.get('obj', e.d.get('iter'))), hp):
                n5 += 1
                problems5.append('`%s` (line %d) accesses the host mapping outside the scope stack' % (e.text()[:80], e.line))
    chk.require(not problems5 and n5, R5, qe + ' :: ' + host_params[0], fie.where, '; '.join(sorted(set(problems5))[:2]) or
                'handed to the scope stack as it is (%d use(s))' % n5)

    # --------------------------------------------------------------------- R3
    tab = functab.table(F)
    implicit_allowed = {'list', 'dict'} | {k for k in tab if k.startswith('__') and k.endswith('__')}
    used_implicit: Set[str] = set()
    for t in T.all():
        if t.raises is not None:
            continue
        where = '%s:%d' % (g.module.rel, t.prod.line)
        problems = []
        terms = [t.result] + [freeze(e.value) for e in t.events if e.kind == 'store_attr'] + \
                [x for e in t.events if e.kind == 'call' and not e.d.get('ctor') for x in freeze(e.args)]
        for term in terms:
            for cls, flds in A.new_nodes(term):
                for fn_, v in flds:
                    if (cls, fn_) not in looked:
                        continue
                    if isinstance(v, tuple) and v[0] == 'tok':
                        if v[2] != IDENT:
                            problems.append('%s.%s holds the text of a %s token, which list_names does not report' % (cls.rsplit('.', 1)[-1], fn_, v[2]))
                    elif isinstance(v, tuple) and v[0] == 'const' and isinstance(v[1], str):
                        used_implicit.add(v[1])
                        if v[1] not in implicit_allowed:
                            problems.append('%s.%s is the synthesised name %r: evaluation asks the host for a name that does not '
                                            'occur in the source and is not one of the fixed implicit names' % (cls.rsplit('.', 1)[-1], fn_, v[1]))
                    else:
                        problems.append('%s.%s holds %s, not the text of an identifier token' % (cls.rsplit('.', 1)[-1], fn_, show(v)))
        chk.require(not problems, R3, 'template ' + t.key, where, '; '.join(sorted(set(problems))) or t.show()[:100])
    chk.extra['implicit_names_used'] = sorted(used_implicit)
    chk.extra['looked_up_fields'] = sorted('%s.%s' % (c.rsplit('.', 1)[-1], f) for c, f in looked)


def _membership_on(terms, hp):
    """The left operand of a `x in <host mapping>` test occurring anywhere in the terms, else None."""
    stack = list(terms)
    while stack:
        t = stack.pop()
        if isinstance(t, tuple):
            if t[:1] == ('cmp',) and len(t) == 4 and t[1] in ('in', 'not in') and t[3] == hp:
                return t[2]
            stack.extend(x for x in t if isinstance(x, tuple))
    return None


def identifier_prefix_thieves(lm, IDENT) -> List[str]:
    """Rules tried before the identifier rule that can match the first characters of a longer identifier (and so cut it in
    two): they can start with an identifier-start character and can stop on a word character without demanding a word
    boundary.  The raw-string prefix (r\"...) is the recognised exception."""
    idx = lm.order.index(IDENT)
    problems = []
    for name in lm.order[:idx]:
        r = lm.rules[name]
        for ch in IDENT_START_SAMPLE:
            if LM.first_chars_can(r.parsed, ch) and not _prefix_then_quote(r.parsed, ch) and LM.last_char_can_be_word(r.parsed):
                problems.append('rule %s (tried before %s) can start with %r and stop in the middle of a word: the identifier '
                                '`%s...` is cut in two' % (name, IDENT, ch, ch))
                break
    return problems


def _prefix_then_quote(parsed, ch: str) -> bool:
    """Every alternative that can start with ch has the shape  ch? QUOTE ...  (raw-string prefix)."""
    sre_c = LM.sre_c
    items = list(parsed)
    alts = [items]
    if len(items) == 1 and items[0][0] is sre_c.BRANCH:
        alts = [list(a) for a in items[0][1][1]]
    ok_any = False
    for alt in alts:
        seq = list(alt)
        while len(seq) == 1 and seq[0][0] is sre_c.SUBPATTERN:
            seq = list(seq[0][1][3])
        if not LM.first_chars_can(seq, ch):
            continue
        if len(seq) >= 2 and seq[0][0] in (sre_c.MAX_REPEAT, sre_c.MIN_REPEAT) and seq[0][1][0] == 0 and seq[0][1][1] == 1 \
                and list(seq[0][1][2]) == [(sre_c.LITERAL, ord(ch))] and seq[1][0] is sre_c.LITERAL and chr(seq[1][1]) in '"\'':
            ok_any = True
            continue
        return False
    return ok_any
