"""C16 -- language-level failures are ParserErrors; nothing worse ever escapes."""
from __future__ import annotations

import ast
from typing import Any, Dict, List, Optional, Set, Tuple

from ..facts import AnalysisError, norm, FuncInfo
from ..report import Check
from ..symexec import SymExec, freeze, show, Path, Event, closure_paths, is_const
from .. import opmodel as om
from .. import ctx as C
from .. import functab
from . import common

NONEXC = {'BaseException', 'SystemExit', 'KeyboardInterrupt', 'GeneratorExit'}
EXIT_CALLS = {'sys.exit', 'os._exit', 'os.abort', 'os.kill', 'os.killpg', 'sys.setrecursionlimit', '_thread.interrupt_main',
              'threading.interrupt_main', 'faulthandler._sigsegv'}
EXIT_BUILTINS = {'exit', 'quit'}
EXIT_PREFIXES = ('signal.', 'ctypes.')


def check(chk: Check) -> None:
    F = chk.facts
    R1 = chk.rule('C16.R1', 'the syntax-error hook raises ParserError on every path, including the path on which PLY '
                            'passes None (error at the very end of the text)', floor=2)
    R2 = chk.rule('C16.R2', 'the lexical-error hook raises ParserError unconditionally', floor=1)
    R3 = chk.rule('C16.R3', 'every reserved word without a grammar role is the sole symbol of a production whose action '
                            'raises ParserError; no grammar action raises anything else', floor=4)
    R4 = chk.rule('C16.R4', 'every lookup in the scoped names made by an eval method (incl. the load half of a compound '
                            'assignment) converts LookupError into ParserError', floor=2)
    R5 = chk.rule('C16.R5', 'missing key / index / empty pop in builtins: every keyed read of an argument container and '
                            'every list pop converts the lookup error into ParserError (= C14.R3)', floor=2)
    R6 = chk.rule('C16.R6', 'the size-cap and op-budget errors are ParserErrors', floor=2)
    R7 = chk.rule('C16.R7', 'nothing that is not an ordinary Exception: no raise of BaseException/SystemExit/'
                            'KeyboardInterrupt/GeneratorExit, no interpreter-exit call, every exception class derives '
                            'from Exception', floor=1)
    chk.decided += ['conversion to ParserError at every site where one of the listed failure classes can arise',
                    'no non-Exception raise and no interpreter exit in the code reachable from parse/eval/list_names']
    chk.not_decided += ['that no *other* exception type can arise for an ill-typed program (outside the listed classes)',
                        'stack exhaustion on deeply nested trees (CPython raises RecursionError, an ordinary Exception)']
    _token_rules_cannot_underflow(chk, R2)
    g = C.grammar(F)
    lm = C.lexmodel(F)
    T = C.templates(F)

    # --------------------------------------------------------------------- R1
    if not g.error_func or g.error_func not in g.module.defs:
        chk.bad(R1, 'p_error', g.module.rel, 'the grammar module defines no p_error: PLY prints to stderr and resynchronises instead of raising')
    else:
        node = g.module.defs[g.error_func]
        fi = FuncInfo(g.module.name + '.' + g.error_func, g.module, node)
        pname = node.args.args[0].arg
        for label, binding in (('token given', None), ('None given (end of input)', {pname: ('const', None)})):
            paths = SymExec(F, fi, args=binding).run()
            problems = []
            for p in paths:
                if p.outcome[0] != 'raise':
                    problems.append('a path returns normally (PLY then enters error recovery instead of failing)')
                else:
                    rc = common.raised_class(F, p.outcome[1])
                    if not common.is_parser_error(F, rc):
                        what = show(p.outcome[1])
                        if any(e.kind == 'attr_on_none' for e in p.events):
                            a = [e for e in p.events if e.kind == 'attr_on_none'][0]
                            what = 'AttributeError (`%s` dereferences the None that PLY passes at end of input)' % a.text()
                        problems.append('raises %s, not ParserError' % what)
            if binding is None:
                # the token's value is not always a str (numerals carry a Decimal): operations that only strings
                # support raise TypeError for those tokens, inside the error hook
                nonstr = sorted(n for n, rm in lm.rules.items() if rm.value_changed)
                pv = ('attr', ('param', pname), 'value')
                for p in paths:
                    for e in p.events:
                        bad = None
                        if e.kind == 'call':
                            f = freeze(e.func)
                            if f == ('ref', 'builtin', 'len') and freeze(e.args) == (pv,):
                                bad = 'len(p.value)'
                            if isinstance(f, tuple) and f and f[0] == 'attr' and f[1] == pv:
                                bad = 'p.value.%s(...)' % f[2]
                        if e.kind == 'load_sub' and freeze(e.obj) == pv:
                            bad = 'p.value[...]'
                        if e.kind == 'binop' and pv in (freeze(e.left), freeze(e.right)):
                            bad = 'p.value %s ...' % e.op
                        if bad and nonstr:
                            problems.append('`%s` applies a string-only operation (%s) to the offending token\'s value, which is not a '
                                            'str for %s tokens: a syntax error at such a token escapes as TypeError' % (e.text(), bad, '/'.join(nonstr)))
            chk.require(not problems, R1, '%s [%s]' % (fi.qual, label), fi.where,
                        '; '.join(sorted(set(problems))) or 'raises ParserError on all %d path(s)' % len(paths))

    # --------------------------------------------------------------------- R2
    if lm.spec.error_func is None:
        chk.bad(R2, 't_error', lm.spec.module.rel, 'the lexer defines no t_error')
    else:
        fi = FuncInfo(lm.spec.module.name + '.t_error', lm.spec.module, lm.spec.error_func)
        paths = SymExec(F, fi).run()
        bad = [p for p in paths if p.outcome[0] != 'raise' or not common.is_parser_error(F, common.raised_class(F, p.outcome[1]))]
        partial_, _ = totality_problems(paths, single_chars=True)
        chk.require(not partial_, R2, fi.qual + ' :: building the message', fi.where, '; '.join(sorted(set(partial_))[:3]) +
                    ': the hook dies with that error before it can raise ParserError' if partial_ else
                    'the message is built with operations that are defined for every offending character')
        chk.require(not bad, R2, fi.qual, fi.where,
                    'a path %s' % ('returns normally' if bad and bad[0].outcome[0] != 'raise' else 'raises %s' % show(bad[0].outcome[1]))
                    if bad else 'raises ParserError on all %d path(s)' % len(paths))

    _hooks_need_no_unset_attribute(chk, R1, R2, g, lm)

    # --------------------------------------------------------------------- R3
    kw_tokens = sorted(set(lm.reserved.values()))
    used_in: Dict[str, List] = {k: [] for k in kw_tokens}
    for p in g.productions[1:]:
        for s in p.rhs:
            if s in used_in:
                used_in[s].append(p)
    unused = reserved_unused_words(F, lm)
    for k in kw_tokens:
        prods = used_in[k]
        text = sorted(t for t, tok in lm.reserved.items() if tok == k)
        declared_unused = any(t in unused for t in text)
        builds = any(t.raises is None for p in prods for t in T.of(p))
        if not declared_unused and builds:
            continue            # a keyword with a grammar role (True/False/None, and, or, if ...)
        if not prods:
            chk.ok(R3, 'reserved word %s' % '/'.join(text), g.lexmodule.rel, 'token %s is in no production: any use is a syntax error (ParserError through R1)' % k)
            continue
        if all(len(p.rhs) == 1 for p in prods):
            bad = []
            for p in prods:
                for t in T.of(p):
                    if t.raises is None:
                        bad.append('`%s` builds %s instead of raising' % (p, t.show()))
                    elif not common.is_parser_error(F, common.raised_class(F, t.raises)):
                        bad.append('`%s` raises %s' % (p, show(t.raises)))
            chk.require(not bad, R3, 'reserved word %s' % '/'.join(text), '%s:%d' % (g.module.rel, prods[0].line),
                        '; '.join(bad) or 'sole symbol of `%s`, whose action raises ParserError' % prods[0])
    for t in T.all():
        if t.raises is not None and not common.is_parser_error(F, common.raised_class(F, t.raises)):
            chk.bad(R3, 'action of `%s`' % t.key, '%s:%d' % (g.module.rel, t.prod.line), 'raises %s, not ParserError' % show(t.raises))

    # --------------------------------------------------------------------- R4
    units = []
    for cls in om.op_classes(F):
        if not om.own_eval(F, cls) or cls == om.ROOT:
            continue
        q = cls + '.eval'
        units.append((q, F.func(q), None, cls))
    for owner, c, p in common.eval_closures(chk):
        if common.run_in_place(c, p):
            continue            # a thunk called by the helper it was handed to: seen on the paths of the eval method itself
        units.append((c.qual, F.func(owner), c, owner.rsplit('.', 1)[0]))
    for q, fi, clo, cls in units:
        owner_q = cls + '.eval'
        stt = ('param', om.state_param(F, owner_q))
        names = ('attr', stt, 'names')
        strs = om.op_specs(F, cls) if clo is None else []
        seen: Dict[str, Tuple[str, str, int]] = {}
        for op in (strs or [None]):
            paths = closure_paths(F, fi, clo) if clo is not None else om.eval_paths(F, cls, op)
            for p in paths:
                for e in p.events:
                    if e.kind in ('load_sub', 'aug_sub') and freeze(e.obj) == names:
                        verdict, det = common.conversion_of(F, e, paths, ['KeyError'])
                        key = '%s :: `%s`' % (q, e.text())
                        if key not in seen or verdict != 'converted':
                            seen[key] = (verdict, det, e.line)
        for key, (verdict, det, line) in sorted(seen.items()):
            chk.require(verdict == 'converted', R4, key, '%s:%d' % (fi.module.rel, line),
                        det if verdict == 'converted' else 'an undefined name raises KeyError here (%s): the failure escapes as a non-ParserError' % det)

    # the text of a tree is built by recursion over the tree (the dataclass __repr__ of a node calls the __repr__ of its children):
    # an eval method that renders itself or a child - for a message, for a log line whose arguments are evaluated whether or not
    # the line is emitted - raises RecursionError on programs that are merely long (a sum of 500 terms nests 500 deep)
    for cls in om.op_classes(F):
        if not om.own_eval(F, cls) and cls != om.ROOT:
            continue
        q = cls + '.eval'
        if q not in F.functions:
            continue
        selft = ('param', om.self_param(F, q))
        kinds = om.op_field_kinds(F, cls)
        hits = set()
        for p in om.eval_paths(F, cls):
            for e in p.events:
                if e.kind != 'call':
                    continue
                f = freeze(e.func)
                if isinstance(f, tuple) and f[:2] == ('ref', 'builtin') and f[2] in ('repr', 'str', 'ascii', 'format') and e.args:
                    a0 = freeze(e.args[0])
                    if a0 == selft or (isinstance(a0, tuple) and a0[:2] == ('attr', selft) and kinds.get(a0[2]) in ('op', 'oplist', 'pairlist')):
                        hits.add('`%s` (line %d)' % (e.text(), e.line))
        if hits:
            chk.bad(R7, '%s renders the tree' % q, F.func(q).where, '%s builds the text of a syntax tree, which recurses once per nesting level: '
                    'RecursionError - not a ParserError - on deep programs' % ', '.join(sorted(hits)[:2]))
    # --------------------------------------------------------------------- R5
    for key, ok, where, det in lookup_sites(chk):
        chk.require(ok, R5, key, where, det)
    # ... of the key the program wrote: a cast that answers from a memo keyed by == looks up '1' for 1.0, so a key that is
    # missing is found (= C14.R1)
    from .c14 import key_cast_agreement
    key_cast_agreement(chk, R5)
    for label, where, text in common.default_factory_dicts(chk):
        chk.bad(R5, '%s returns a dict with a default factory' % label, where,
                'the value handed to the program is `%s`: reading a missing key of it (d[k], through any keyed read above) inserts the key '
                'and returns the default instead of raising - the missing-key failure never becomes a ParserError' % text)

    # --------------------------------------------------------------------- R6
    # the size cap: wherever a table function compares len(<argument>) with a constant and raises right away, it raises ParserError
    tab_ = functab.table(F)
    n_cap = 0
    bad_cap = []
    for key_, ent_ in tab_.items():
        fi_ = ent_.funcinfo(F)
        if fi_ is None:
            continue
        for p in SymExec(F, fi_).run():
            if p.outcome[0] != 'raise' or not p.assumptions:
                continue
            # the last decision taken before the raise (the host's logging level - `if logger.isEnabledFor(...)` - is not one)
            decisions_ = [a_ for a_ in p.assumptions if not (isinstance(freeze(a_[0]), tuple) and freeze(a_[0])[:1] == ('unknown',)
                                                             and str(freeze(a_[0])[1]).startswith('logging-level'))]
            if not decisions_:
                continue
            c_, v_, _ = decisions_[-1]
            def is_len_test(c):
                return isinstance(c, tuple) and c[:1] == ('cmp',) and c[1] in ('>=', '>', '<', '<=') and \
                    any(isinstance(x, tuple) and x[:2] == ('pcall', 'len') for x in c[2:4]) and \
                    any(is_const(x) and isinstance(x[1], int) and x[1] >= 100 for x in c[2:4])
            core_ = c_
            while isinstance(core_, tuple) and core_[:1] == ('not',):
                core_ = core_[1]
            if not is_len_test(core_):
                continue
            n_cap += 1
            if not common.is_parser_error(F, common.raised_class(F, p.outcome[1])):
                bad_cap.append('%s raises %s when `%s` is %s' % (ent_.label, show(p.outcome[1]), show(c_), v_))
    if n_cap == 0:
        bad_cap.append('no table function raises when len(<argument>) reaches the cap: exceeding the size cap is not reported by an exception at all')
    chk.require(not bad_cap, R6, 'size-cap guards', 'smartquery/functions.py', '; '.join(sorted(set(bad_cap))[:3]) or
                '%d over-cap path(s) raise ParserError' % n_cap)
    rp = om.eval_paths(F, om.ROOT)
    rs = [p for p in rp if p.outcome[0] == 'raise']
    bad = [p for p in rs if not common.is_parser_error(F, common.raised_class(F, p.outcome[1]))]
    chk.require(rs and not bad, R6, om.ROOT + '.eval', F.func(om.ROOT + '.eval').where,
                'the budget check raises %s' % show(bad[0].outcome[1]) if bad else ('raises a ParserError subclass' if rs else 'the charge never raises'))

    _r7(chk, R7)
    _r8(chk)
    _r9(chk)


def reserved_unused_words(F, lm) -> Set[str]:
    """Keywords the lexer module itself declares as reserved-but-unused: the keys of every dict that is
    splatted (``**name``) into the keyword table."""
    from ..grammar import eval_literal, NotLiteral
    m = lm.spec.module
    out: Set[str] = set()
    for name, vals in m.assigns.items():
        for v in vals:
            if isinstance(v, ast.Dict) and any(k is None for k in v.keys):
                try:
                    table = eval_literal(F, m, v)
                except NotLiteral:
                    continue
                if not (isinstance(table, dict) and set(table.items()) >= set(lm.reserved.items())):
                    continue
                for k, sub in zip(v.keys, v.values):
                    if k is None and isinstance(sub, (ast.Name, ast.Attribute)):
                        try:
                            d = eval_literal(F, m, sub)
                        except NotLiteral:
                            continue
                        if isinstance(d, dict):
                            out |= set(d)
    return out


def lookup_sites(chk: Check) -> List[Tuple[str, bool, str, str]]:
    """Keyed reads / pops of argument containers inside FUNCTIONS targets, with their conversion verdict."""
    F = chk.facts
    out: Dict[str, Tuple[bool, str, str]] = {}
    tab = functab.table(F)
    for key, ent in tab.items():
        fi = ent.funcinfo(F)
        if fi is None:
            continue
        params = [a.arg for a in fi.node.args.args]
        # compound index assignment: specialise per operator so every arm is seen
        paths = SymExec(F, fi).run()
        for p in paths:
            for e in p.events:
                site = None
                if e.kind in ('load_sub', 'aug_sub'):
                    o, i = freeze(e.obj), freeze(e.index)
                    if isinstance(o, tuple) and o[0] == 'param' and not o[1].startswith('*') and _has_param(i):
                        site = ('read', ['KeyError', 'IndexError'])
                elif e.kind == 'call':
                    f = freeze(e.func)
                    if isinstance(f, tuple) and f and f[0] == 'attr' and f[2] == 'pop' and isinstance(f[1], tuple) and f[1][0] == 'param':
                        site = ('pop', ['IndexError'])
                if site is None:
                    continue
                fn = e.fn
                ck = '%s :: `%s`' % (fn, e.text())
                verdict, det = common.conversion_of(F, e, paths, site[1])
                where = '%s:%d' % (fi.module.rel, e.line)
                ok = verdict in ('converted', 'defaulted')
                det2 = det if ok else ('%s of a missing key/index raises KeyError/IndexError here (%s)' % (site[0], det))
                if ck not in out or not ok:
                    out[ck] = (ok, where, det2)
    return [(k, v[0], v[1], v[2]) for k, v in sorted(out.items())]


def _has_param(t) -> bool:
    if isinstance(t, tuple):
        if t and t[0] == 'param':
            return True
        return any(_has_param(x) for x in t)
    return False


def reachable_modules(F) -> List[str]:
    start = 'smartquery.sq_parser'
    seen = {start}
    todo = [start]
    while todo:
        m = F.modules.get(todo.pop())
        if m is None:
            continue
        for tgt in m.imports.values():
            for cand in (tgt, tgt.rpartition('.')[0]):
                if cand in F.modules and cand not in seen and '.ply' not in cand:
                    seen.add(cand)
                    todo.append(cand)
    return sorted(seen)


def scan_nonexception(F, m, tree, label_prefix='') -> List[Tuple[str, int, str]]:
    out = []
    for n in ast.walk(tree):
        if isinstance(n, ast.Raise) and n.exc is not None:
            e = n.exc.func if isinstance(n.exc, ast.Call) else n.exc
            r = F.resolve_expr(m, e) if m is not None else (('builtin', e.id) if isinstance(e, ast.Name) else ('unbound', ''))
            if r[0] == 'builtin' and r[1] in NONEXC:
                out.append(('raise %s' % r[1], n.lineno, '`%s` raises %s, which is not an ordinary Exception' % (norm(n), r[1])))
            if r[0] == 'cls':
                bases = F.ext_bases(r[1])
                if any(b in NONEXC for b in bases) and 'Exception' not in bases:
                    out.append(('raise %s' % r[1], n.lineno, '`%s` raises a class deriving from BaseException only' % norm(n)))
        if isinstance(n, ast.Call):
            r = F.resolve_expr(m, n.func) if m is not None else ('unbound', '')
            if m is None:
                d = norm(n.func)
                r = ('ext', d) if '.' in d else ('builtin', d)
            if r[0] == 'builtin' and r[1] in EXIT_BUILTINS:
                out.append(('call %s' % r[1], n.lineno, '`%s` terminates the interpreter' % norm(n)))
            if r[0] == 'ext' and (r[1] in EXIT_CALLS or r[1].startswith(EXIT_PREFIXES)):
                out.append(('call %s' % r[1], n.lineno, '`%s` can terminate or signal the interpreter' % norm(n)))
    return out


def _r7(chk: Check, R7: str) -> None:
    F = chk.facts
    # positive self-test
    ex = ast.parse("import sys\ndef f():\n    raise SystemExit(1)\ndef g():\n    sys.exit(2)\ndef h():\n    exit()\n")
    if len(scan_nonexception(F, None, ex)) != 3:
        raise AnalysisError('C16.R7 self-test: the detector found %d of 3 example constructs' % len(scan_nonexception(F, None, ex)))
    mods = reachable_modules(F)
    found = False
    for mn in mods:
        m = F.modules[mn]
        for cons, line, det in scan_nonexception(F, m, m.tree):
            found = True
            chk.bad(R7, '%s :: %s' % (mn, cons), '%s:%d' % (m.rel, line), det)
    for q, ci in sorted(F.classes.items()):
        if ci.module.name not in mods:
            continue
        eb = F.ext_bases(q)
        if any(b in ('Exception', 'BaseException') or b.endswith('Error') for b in eb):
            import builtins
            okb = any(isinstance(getattr(builtins, b, None), type) and issubclass(getattr(builtins, b), Exception) for b in eb)
            chk.require(okb, R7, 'exception class %s' % q, '%s:%d' % (ci.module.rel, ci.node.lineno),
                        'derives from Exception' if okb else 'derives from %s but not from Exception' % ', '.join(eb))
            found = found or not okb
            # ... and an ordinary one: the interpreter and contextlib assign __traceback__ / __context__ to an exception in flight
            # (a generator-based context manager does it to every exception that passes through it); a class that refuses
            # attribute assignment turns the error into FrozenInstanceError / AttributeError at that point
            frozen = any(isinstance(d, ast.Call) and norm(d.func).rsplit('.', 1)[-1] == 'dataclass' and any(
                k.arg == 'frozen' and isinstance(k.value, ast.Constant) and k.value.value is True for k in d.keywords) for d in ci.node.decorator_list)
            refuses = frozen or '__setattr__' in ci.methods
            chk.require(not refuses, R7, 'exception class %s accepts attribute assignment' % q, '%s:%d' % (ci.module.rel, ci.node.lineno),
                        ('a frozen dataclass' if frozen else 'defines __setattr__') + ': setting __traceback__ on an instance in flight (contextlib does, '
                        'around every lambda call through make_scope) raises FrozenInstanceError instead of the ParserError' if refuses else
                        'plain exception object')
            found = found or refuses
    if chk.tier == 'thorough':
        for mn, cls, fns in (('smartquery.ply.yacc', 'LRParser', ('parseopt_notrack', 'parse')),
                             ('smartquery.ply.yacc', None, ('call_errorfunc',)),
                             ('smartquery.ply.lex', 'Lexer', ('token', 'input'))):
            m = F.modules.get(mn)
            if m is None:
                raise AnalysisError('anchor vanished: %s' % mn)
            for n in ast.walk(m.tree):
                if isinstance(n, ast.FunctionDef) and n.name in fns:
                    hits = scan_nonexception(F, m, n)
                    for cons, line, det in hits:
                        chk.bad(R7, '%s.%s :: %s' % (mn, n.name, cons), '%s:%d' % (m.rel, line), det)
                    if not hits:
                        chk.ok(R7, '%s.%s' % (mn, n.name), '%s:%d' % (m.rel, n.lineno), 'PLY run-time anchor: no non-Exception raise, no exit call')
    chk.ok(R7, 'modules reachable from parse/eval/list_names', ', '.join(mods),
           'scanned %d modules (detector self-test 3/3)' % len(mods)) if not found else None


# ------------------------------------------------------------------------ R8
TOTAL_BUILTINS = {'len', 'isinstance', 'str', 'repr', 'bool', 'min', 'max', 'type', 'id', 'callable', 'tuple', 'list', 'ascii'}
TOTAL_STR_METHODS = {'replace', 'strip', 'lstrip', 'rstrip', 'splitlines', 'startswith', 'endswith', 'lower', 'upper', 'title',
                     'isprintable', 'isascii', 'expandtabs', 'casefold', 'partition', 'rpartition', 'ljust', 'rjust', 'center', 'zfill'}
NON_STRICT = {'ignore', 'replace', 'backslashreplace', 'xmlcharrefreplace', 'namereplace', 'surrogatepass', 'surrogateescape'}


def _r8(chk: Check) -> None:
    """A language-level failure is reported by *constructing* a ParserError from text the program controls.  If the
    constructor (or __str__) of the exception class can itself fail on some message, that failure escapes instead."""
    F = chk.facts
    R8 = chk.rule('C16.R8', 'raising a ParserError cannot fail: ParserError and its subclasses either define no __init__/'
                            '__new__/__str__/__repr__ of their own, or those run only operations that are total on '
                            'arbitrary text (no strict encode/decode, no int()/float(), no %-/format templates made of the message)', floor=2)
    chk.decided += ['the exception constructors cannot turn a ParserError into something else (R8)']
    PE = 'smartquery.exceptions.ParserError'
    classes = [q for q in F.classes if PE in F.mro(q)]
    if not classes:
        raise AnalysisError('anchor vanished: %s' % PE)
    for q in sorted(classes):
        ci = F.cls(q)
        where = '%s:%d' % (ci.module.rel, ci.node.lineno)
        own = [mn for mn in ('__init__', '__new__', '__str__', '__repr__', '__reduce__') if mn in ci.methods]
        if not own:
            chk.ok(R8, 'exception class %s' % q, where, 'no constructor or text method of its own: BaseException stores the arguments as they are')
            continue
        problems, unknown = [], []
        n_paths = 0
        for mn in own:
            fi = F.func(q + '.' + mn)
            paths_ = SymExec(F, fi).run()
            n_paths += len(paths_)
            pr_, un_ = totality_problems(paths_, label=mn)
            problems += pr_
            unknown += un_
        if problems:
            chk.bad(R8, 'exception class %s' % q, where, '; '.join(sorted(set(problems))[:3]))
        elif unknown:
            chk.unrec(R8, 'exception class %s' % q, where, 'cannot tell whether %s can fail' % ', '.join(sorted(set(unknown))[:3]))
        else:
            chk.ok(R8, 'exception class %s' % q, where, '%s: %d path(s), total operations only' % (', '.join(own), n_paths))


def _hooks_need_no_unset_attribute(chk: Check, R1: str, R2: str, g, lm) -> None:
    """The error hooks run on the shared lexer object.  An attribute they read that PLY does not create and that an entry
    point does not assign before lexing does not exist on a fresh parser: the hook then dies with AttributeError and the
    lexical / syntax error is not reported as ParserError."""
    F = chk.facts
    from .c11 import lexer_attr_uses, _is_ply_call, PARSER
    lexmod = F.modules.get('smartquery.ply.lex')
    ply_attrs: Set[str] = set()
    if lexmod is not None:
        for n in lexmod.tree.body:
            if isinstance(n, ast.ClassDef) and n.name == 'Lexer':
                for st in ast.walk(n):
                    if isinstance(st, ast.Attribute) and isinstance(st.ctx, ast.Store) and isinstance(st.value, ast.Name) and st.value.id == 'self':
                        ply_attrs.add(st.attr)
    if not ply_attrs:
        raise AnalysisError('anchor vanished: ply.lex.Lexer attribute assignments')
    init = F.cls(PARSER).methods.get('__init__')
    if init is not None:            # attributes the parser's constructor creates on its lexer exist from then on
        for attr, kinds in lexer_attr_uses(init, 'self.lex').items():
            if 'store' in kinds:
                ply_attrs.add(attr)
    hooks = []
    if lm.spec.error_func is not None:
        hooks.append((R2, lm.spec.module.name + '.t_error', lm.spec.error_func, ('parse', 'list_names'), lm.spec.module))
    if g.error_func and g.error_func in g.module.defs:
        hooks.append((R1, g.module.name + '.' + g.error_func, g.module.defs[g.error_func], ('parse',), g.module))
    assigned: Dict[str, Optional[Set[str]]] = {}
    for mn in ('parse', 'list_names'):
        q = PARSER + '.' + mn
        if q not in F.functions:
            continue
        fi = F.func(q)
        selft = ('param', om.self_param(F, q))
        lex = common.lexer_term(F, selft)
        common_set: Optional[Set[str]] = None
        for p in SymExec(F, fi).run():
            runs = [e for e in p.events if e.kind == 'call' and _is_ply_call(e, selft) and freeze(e.func)[2] in ('token', 'parse')]
            if not runs:
                continue
            first = p.events.index(runs[0])
            here = {e.attr for e in p.events[:first] if e.kind == 'store_attr' and freeze(e.obj) == lex}
            common_set = here if common_set is None else (common_set & here)
        assigned[mn] = common_set
    for R, name, node, entries, mod in hooks:
        loads = {a for a, kinds in lexer_attr_uses(node, 'param.lexer').items() if 'load' in kinds}
        problems = []
        for a in sorted(loads - ply_attrs):
            for mn in entries:
                if assigned.get(mn) is not None and a not in assigned[mn]:
                    problems.append('reads lexer.%s, which SqParser.%s does not assign before lexing and PLY does not create: on a '
                                    'parser that has not run the other entry point the hook raises AttributeError, not ParserError' % (a, mn))
        chk.require(not problems, R, name + ' :: lexer attributes it reads', '%s:%d' % (mod.rel, node.lineno),
                    '; '.join(problems) or ('reads %s: all created by PLY or assigned by every entry point that can reach the hook'
                                            % (', '.join(sorted(loads)) or 'no lexer attribute')))


PARTIAL_LIBRARY = {'unicodedata.name': 'unicodedata.name() raises ValueError for characters without a name (controls, surrogates, private use) unless a default is given',
                   'unicodedata.lookup': 'unicodedata.lookup() raises KeyError for unknown names',
                   'unicodedata.decimal': 'unicodedata.decimal() raises ValueError for non-decimal characters', 'unicodedata.digit': 'raises ValueError',
                   'unicodedata.numeric': 'raises ValueError', 'codecs.encode': 'strict by default', 'codecs.decode': 'strict by default'}


def totality_problems(paths, label='', single_chars=False) -> Tuple[List[str], List[str]]:
    """(operations that can fail on some text, operations the table does not know) on the given paths."""
    problems, unknown = [], []
    for p in paths:
        if p.outcome[0] == 'raise' and label and not any(e.kind == 'raise' and not e.d.get('implicit') for e in p.events) and False:
            problems.append('%s raises %s' % (label, show(p.outcome[1])))
        for e in p.events:
            if e.kind == 'binop' and e.op == '%' and not is_const(freeze(e.left)):
                problems.append('`%s` uses text the program controls as a %%-template' % e.text())
            if single_chars and e.kind == 'load_sub':
                ix = freeze(e.index)
                # in t_error the token value is the rest of the text from the offending character: never empty, possibly one long
                if is_const(ix) and isinstance(ix[1], int) and ix[1] not in (0, -1):
                    problems.append('`%s` indexes position %d of the remaining text: IndexError when the offending character is the last one' % (e.text(), ix[1]))
            if e.kind != 'call' or e.d.get('inlined'):
                continue
            f = freeze(e.func)
            kw = dict(freeze(e.kwargs))
            if isinstance(f, tuple) and f and f[0] == 'attr' and f[2] in ('encode', 'decode'):
                errs = kw.get('errors') or (freeze(e.args)[1] if len(e.args) > 1 else None)
                if not (is_const(errs) and errs[1] in NON_STRICT):
                    problems.append('`%s` is a strict %s: it raises Unicode%sError on text that is not well-formed '
                                    '(a lone surrogate in a name, key or string of the program)' % (
                                        e.text(), f[2], 'Encode' if f[2] == 'encode' else 'Decode'))
                continue
            if isinstance(f, tuple) and f and f[0] == 'attr' and f[2] in ('format', 'format_map') and not is_const(f[1]):
                problems.append('`%s` uses text the program controls as a format template' % e.text())
                continue
            if single_chars and isinstance(f, tuple) and f[:2] == ('ref', 'builtin') and f[2] == 'ord' and e.args and \
                    isinstance(freeze(e.args[0]), tuple) and freeze(e.args[0])[:1] == ('sub',):
                continue                        # ord(text[i]): one character
            if isinstance(f, tuple) and f[:2] == ('ref', 'builtin') and f[2] in ('int', 'float', 'ord', 'chr', 'bytes', 'next', 'getattr'):
                problems.append('`%s`: %s() is not defined for every message' % (e.text(), f[2]))
                continue
            if isinstance(f, tuple) and f[:2] == ('ref', 'ext') and f[2] in PARTIAL_LIBRARY:
                ndefault = {'unicodedata.name': 2}.get(f[2])
                if ndefault is not None and len(e.args) >= ndefault:
                    continue                    # called with a default: total
                problems.append('`%s`: %s' % (e.text(), PARTIAL_LIBRARY[f[2]]))
                continue
            if isinstance(f, tuple) and f[:2] == ('ref', 'builtin') and f[2] in TOTAL_BUILTINS:
                continue
            if isinstance(f, tuple) and f and f[0] == 'attr' and isinstance(f[1], tuple) and f[1][:1] == ('super',):
                continue
            if isinstance(f, tuple) and f and f[0] == 'attr' and f[2] in TOTAL_STR_METHODS:
                continue
            if isinstance(f, tuple) and f and f[0] == 'attr' and f[2] == 'join' and is_const(f[1]):
                continue
            if isinstance(f, tuple) and f and f[0] == 'attr' and f[2] == 'format' and is_const(f[1]):
                continue
            if e.d.get('ctor'):
                continue
            unknown.append('`%s`' % e.text())
    return problems, unknown


def _token_rules_cannot_underflow(chk: Check, R2: str) -> None:
    """PLY's Lexer.pop_state() is `self.begin(self.lexstatestack.pop())`: on an empty stack it raises IndexError from inside
    token(), before the parser ever sees the offending character.  A token rule that pops a state for a closing construct
    must therefore be guarded (try/except IndexError -> ParserError, or a test of the stack).  Decided from the lexer
    module's source alone (the lexer model itself does not model states)."""
    F = chk.facts
    from ..grammar import parser_modules
    _, lex_m, _ = parser_modules(F)
    for name, node in lex_m.defs.items():
        if not (isinstance(node, ast.FunctionDef) and name.startswith('t_')):
            continue
        parents = {}
        for n in ast.walk(node):
            for ch in ast.iter_child_nodes(n):
                parents[ch] = n
        for n in ast.walk(node):
            if isinstance(n, ast.Call) and isinstance(n.func, ast.Attribute) and n.func.attr == 'pop_state':
                guarded = False
                x = n
                while x in parents:
                    x = parents[x]
                    if isinstance(x, ast.Try) and any(h.type is None or 'IndexError' in ast.dump(h.type) or 'LookupError' in ast.dump(h.type)
                                                      or 'Exception' in ast.dump(h.type) for h in x.handlers):
                        guarded = True
                    if isinstance(x, (ast.If, ast.IfExp)) and 'lexstatestack' in ast.dump(x.test):
                        guarded = True
                chk.require(guarded, R2, '%s.%s :: `%s`' % (lex_m.name, name, norm(n)), '%s:%d' % (lex_m.rel, n.lineno),
                            'guarded against an empty state stack' if guarded else
                            'pop_state() on an empty state stack raises IndexError inside token(): a closing construct without its opener '
                            '(a stray bracket) escapes as IndexError instead of a ParserError')


def _r9(chk: Check) -> None:
    """A `finally` block runs while an exception (typically the ParserError the program earned) is in flight.  If the block
    itself fails, its error replaces that exception.  So a finally block reachable from parse / eval / list_names must not
    look anything up that may be missing, and a numeral rule must not accept text the Decimal constructor rejects."""
    F = chk.facts
    R9 = chk.rule('C16.R9', 'error paths cannot be derailed: no keyed read / delete that can raise LookupError inside a finally block '
                            'reachable from the entry points or an eval method (it would replace the ParserError in flight), and the '
                            'numeral rule matches only text the Decimal constructor accepts (no exponent part)', floor=2)
    chk.decided += ['cleanup code and literal conversion cannot turn a ParserError into something else (R9)']
    from .c02 import entry_units
    n_fin = 0
    for label, fi, _ in entry_units(chk):
        try:
            paths = SymExec(F, fi).run()
        except AnalysisError:
            continue
        allp = list(paths)
        for c in om.all_closures(paths):
            allp += closure_paths(F, fi, c)
        bad = {}
        saw_finally = False
        for p in allp:
            for e in p.events:
                fins = e.in_ctx('finally')
                if not fins:
                    continue
                saw_finally = True
                if e.kind in ('load_sub', 'del_sub'):
                    # guarded by a handler *inside* the finally block?
                    inner_try = [c for c in e.ctx if c[0] == 'try' and e.ctx.index(c) > max(i for i, x in enumerate(e.ctx) if x[0] == 'finally')]
                    if any(common.catches(F, types, ['KeyError', 'IndexError']) for c in inner_try for types, _ in c[2]):
                        continue
                    idx = freeze(e.index)
                    if is_const(idx) and isinstance(idx[1], int) and e.kind == 'load_sub' and False:
                        continue
                    # `if k in d: del d[k]` is fine
                    guard = ('cmp', 'in', idx, freeze(e.obj))
                    if any(c == guard and v for c, v, _ in p.assumptions):
                        continue
                    bad['`%s`' % e.text()] = e.line
        if saw_finally:
            n_fin += 1
            chk.require(not bad, R9, '%s :: finally blocks' % label, fi.where,
                        '; '.join('%s (line %d) can raise KeyError/IndexError while another exception is in flight: that error replaces the '
                                  'ParserError the program should get' % (k, v) for k, v in sorted(bad.items())[:3]) or
                        'nothing in a finally block can raise a lookup error')
    if n_fin == 0:
        chk.ok(R9, 'finally blocks', 'smartquery/*.py', 'no finally block on the paths of the entry points, eval methods and builtins')
    # the numeral rule
    lm = C.lexmodel(F)
    from .c08 import number_token
    from .. import lexmodel as LM
    NUM = number_token(lm)
    rm = lm.rules[NUM]
    where = '%s:%d' % (lm.spec.module.rel, rm.rule.line)
    from .c08 import numeral_separators
    import re as _re
    seps = numeral_separators(F, rm)
    odd = [ch for ch in 'eEnNiIfFaA_' if LM.can_contain(rm.parsed, ch) and ch not in seps]
    if seps and not odd:
        # digit separators the rule removes before the conversion: what is left of every sample must still be a numeral
        for w in sorted(LM.samples(rm.parsed, unroll=2, cap=300, alphabet='05.' + ''.join(sorted(seps))) or ['?'], key=lambda x: (len(x), x)):
            left = ''.join(c for c in w if c not in seps)
            if not _re.fullmatch(r'[0-9]+(\.[0-9]+)?|\.[0-9]+|[0-9]+\.', left):
                odd.append('%s (of %r)' % (left or 'the empty text', w))
                break
    chk.require(not odd, R9, 't_%s accepts only digits and a point' % NUM, where,
                'the numeral regex can match %s: text like 1e1000000000000000000 (or nan / inf / 1_0) is accepted by the lexer but '
                'Decimal() raises InvalidOperation or builds a non-number: the error escapes from token() as a non-ParserError'
                % ', '.join(repr(c) for c in odd) if odd else 'digits and an optional fraction: every match is a valid Decimal literal')
