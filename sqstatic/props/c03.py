"""C03 -- the 10000-element cap on lists and dicts cannot be circumvented."""
from __future__ import annotations

import ast
from typing import Any, Dict, List, Optional, Set, Tuple

from ..facts import AnalysisError, FuncInfo
from ..report import Check
from ..symexec import SymExec, freeze, show, Path, Event, closure_paths, is_const
from .. import opmodel as om
from .. import functab
from .. import actions as A
from . import common
from .c13 import param_root
from .c16 import common as _c  # noqa

CAP = 10000          # the number is in the property statement
GROW_METHODS = {'append': 1, 'insert': 1, 'setdefault': 1, 'add': 1, '__setitem__': 1, 'extend': None, 'update': None}
STR_AMPLIFIERS = {'join': 'product', 'replace': 'product', 'format': 'sum', 'format_map': 'sum', 'ljust': 'unbounded',
                  'rjust': 'unbounded', 'center': 'unbounded', 'zfill': 'unbounded', 'expandtabs': 'product'}
SPLITTERS = {'split', 'rsplit', 'splitlines'}
TEXT_BUILTINS = {'str', 'repr', 'format', 'ascii'}
NUMERIC_FUNCS = {'int', 'float', 'abs', 'round', 'len', 'sum', 'ord', 'hash', 'bool', 'min', 'max', 'pow', 'divmod'}


def len_linear(t) -> Optional[Tuple[Any, int, int]]:
    """(X, a, c) for a term a*len(X) + c (a in {0,1,-1}); X None for constants."""
    t = freeze(t)
    if isinstance(t, tuple) and t[:2] == ('pcall', 'len') and len(t[2]) == 1:
        return (t[2][0], 1, 0)
    if is_const(t) and isinstance(t[1], int) and not isinstance(t[1], bool):
        return (None, 0, t[1])
    if isinstance(t, tuple) and t and t[0] == 'binop' and t[1] in ('+', '-'):
        l, r = len_linear(t[2]), len_linear(t[3])
        if l is None or r is None:
            return None
        s = 1 if t[1] == '+' else -1
        if l[0] is not None and r[0] is not None and l[0] != r[0]:
            return None
        return (l[0] if l[0] is not None else r[0], l[1] + s * r[1], l[2] + s * r[2])
    return None


class AmpDict(dict):
    """The amplifier findings, each with its *site*: the entry point it is reached from and the kind of amplifier.  A known finding
    is recognised by its key or, when the statement was moved into a helper or its operands renamed, by its site."""
    site_root = ''

    @staticmethod
    def kind_of(det: str) -> str:
        for needle, kind in (('concatenates', 'seq +'), ('repeats it', 'seq *'), ('pieces', 'split'), ('matches (empty pattern)', 'regex'),
                             ('can build a string longer', 'regex sub'), ('text of a program value', 'text'), ('text of program values', 'text'),
                             ('range(n)', 'range'), ('can add more than one element', 'bulk growth')):
            if needle in det:
                return kind
        if det.startswith('str.'):
            return det.split(' ', 1)[0]
        return 'other'

    def setdefault(self, key, val):
        if len(val) == 3 and not val[0] and self.site_root:
            val = val + ('%s :: %s' % (self.site_root, self.kind_of(val[2])),)
        return dict.setdefault(self, key, val)

    def __setitem__(self, key, val):
        if len(val) == 3 and not val[0] and self.site_root:
            val = val + ('%s :: %s' % (self.site_root, self.kind_of(val[2])),)
        dict.__setitem__(self, key, val)


def cap_form(cond, truth: bool) -> Optional[Tuple[Any, int]]:
    """If `cond == truth` means  len(X) >= k : (X, k)."""
    cond = freeze(cond)
    while isinstance(cond, tuple) and cond and cond[0] == 'not':
        cond, truth = cond[1], not truth
    if not (isinstance(cond, tuple) and cond and cond[0] == 'cmp' and cond[1] in ('<', '<=', '>', '>=')):
        return None
    L, R = len_linear(cond[2]), len_linear(cond[3])
    if L is None or R is None:
        return None
    X = L[0] if L[0] is not None else R[0]
    if X is None or (L[0] is not None and R[0] is not None and L[0] != R[0]):
        return None
    a, c = L[1] - R[1], L[2] - R[2]
    op = cond[1]
    if not truth:
        op = {'<': '>=', '<=': '>', '>': '<=', '>=': '<'}[op]
    if a == -1:
        a, c = 1, -c
        op = {'<': '>', '<=': '>=', '>': '<', '>=': '<='}[op]
    if a != 1:
        return None
    # len + c op 0   ->  len op -c
    if op == '>=':
        return (X, -c)
    if op == '>':
        return (X, -c + 1)
    return None


def units(chk: Check) -> List[Tuple[str, FuncInfo, Any, Set[str], str]]:
    """(label, funcinfo, paths-thunk, parameter names to ignore, where) for everything a program can run."""
    F = chk.facts
    out = []
    tab = functab.table(F)
    # helpers that dispatch on an operator string passed by the grammar are analysed once per operator
    op_param: Dict[str, Tuple[str, List[str]]] = {}
    try:
        from .c12 import common_ops
        for fm in common.assignment_forms(chk, strict=False):
            if fm['target'] == 'fn' and fm['compound'] and fm['op_idx'] is not None:
                params = [a.arg for a in F.func(fm['fn']).node.args.args]
                op_param[fm['fn']] = (params[fm['op_idx']], common_ops(chk, fm))
    except AnalysisError:
        pass
    for key, ent in tab.items():
        fi = ent.funcinfo(F)
        if fi is None:
            continue
        lab = ent.label + ' -> ' + (ent.target if ent.kind == 'fn' else 'lambda')
        if ent.kind == 'fn' and ent.target in op_param:
            pn, ops = op_param[ent.target]
            for op in ops:
                out.append((lab + ' [op=%r]' % op, fi, lambda fi=fi, pn=pn, op=op: SymExec(F, fi, args={pn: ('const', op)}).run(), set(), fi.where))
            continue
        out.append((lab, fi, lambda fi=fi: SymExec(F, fi).run(), set(), fi.where))
    for cls in om.op_classes(F):
        if not om.own_eval(F, cls) or cls == om.ROOT:
            continue
        q = cls + '.eval'
        fi = F.func(q)
        ignore = {om.self_param(F, q), om.state_param(F, q)}
        kinds = om.op_field_kinds(F, cls)
        strs = om.op_specs(F, cls)
        for op in (strs or [None]):
            lab = q + (' [op=%r]' % op if op else '')
            out.append((lab, fi, lambda cls=cls, op=op: om.eval_paths(F, cls, op), ignore, fi.where))
    return out


def numeric_proven(t, assumptions) -> bool:
    """Is the term certainly a number (so + / * cannot concatenate or repeat)?"""
    t = freeze(t)
    if is_const(t):
        return isinstance(t[1], (int, float)) and not isinstance(t[1], bool) or isinstance(t[1], bool)
    if not isinstance(t, tuple) or not t:
        return False
    if t[0] == 'pcall' and t[1] == 'len':
        return True
    if t[0] == 'call':
        f = t[2]
        if isinstance(f, tuple) and f[0] == 'ref':
            if f[1] == 'builtin' and f[2] in NUMERIC_FUNCS:
                return True
            if f[1] == 'ext' and (f[2].startswith('math.') or f[2] in ('decimal.Decimal', 'random.random', 'random.randint', 'random.randrange')):
                return True
    if t[0] == 'new' and t[1].endswith('.Decimal'):
        return True
    if t[0] == 'ref' and t[1] == 'ext':
        return True        # module constants such as regex.I
    if t[0] in ('binop',):
        return numeric_proven(t[2], assumptions) and numeric_proven(t[3], assumptions)
    if t[0] == 'unop':
        return numeric_proven(t[2], assumptions)
    if t[0] == 'phi':
        return numeric_proven(t[3], assumptions)
    # isinstance(x, <numeric types>) assumed on this path
    for c, v, _ in assumptions:
        if v and isinstance(c, tuple) and c[:2] == ('pcall', 'isinstance') and c[2][0] == t:
            return True
    return False


def check(chk: Check) -> None:
    F = chk.facts
    R1 = chk.rule('C03.R1', 'the guard is the guard: each size check protecting a growth site rules out exactly '
                            'len(x) >= 10000, and its failing side raises ParserError and does nothing else', floor=1)
    R2 = chk.rule('C03.R2', 'guard dominates every in-place growth: append / insert / setdefault / subscript store / '
                            'compound subscript store / in-place + or * on an argument-derived container is preceded on '
                            'every path by a passed size check of the same object, with no growth in between', floor=3)
    R3 = chk.rule('C03.R3', 'no amplifier without a cap: every primitive whose result can be longer than each of its '
                            'inputs (sequence + and *, their in-place forms, join / replace / text-of-value, '
                            'split / findall, extend / update) has its result checked against the cap before it is '
                            'stored or returned', floor=0)
    R4 = chk.rule('C03.R4', 'the size check comes first: in every element-adding builtin no keyed access, method call or '
                            'hand-over of the container precedes its size check (a host mapping\'s __getitem__/__missing__ may '
                            'insert; a failed operation must leave the container unchanged)', floor=3)
    _r5(chk)
    _r6(chk)
    chk.decided += ['clause 2 of the statement (element-adding operations at the cap): guard comparison, constant, failure '
                    'class and dominance over every +1 growth path (R1, R2)',
                    'clause 1 as an inductive invariant: inventory of every reachable primitive that can exceed '
                    'max(10000, longest input) (R3)']
    chk.assumptions += ['length-preserving primitives (list(), sorted, slicing, comprehensions over one input, keys/values/items, '
                        'reversed, filter, map, enumerate, zip) keep the invariant; strings are part of it because '
                        'str -> list builtins are length-preserving']
    guards_seen: Dict[int, Dict[str, Any]] = {}
    growth_seen: Dict[str, Tuple[bool, str, str]] = {}
    first_touch: Dict[str, Tuple[bool, str, str]] = {}
    amp_seen = AmpDict()
    tab = functab.table(F)

    # raw table entries that are amplifiers by themselves
    for key, ent in tab.items():
        if ent.kind == 'builtin' and ent.target in TEXT_BUILTINS:
            amp_seen['%s is %s' % (ent.label, ent.target)] = (
                False, '%s:%d' % (F.modules[functab.FUNCS_MOD].rel, ent.line),
                'the text of a container is longer than the container: %s(list of 10000 numbers) is a string of >10000 '
                'characters, one enumerate()/map() away from a list of that length' % ent.target)
        if ent.kind in ('ext', 'builtin') and ent.target.rsplit('.', 1)[-1] in STR_AMPLIFIERS and ent.kind == 'ext':
            amp_seen['%s is %s' % (ent.label, ent.target)] = (False, '%s:%d' % (F.modules[functab.FUNCS_MOD].rel, ent.line),
                                                              'raw string amplifier exposed without a cap')

    for label, fi, thunk, ignore, where in units(chk):
        amp_seen.site_root = 'C03.R3 :: ' + label.split(' -> ')[0].split(' [')[0] + (label[label.index(' [op='):] if ' [op=' in label else '')
        paths = thunk()
        closures = []
        for c in om.all_closures(paths):
            if True:
                closures.append(closure_paths(F, fi, c))
        for plist in [paths] + closures:
            for p in plist:
                _first_touch(F, p, label, fi, ignore, first_touch)
                passed: Dict[Any, int] = {}        # object -> k ruled out
                for idx, e in enumerate(p.events):
                    wh = '%s:%d' % (fi.module.rel if e.depth() == 0 else _rel_of(F, e.fn, fi), e.line)
                    if e.kind == 'assume':
                        ro = cap_form(e.cond, not e.value)
                        if ro is not None and ro[1] >= 100:
                            X, k = ro
                            passed[X] = k
                            g = guards_seen.setdefault(id(e.node), {'node': e.node, 'fn': e.fn, 'k': set(), 'where': wh,
                                                                   'fail_ok': None, 'text': e.text()})
                            g['k'].add(k)
                        ri = cap_form(e.cond, e.value)
                        if ri is not None and ri[1] >= 100:
                            # this path took the failing side: it must raise ParserError, nothing else
                            g = guards_seen.setdefault(id(e.node), {'node': e.node, 'fn': e.fn, 'k': set(), 'where': wh,
                                                                   'fail_ok': None, 'text': e.text()})
                            rest = [x for x in p.events[idx + 1:] if x.kind not in ('assume', 'return', 'log') and not (
                                x.kind == 'call' and (x.d.get('ctor') or x.d.get('inlined') or common.builds_message(x)))]
                            ok = p.outcome[0] == 'raise' and common.is_parser_error(F, common.raised_class(F, p.outcome[1])) \
                                and all(x.kind == 'raise' for x in rest)
                            g['fail_ok'] = ok if g['fail_ok'] in (None, True) else False
                            if not ok:
                                g['fail_detail'] = 'on the over-cap side the path %s' % (
                                    'continues normally' if p.outcome[0] != 'raise' else 'raises %s' % show(p.outcome[1]))
                        continue
                    # ---- growth sites
                    site = None
                    if e.kind == 'call' and not e.d.get('inlined'):
                        f = freeze(e.func)
                        if isinstance(f, tuple) and f and f[0] == 'attr' and f[2] in GROW_METHODS and not e.d.get('on_fresh_list'):
                            r = param_root(f[1])
                            if r is not None and r not in ignore:
                                site = (f[1], GROW_METHODS[f[2]], '.%s()' % f[2])
                    elif e.kind in ('store_sub', 'aug_sub'):
                        r = param_root(e.obj)
                        if r is not None and r not in ignore:
                            site = (freeze(e.obj), 1, 'subscript store' if e.kind == 'store_sub' else 'compound subscript store %s=' % e.op)
                    elif e.kind == 'aug_name' and e.op in ('+', '*'):
                        r = param_root(e.cur)
                        if r is not None and r not in ignore and not numeric_proven(e.cur, p.assumptions):
                            site = (freeze(e.cur), None, 'in-place %s=' % e.op)
                    if site is not None:
                        X, by, what = site
                        key = '%s :: `%s`' % (e.fn if e.depth() else label.split(' [')[0], e.text())
                        if by is None:
                            amp_seen.setdefault(key, (False, wh, '%s can add more than one element; a size check before it does not bound the result' % what))
                        k = passed.get(X)
                        if k is None:
                            growth_seen[key] = (False, wh, '%s on `%s` is reached on a path that did not pass a size check of that object%s' % (
                                what, show(X), _pd(p)))
                        elif k != CAP:
                            growth_seen[key] = (False, wh, '%s on `%s` is allowed while len < %d; the cap of the statement is %d' % (what, show(X), k, CAP))
                        else:
                            growth_seen.setdefault(key, (True, wh, '%s on `%s` after a passed check len < %d' % (what, show(X), k)))
                            passed.pop(X, None)       # one check buys one element
                    # ---- amplifiers
                    _amplifiers(F, e, p, label, fi, ignore, amp_seen, wh)

    for key, (ok, wh, det) in sorted(first_touch.items()):
        chk.require(ok, R4, key, wh, det)
    for gid, g in sorted(guards_seen.items(), key=lambda kv: kv[1]['where']):
        ks = sorted(g['k'])
        problems = []
        if ks and ks != [CAP]:
            problems.append('the check lets a container of %s elements grow (rules out len >= %s; the statement says %d)' % (
                ' / '.join(str(k - 1) for k in ks), ' / '.join(map(str, ks)), CAP))
        if g['fail_ok'] is False:
            problems.append(g.get('fail_detail', 'the failing side does not raise ParserError'))
        if g['fail_ok'] is None and ks:
            problems.append('the failing side of the check was not found')
        chk.require(not problems, R1, '%s :: `%s`' % (g['fn'], g['text']), g['where'],
                    '; '.join(problems) or 'rules out len >= %d; over-cap side raises ParserError and nothing else' % CAP)
    for key, (ok, wh, det) in sorted(growth_seen.items()):
        chk.require(ok, R2, key, wh, det)
    # sequence repetition accepts whatever has __index__: a number class of the package that grows one turns every literal into a
    # repeat count for `list *= n` / `str * n` (decimal.Decimal deliberately has none)
    for cq, ci in sorted(F.classes.items()):
        if '.ply' in ci.module.name:
            continue
        if any(b in ('decimal.Decimal', 'float', 'fractions.Fraction') for b in F.ext_bases(cq)) and '__index__' in ci.methods:
            amp_seen['%s defines __index__' % cq] = (False, '%s:%d' % (ci.module.rel, ci.methods['__index__'].lineno),
                                                    'with __index__ the language\'s numbers are accepted as repeat counts: `x = [1, 2, 3]; x *= 5000` builds a '
                                                    '15000-element list (the compound assignments apply the native operator and relied on the TypeError)')
    for key, val in sorted(amp_seen.items()):
        ok, wh, det = val[:3]
        if ok:
            chk.ok(R3, key, wh, det)
        else:
            chk.bad(R3, key, wh, det, site=val[3] if len(val) > 3 else None)
    from . import common as _common
    for label, wh, text in _common.default_factory_dicts(chk):
        chk.bad(R3, '%s returns a dict with a default factory' % label, wh,
                'the program receives `%s`: every read of a new key adds an entry, and reads are not preceded by a size check - the dict '
                'grows past the cap one lookup at a time' % text)


def _rel_of(F, fn: str, default_fi) -> str:
    fi = F.functions.get(fn)
    return fi.module.rel if fi else default_fi.module.rel


def _pd(p: Path) -> str:
    a = ['%s is %s' % (show(c), v) for c, v, _ in p.assumptions if 'ops_evaluated' not in show(c)]
    return ' [' + ', '.join(a[:3]) + ']' if a else ''


def _is_message_only(e: Event, p: Path) -> bool:
    """The value only feeds the message of an exception raised on this path."""
    return p.outcome[0] == 'raise' and om.mentions(p.outcome[1], freeze(e.d.get('result'))) if e.d.get('result') is not None else False


def _amplifiers(F, e: Event, p: Path, label: str, fi, ignore, amp_seen, wh: str) -> None:
    unit = e.fn if e.depth() else label.split(' [')[0]
    arm = ''
    if ' [op=' in label and not e.depth():
        arm = label[label.index(' [op='):]
    # the site of a finding: the entry point it is reached from and the kind of amplifier - what survives a refactoring that moves
    # the statement into a helper or renames its operands
    site_root = 'C03.R3 :: ' + label.split(' -> ')[0].split(' [')[0] + (label[label.index(' [op='):] if ' [op=' in label else '')

    def put(key, det, kind):
        amp_seen.setdefault(key, (False, wh, det, '%s :: %s' % (site_root, kind)))

    def program_value(t) -> bool:
        """Could this be a str / list held by the program (as opposed to a proven number or a local constant)?"""
        t = freeze(t)
        if numeric_proven(t, p.assumptions):
            return False
        if is_const(t):
            return False
        return True
    if e.kind in ('binop', 'aug_name', 'aug_sub', 'aug_attr') and e.d.get('op') in ('+', '*'):
        if e.kind == 'binop':
            l, r = e.left, e.right
        else:
            l = e.d.get('cur') if e.kind == 'aug_name' else ('sub', freeze(e.obj), freeze(e.index)) if e.kind == 'aug_sub' else ('attr', freeze(e.obj), e.attr)
            r = e.value
            if e.kind == 'aug_attr' and e.attr == 'ops_evaluated':
                return
            if e.kind == 'aug_name' and param_root(e.cur) is None and not isinstance(freeze(e.cur), tuple):
                return
        if e.op == '+' and program_value(l) and program_value(r):
            amp_seen.setdefault('%s%s :: `%s`' % (unit, arm, e.text()), (
                False, wh, '`+` on operands that may both be sequences concatenates them: the result is as long as both '
                           'together and is never checked against the cap'))
        if e.op == '*' and (program_value(l) or program_value(r)) and not (numeric_proven(l, p.assumptions) and numeric_proven(r, p.assumptions)):
            amp_seen.setdefault('%s%s :: `%s`' % (unit, arm, e.text()), (
                False, wh, '`*` on an operand that may be a sequence repeats it: the result is n times as long and is '
                           'never checked against the cap'))
        return
    if e.kind != 'call' or e.d.get('inlined') or e.d.get('ctor'):
        return
    if p.outcome[0] == 'raise' and e.d.get('result') is not None and om.mentions(p.outcome[1], A.strip_ids(freeze(e.result))):
        return
    f = freeze(e.func)
    if not isinstance(f, tuple) or not f:
        return
    res = freeze(e.d.get('result'))
    in_msg = p.outcome[0] == 'raise' and res is not None and om.mentions(p.outcome[1], res)
    if in_msg:
        return
    if f[0] == 'attr' and f[2] in STR_AMPLIFIERS and (program_value(f[1]) or any(program_value(a) for a in freeze(e.args))):
        if f[2] == 'join' and is_const(f[1]) and f[1][1] == '' and e.args:
            # ''.join(<characters of one string>) is length-preserving
            a0 = freeze(e.args[0])
            if isinstance(a0, tuple) and a0[:1] == ('comp',) and len(a0) >= 5 and len(a0[3]) == 1 and not a0[3][0][2] \
                    and a0[2] == ('elem', a0[3][0][1], a0[4]):
                a0 = a0[3][0][1]            # [ch for ch in it]: the elements of `it`, one for one
            src = a0[3][0] if isinstance(a0, tuple) and a0[0] == 'call' and a0[2] in (
                ('ref', 'builtin', 'reversed'), ('ref', 'builtin', 'iter'), ('ref', 'builtin', 'sorted'), ('ref', 'builtin', 'list')) and a0[3] else a0
            is_str = any(v and isinstance(c, tuple) and c[:2] == ('pcall', 'isinstance') and c[2][0] == src
                         and c[2][1] == ('ref', 'builtin', 'str') for c, v, _ in p.assumptions)
            if is_str:
                return
        amp_seen.setdefault('%s :: `%s`' % (unit, e.text()), (
            False, wh, 'str.%s builds a string longer than each of its inputs (%s); strings feed the length-preserving '
                       'str -> list builtins' % (f[2], STR_AMPLIFIERS[f[2]])))
    elif f[0] == 'attr' and f[2] in SPLITTERS and program_value(f[1]):
        amp_seen.setdefault('%s :: `%s`' % (unit, e.text()), (
            False, wh, 'str.%s returns up to len(s) + 1 pieces: one more than the longest input' % f[2]))
    elif f[:2] == ('ref', 'ext') and f[2] in ('regex.findall', 're.findall', 'regex.split', 're.split', 'regex.sub', 're.sub', 'regex.subn', 're.subn'):
        amp_seen.setdefault('%s :: `%s`' % (unit, e.text()), (
            False, wh, '%s returns up to len(s) + 1 matches (empty pattern): one more than the longest input' % f[2]
            if 'sub' not in f[2] else '%s can build a string longer than its inputs' % f[2]))
    elif f[:2] == ('ref', 'builtin') and f[2] in TEXT_BUILTINS and e.args and program_value(e.args[0]):
        a0 = freeze(e.args[0])
        amp_seen.setdefault('%s%s :: `%s`' % (unit, arm, e.text()), (
            False, wh, 'text of a program value: %s(container) is longer than the container (one enumerate()/map() away '
                       'from a list of that length)' % f[2]))
    elif f[:2] == ('ref', 'builtin') and f[2] == 'map' and e.args and freeze(e.args[0]) in [('ref', 'builtin', b) for b in TEXT_BUILTINS]:
        amp_seen.setdefault('%s :: `%s`' % (unit, e.text()), (
            False, wh, 'text of program values (map(str, ...)) feeding a join'))
    elif f[:2] == ('ref', 'builtin') and f[2] == 'range':
        if not all(_len_bounded(a) for a in freeze(e.args)):
            amp_seen.setdefault('%s :: `%s`' % (unit, e.text()), (
                False, wh, 'range(n) with a program-supplied n produces a sequence of arbitrary length'))


def _len_bounded(t) -> bool:
    """A range bound that is a length of an existing value (or derived from one by +/- constants)."""
    t = freeze(t)
    if is_const(t):
        return True
    if isinstance(t, tuple) and t[:2] == ('pcall', 'len'):
        return True
    if isinstance(t, tuple) and t and t[0] == 'binop' and t[1] in ('+', '-', '//'):
        return _len_bounded(t[2]) and _len_bounded(t[3])
    if isinstance(t, tuple) and t and t[0] in ('phi',):
        return _len_bounded(t[3])
    return False


def _first_touch(F, p: Path, label: str, fi, ignore, out) -> None:
    """For each container that is grown on this path: the first event that touches it must come after its size check."""
    grown = []
    for e in p.events:
        X = None
        if e.kind == 'call' and not e.d.get('inlined'):
            f = freeze(e.func)
            if isinstance(f, tuple) and f and f[0] == 'attr' and f[2] in GROW_METHODS and not e.d.get('on_fresh_list'):
                X = f[1]
        elif e.kind in ('store_sub', 'aug_sub'):
            X = freeze(e.obj)
        if X is not None and param_root(X) is not None and param_root(X) not in ignore and X not in grown:
            grown.append(X)
    for X in grown:
        checked = False
        for e in p.events:
            if e.kind == 'assume':
                ro = cap_form(e.cond, not e.value)
                if ro is not None and ro[0] == X:
                    checked = True
                    break
                continue
            touch = None
            if e.kind in ('load_sub', 'del_sub') and freeze(e.obj) == X:
                touch = 'keyed access'
            elif e.kind in ('store_sub', 'aug_sub') and freeze(e.obj) == X:
                touch = 'store'
            elif e.kind == 'call' and not e.d.get('inlined'):
                f = freeze(e.func)
                if isinstance(f, tuple) and f and f[0] == 'attr' and f[1] == X:
                    touch = 'method .%s' % f[2]
                elif not (isinstance(f, tuple) and f[:2] == ('ref', 'builtin') and f[2] in ('len', 'isinstance', 'type', 'id')) \
                        and any(a == X for a in freeze(e.args)):
                    touch = 'hand-over to %s' % show(f)
            if touch:
                unit = e.fn if e.depth() else label.split(' [')[0]
                key = '%s :: `%s` before the size check of `%s`' % (unit, e.text(), show(X))
                out[key] = (False, '%s:%d' % (fi.module.rel, e.line),
                            '%s of the container happens before its size check: when the check then fails, the container may '
                            'already have changed (a host mapping that inserts on lookup, e.g. a defaultdict, grows past the cap)' % touch)
                break
        if checked:
            unit = label.split(' [')[0]
            out.setdefault('%s :: size check of `%s` comes first' % (unit, show(X)), (True, fi.where, 'nothing touches the container before its size check'))


HOF_BUILTINS = {'map', 'filter', 'sorted', 'reduce', 'functools.reduce', 'min', 'max', 'any', 'all', 'list', 'tuple', 'sum', 'next'}


def _r6(chk: Check) -> None:
    """The failure of the size check has to reach the host as a ParserError: a handler around code that runs the program (or a
    storing builtin) which takes ParserError and carries on turns "the operation fails" into "the operation silently did
    nothing"."""
    F = chk.facts
    from . import common
    R6 = chk.rule('C03.R6', 'the size-check failure is not swallowed: no handler in code that runs during an evaluation takes the '
                            'ParserError of a failed size check out of program code and continues, or replaces it by an error '
                            'that is not a ParserError', floor=0)
    seen: Dict[str, Tuple[bool, str, str]] = {}
    for key, e, p, fi, se in common.handlers_catching(chk, om.PARSER_ERROR):
        st = e.node
        h = e.d['handler']
        mod = F.functions[e.fn].module if e.fn in F.functions else fi.module
        runs_program = False
        for n in (x for b in st.body for x in ast.walk(b)):
            if not isinstance(n, ast.Call):
                continue
            r = F.resolve_expr(mod, n.func)
            if r[0] in ('builtin', 'ext') and r[1] not in HOF_BUILTINS:
                continue            # a library call on plain values raises no ParserError
            if r[0] == 'cls':
                continue
            runs_program = True
        if not runs_program:
            continue
        wh = '%s:%d' % (mod.rel, h.lineno)
        if p.outcome[0] == 'raise':
            o = freeze(p.outcome[1])
            rc = common.raised_class(F, p.outcome[1])
            if o[:1] == ('exc',) or o == ('unknown', 'reraise') or (rc is not None and rc[0] == 'cls' and F.is_subclass(rc[1], om.PARSER_ERROR)):
                seen.setdefault(key, (True, wh, 'the failure leaves the handler as a ParserError'))
                continue
            seen[key] = (False, wh, 'a failed size check inside the guarded code (a ParserError) leaves this handler as %s, which is '
                                    'not a ParserError' % show(p.outcome[1]))
        else:
            seen[key] = (False, wh, 'this handler takes the ParserError of a failed size check raised by the guarded program code and '
                                    'continues normally: the element-adding operation at the cap no longer fails, the run goes on as '
                                    'if it had been legal')
    for key, (ok, wh, det) in sorted(seen.items()):
        chk.require(ok, R6, key, wh, det)
    if not seen:
        chk.ok(R6, 'no handler on the evaluation paths receives a ParserError raised by program code', F.func(om.ROOT + '.eval').where,
               'every except clause reachable during an evaluation names classes ParserError is not a subclass of')


def _r5(chk: Check) -> None:
    """The guard `len(x) >= cap` in front of a store assumes that one store adds at most one element.  That holds for a
    position or a key; a slice on the left of a store replaces a range by arbitrarily many elements."""
    F = chk.facts
    R5 = chk.rule('C03.R5', 'one store, one element: the key a grammar action hands to an element-storing builtin is never a '
                            'slice node, and no storing builtin builds a slice key itself', floor=2)
    from . import common
    from .. import functab
    tab = functab.table(F)
    SLICE = ('ref', 'builtin', 'slice')
    slice_classes = set()
    for cls in om.op_classes(F):
        if (cls + '.eval') in F.functions and om.own_eval(F, cls):
            for p in om.eval_paths(F, cls):
                r = p.outcome[1] if p.normal else None
                if isinstance(r, tuple) and r[:1] == ('call',) and r[2] == SLICE:
                    slice_classes.add(cls)
    # keyed writers: table functions that store through (container parameter)[...]
    writers = {}
    for key, ent in tab.items():
        fi = ent.funcinfo(F)
        if fi is None or not fi.node.args.args:
            continue
        params = [a.arg for a in fi.node.args.args]
        c0 = ('param', params[0])
        stores = []
        for p in SymExec(F, fi).run():
            for e in p.events:
                if e.kind in ('store_sub', 'aug_sub') and freeze(e.obj) == c0:
                    stores.append(e)
        if stores and len(params) >= 2:
            writers[key] = (fi, stores)
    from .. import ctx as C_
    grel = C_.grammar(F).module.rel
    n = 0
    for t, name, args in common.lowered_calls(chk):
        if name not in writers or not isinstance(args, tuple) or args[:1] != ('list',) or len(args) < 3:
            continue
        n += 1
        keyarg = args[2]
        bad = isinstance(keyarg, tuple) and keyarg[:1] == ('new',) and keyarg[1] in slice_classes
        chk.require(not bad, R5, 'template %s -> %r' % (t.prod, name), '%s:%d' % (grel, t.prod.line),
                    'the key is a slice node (%s): `x[a:b] = ys` stores len(ys) elements behind a check that allows for one' % show(keyarg)
                    if bad else 'the key is a single position / key expression')
    for key, (fi, stores) in sorted(writers.items()):
        sl = [e for e in stores if isinstance(freeze(e.index), tuple) and (freeze(e.index)[:1] == ('slice',) or
              (freeze(e.index)[:1] == ('call',) and freeze(e.index)[2] == SLICE))]
        chk.require(not sl, R5, 'FUNCTIONS[%r] stores' % key, fi.where, '`%s` stores through a slice' % sl[0].text() if sl else
                    '%d subscript store(s), none through a slice the function builds' % len(stores))
    if n == 0:
        raise AnalysisError('anchor vanished: no grammar action lowers to an element-storing builtin')
