"""C07 -- evaluation agrees with the reference semantics (structural sub-clauses only)."""
from __future__ import annotations

import ast
from typing import Any, Dict, List, Optional, Set, Tuple

from ..facts import AnalysisError
from ..report import Check
from ..symexec import SymExec, freeze, show, Path, Event, is_const
from .. import opmodel as om
from .. import functab
from .. import ctx as C
from .. import actions as A
from . import common
from . import numeric as N
from .c01 import charge_rules
from .c09 import grammar_ops, child_events

PY_BINOP = {'+': '+', '-': '-', '*': '*', '/': '/', '**': '**', '%': '%', '//': '//'}
PY_CMP = {'==': ('==', False), '!=': ('==', True), '>': ('>', False), '<': ('<', False), '>=': ('>=', False),
          '<=': ('<=', False), 'in': ('in', False), 'not in': ('in', True)}


INPLACE_MSG = ('%r is computed with the binary operator `%s` and stored back: for a list that builds a new list and rebinds the name / '
               'slot, while the augmented assignment (x op= v, operator.i*) extends the existing object - other references to it '
               'stop seeing the update')


def derived_from(F, t, src) -> bool:
    """t is src itself or a conversion of it (str(src), Decimal(src), int(src) ...)."""
    t = freeze(t)
    if t == src:
        return True
    a = N.is_decimal_ctor(F, t)
    if a is not None:
        return derived_from(F, a, src)
    if isinstance(t, tuple) and t[:1] == ('call',) and isinstance(t[2], tuple) and t[2][:2] == ('ref', 'builtin') and \
            t[2][2] in ('str',) and len(t[3]) == 1:
        return derived_from(F, t[3][0], src)        # the string-on-the-left coercion of `+` (its condition is R4's business)
    return False


def check(chk: Check) -> None:
    F = chk.facts
    R1 = chk.rule('C07.R1', 'every opcode has a handler and siblings agree: each operator string the grammar can store in a '
                            'node (or pass to the compound-index helper) reaches a handler that applies the Python operator of '
                            'the same kind to (left, right) in that order; the two compound-assignment implementations map '
                            'each operator text to the same in-place operator', floor=15)
    R2 = chk.rule('C07.R2', 'lowering targets exist with the right arity: every constant function name a template emits is in '
                            'the function table and accepts the number of arguments passed', floor=4)
    R3 = chk.rule('C07.R3', 'one charge per node evaluation (= C01.R1 + C01.R3): exactly one +1 increment per eval invocation, '
                            'so the op count equals the number of node evaluations', floor=8)
    chk.decided += ['ONLY the structural sub-clauses: opcode exhaustiveness and operator kinds (R1), lowering arity (R2), one charge per node (R3)']
    chk.not_decided += ['the extensional statement - values of operators and builtins on all well-typed programs (negative/fractional indices, '
                        'mixed str + number, slices with steps, nested containers, ...) - needs an executable reference semantics and generated '
                        'programs: a different technique family; NOT decided here']
    lm = C.lexmodel(F)
    tab = functab.table(F)

    # --------------------------------------------------------------------- R1
    for cls in om.op_classes(F):
        if cls == om.ROOT or not om.own_eval(F, cls):
            continue
        q = cls + '.eval'
        fi = F.func(q)
        kinds = om.op_field_kinds(F, cls)
        if kinds.get('op') != 'str':
            continue
        gops = grammar_ops(F, cls)
        if not gops:
            continue
        selft, stt = ('param', om.self_param(F, q)), ('param', om.state_param(F, q))
        for op in gops:
            paths = om.eval_paths(F, cls, op)
            normal = [p for p in paths if p.normal]
            cons = '%s [op=%r]' % (q, op)
            problems = []
            if not normal:
                outs = {show(p.outcome[1])[:60] for p in paths if p.outcome[0] == 'raise' and 'Limit' not in show(p.outcome[1])}
                problems.append('the grammar produces %r but no path of the dispatcher handles it (%s)' % (op, ', '.join(sorted(outs)) or 'falls through'))
            for p in normal:
                ce = child_events(F, p, selft, stt)
                res = {c[0]: freeze(c[2].result) for c in ce if c[2].kind == 'call'}
                ret = p.outcome[1]
                opfields = [f for f, k in kinds.items() if k == 'op']
                if op in ('and', 'or'):
                    continue            # laziness and result identity: C09.R1
                if op.endswith('=') and op not in PY_CMP:
                    # compound assignment on a name
                    aug = [e for e in p.events if e.kind == 'aug_sub' and om.carries(e.obj, stt)]
                    st = [e for e in p.events if e.kind == 'store_sub' and om.carries(e.obj, stt)]
                    if len(aug) == 1 and not st:
                        if aug[0].op != op[:-1]:
                            problems.append('%r is implemented with the in-place operator `%s=`' % (op, aug[0].op))
                    elif len(st) == 1 and not aug:
                        v = freeze(st[0].value)
                        if not (isinstance(v, tuple) and v[:2] == ('binop', op[:-1])):
                            problems.append('%r stores %s' % (op, show(v)))
                        elif not any(e.kind in ('inplace_op', 'aug_name') and e.op == op[:-1] for e in p.events):
                            problems.append(INPLACE_MSG % (op, op[:-1]))
                    else:
                        problems.append('%r performs %d in-place updates and %d stores of the variable' % (op, len(aug), len(st)))
                    continue
                if len(opfields) == 2:
                    f1, f2 = opfields
                    a, b = res.get(f1), res.get(f2)
                    if op in PY_BINOP:
                        ok = isinstance(ret, tuple) and ret[:2] == ('binop', PY_BINOP[op]) and derived_from(F, ret[2], a) and derived_from(F, ret[3], b)
                        if not ok:
                            problems.append('%r returns %s, not <left> %s <right>' % (op, show(ret), PY_BINOP[op]))
                    elif op in PY_CMP:
                        pyop, neg = PY_CMP[op]
                        core = ret
                        isneg = False
                        if isinstance(core, tuple) and core[:1] == ('not',):
                            core, isneg = core[1], True
                        # comparisons and membership tests look at the operand values as they are: no conversion
                        def exact(x, y):
                            return freeze(x) == y
                        ok = isinstance(core, tuple) and core[:2] == ('cmp', pyop) and exact(core[2], a) and exact(core[3], b) and isneg == neg
                        # symmetric spellings:  b > a  for  a < b
                        flip = {'<': '>', '>': '<', '<=': '>=', '>=': '<='}
                        if not ok and pyop in flip:
                            ok = isinstance(core, tuple) and core[:2] == ('cmp', flip[pyop]) and exact(core[2], b) and exact(core[3], a) and isneg == neg
                        if not ok and op in ('==', '!=') and isinstance(core, tuple) and core[:2] == ('cmp', '=='):
                            ok = exact(core[2], b) and exact(core[3], a) and isneg == neg
                        if not ok:
                            problems.append('%r returns %s, not the comparison <left> %s <right>' % (op, show(ret), op))
                    else:
                        note = 'binary operator %r is not part of the reference semantics: its value is not decided' % op
                        if note not in chk.notes:
                            chk.notes.append(note)
                elif len(opfields) == 1:
                    a = res.get(opfields[0])
                    if op == '-':
                        ok = isinstance(ret, tuple) and ret[:2] == ('unop', '-') and derived_from(F, ret[2], a)
                    elif op == 'not':
                        inner = ret[1] if isinstance(ret, tuple) and ret[:1] == ('not',) else None
                        if isinstance(inner, tuple) and inner[:2] == ('pcall', 'bool') and len(inner[2]) == 1:
                            inner = inner[2][0]             # not bool(x) is not x
                        elif isinstance(inner, tuple) and inner[:1] == ('call',) and inner[2] == ('ref', 'builtin', 'bool') and len(inner[3]) == 1 and not inner[4]:
                            inner = inner[3][0]
                        ok = inner is not None and derived_from(F, inner, a)
                    else:
                        ok = False
                    if not ok:
                        problems.append('%r returns %s' % (op, show(ret)))
            chk.require(not problems, R1, cons, fi.where, '; '.join(sorted(set(problems))) or 'handled: applies the Python operator of the same kind to (left, right)')
    # compound index assignment helper
    for fm in common.assignment_forms(chk):
        if fm['target'] != 'fn' or not fm['compound']:
            continue
        q = fm['fn']
        fi = F.func(q)
        params = [a.arg for a in fi.node.args.args]
        from .c12 import common_ops
        for op in common_ops(chk, fm):
            paths = SymExec(F, fi, args={params[fm['op_idx']]: ('const', op)}).run()
            normal = [p for p in paths if p.normal]
            problems = []
            if not normal:
                problems.append('the lexer produces %r but %s handles no such operator' % (op, q))
            cont = ('param', params[fm['container_idx']])
            for p in normal:
                aug = [e for e in p.events if e.kind == 'aug_sub' and freeze(e.obj) == cont]
                st = [e for e in p.events if e.kind == 'store_sub' and freeze(e.obj) == cont]
                if len(aug) == 1 and not st:
                    if aug[0].op != op[:-1]:
                        problems.append('%r is implemented with `%s=`' % (op, aug[0].op))
                elif len(st) == 1 and not aug:
                    v = freeze(st[0].value)
                    if not (isinstance(v, tuple) and v[:2] == ('binop', op[:-1]) and isinstance(v[2], tuple) and v[2][:2] == ('sub', cont)):
                        problems.append('%r stores %s, not container[key] %s value' % (op, show(v), op[:-1]))
                    elif not any(e.kind in ('inplace_op', 'aug_name') and e.op == op[:-1] for e in p.events):
                        problems.append(INPLACE_MSG % (op, op[:-1]))
                else:
                    problems.append('%r performs %d in-place updates and %d stores of the container' % (op, len(aug), len(st)))
            chk.require(not problems, R1, '%s [op=%r]' % (q, op), fi.where, '; '.join(sorted(set(problems))) or 'container[key] %s value' % op)

    # --------------------------------------------------------------------- R2
    for t, name, args in common.lowered_calls(chk):
        where = '%s:%d' % (C.grammar(F).module.rel, t.prod.line)
        cons = 'template %s -> %r' % (t.key, name)
        if name not in tab:
            chk.bad(R2, cons, where, 'the action emits a call of %r, which is not in the function table: every use raises "Undefined function"' % name)
            continue
        ent = tab[name]
        if not (isinstance(args, tuple) and args[:1] == ('list',)):
            if isinstance(args, tuple) and args[:1] == ('symlist',):
                n, variadic = 0, True
            else:
                chk.unrec(R2, cons, where, 'argument list %s not understood' % show(args))
                continue
        else:
            n = sum(1 for a in args[1:] if not (isinstance(a, tuple) and a[:1] == ('star',)))
            variadic = any(isinstance(a, tuple) and a[:1] == ('star',) for a in args[1:])
        lo, hi = _arity(F, ent)
        ok = (n >= lo or variadic) and (hi is None or n <= hi)
        chk.require(ok, R2, cons, where,
                    '%s accepts %s argument(s); the template passes %d%s' % (ent.descr(), '%d..%s' % (lo, hi if hi is not None else '*'), n, '+' if variadic else ''))

    list_literal_builder(chk, R2, tab)

    # --------------------------------------------------------------------- R3
    charge_rules(chk, R3, R3)
    _r4_r5(chk)
    _r6(chk)
    _r7(chk)
    _r8(chk)
    _r9(chk)


_TYPED = ('str', 'list', 'dict', 'bool', 'int', 'tuple', 'set', 'List', 'Dict', 'Tuple', 'Set', 'Iterable', 'Sequence', 'Mapping',
          'Callable', 'Iterator', 'Collection')


def _r12_truth(chk: Check) -> None:
    """None, 0, "", [] and {} are five different values of the language, and all of them are false.  Outside the constructs whose
    meaning *is* the truth value (and / or / not / if-else) a decision about a program value is a comparison or an isinstance
    test; a bare truth test there treats a zero or an empty container like a missing value."""
    F = chk.facts
    R12 = chk.rule('C07.R12', 'values are told apart by comparison, not by truthiness: outside and / or / not / if-else no eval method '
                              'branches on the truth value of a child\'s result, and no table function branches on the truth value of '
                              'an argument of unknown type (or filters with filter(None, ...))', floor=10)
    chk.decided += ['no truthiness decisions about program values outside the logical operators (R12)']
    g = C.grammar(F)
    lm = C.lexmodel(F)
    T = C.templates(F)
    # the class of the conditional expression: built by the production that spells `if` and `else`
    cond_classes = set()
    for t in T.all():
        texts = [next(iter(lm.token_texts.get(s_) or {''})) if lm.token_texts.get(s_) and len(lm.token_texts[s_]) == 1 else (
            'if' if lm.reserved.get('if') == s_ else 'else' if lm.reserved.get('else') == s_ else None) for s_ in t.prod.rhs]
        if 'if' in texts and 'else' in texts and isinstance(t.result, tuple) and t.result[:1] == ('new',):
            cond_classes.add(t.result[1])

    def strip_not(c):
        c = freeze(c)
        while isinstance(c, tuple) and c[:1] == ('not',):
            c = c[1]
        return c
    n = 0
    for cls in om.op_classes(F):
        if not om.own_eval(F, cls) or cls == om.ROOT or cls in cond_classes:
            continue
        q = cls + '.eval'
        selft = ('param', om.self_param(F, q))
        specs = om.op_specs(F, cls)
        bad = {}
        for op in (specs or [None]):
            if op in ('and', 'or', 'not'):
                continue
            for p in (om.eval_paths(F, cls, op) if op is not None else om.eval_paths(F, cls)):
                for e in p.events:
                    if e.kind != 'assume':
                        continue
                    c = strip_not(e.cond)
                    if isinstance(c, tuple) and c[:1] == ('call',) and isinstance(c[2], tuple) and c[2][:1] == ('attr',) and c[2][2] == om.EVAL \
                            and om.base_field(c[2][1], selft) is not None:
                        bad['`%s`' % e.text()] = (op, e.line)
        n += 1
        chk.require(not bad, R12, q, F.func(q).where,
                    '; '.join('%s%s branches on the truth value of a child\'s result: 0, "", [] and {} are taken for a missing value' % (
                        k, ' [op=%r]' % v[0] if v[0] else '') for k, v in sorted(bad.items())[:3]) or 'no truth test on the result of a child evaluation')
    tab = functab.table(F)
    for key in sorted(tab):
        ent = tab[key]
        if ent.kind != 'fn':
            continue
        fi = ent.funcinfo(F)
        if fi is None or not isinstance(fi.node, ast.FunctionDef):
            continue
        ann = {}
        a_ = fi.node.args
        for x in a_.posonlyargs + a_.args + a_.kwonlyargs:
            txt = ast.unparse(x.annotation) if x.annotation is not None else ''
            ann[x.arg] = bool(txt) and 'Any' not in txt and any(t_ in txt for t_ in _TYPED)
        var = a_.vararg.arg if a_.vararg else None
        bad = {}
        try:
            paths = SymExec(F, fi).run()
        except AnalysisError:
            continue
        for p in paths:
            for e in p.events:
                if e.kind == 'assume':
                    c = strip_not(e.cond)
                    if isinstance(c, tuple) and c[:1] == ('param',) and isinstance(c[1], str):
                        nm = c[1].lstrip('*')
                        if nm == var or ann.get(nm, False) or nm not in ann:
                            continue
                        bad['`%s`' % e.text()] = 'the argument %s (no type that would make truthiness an emptiness test)' % nm
                    elif isinstance(c, tuple) and c[:1] == ('sub',) and isinstance(c[1], tuple) and c[1][:1] == ('param',) and var and c[1][1].lstrip('*') == var:
                        bad['`%s`' % e.text()] = 'an element of *%s' % var
                elif e.kind == 'call':
                    f = freeze(e.func)
                    if f == ('ref', 'builtin', 'filter') and e.args and freeze(e.args[0]) == ('const', None) and len(e.args) == 2 \
                            and any(om.mentions(freeze(e.args[1]), ('param', x_)) for x_ in list(ann) + (['*' + var] if var else [])):
                        bad['`%s`' % e.text()] = 'every element (filter(None, ...) drops 0, "", [] and {} along with None)'
        n += 1
        chk.require(not bad, R12, ent.label, fi.where,
                    '; '.join('%s decides by the truth value of %s' % kv for kv in sorted(bad.items())[:3]) or 'no truth test on an argument of unknown type')


def node_transparency(chk: Check, R7: str, kinds=('call', 'name')) -> None:
    """A call node returns what the callee returned, a name node what the scoped names hold."""
    F = chk.facts
    n = 0
    for cls in om.op_classes(F):
        if cls == om.ROOT or not om.own_eval(F, cls):
            continue
        q = cls + '.eval'
        selft, stt = ('param', om.self_param(F, q)), ('param', om.state_param(F, q))
        names = ('attr', stt, 'names')
        problems = []
        kind = None
        n_paths = 0
        for p in om.eval_paths(F, cls):
            if not p.normal:
                continue
            dyn = [e for e in p.events if e.kind == 'call' and isinstance(freeze(e.func), tuple) and freeze(e.func)[:1] == ('sub',)
                   and freeze(e.func)[1] == names]
            loads = [e for e in p.events if e.kind == 'load_sub' and freeze(e.obj) == names]
            stores = [e for e in p.events if e.kind in ('store_sub', 'aug_sub') and freeze(e.obj) == names]
            ret = p.outcome[1]
            if dyn:
                kind = 'call'
                n_paths += 1
                if A.strip_ids(ret) != A.strip_ids(freeze(dyn[-1].result)):
                    problems.append('returns %s, not the result of `%s` itself' % (show(ret), dyn[-1].text()))
            elif loads and not stores and not child_events(F, p, selft, stt):
                kind = kind or 'name'
                n_paths += 1
                want = ('sub', names, freeze(loads[-1].index))
                if ret != want:
                    problems.append('returns %s, not the value `%s` found' % (show(ret), loads[-1].text()))
        if kind is None or kind not in kinds:
            continue
        n += 1
        chk.require(not problems, R7, '%s (%s node)' % (q, kind), F.func(q).where, '; '.join(sorted(set(problems))[:3]) or
                    '%d returning path(s) hand the %s on unchanged' % (n_paths, 'callee\'s result' if kind == 'call' else 'looked-up value'))
    if n == 0:
        raise AnalysisError('anchor vanished: no node class calls or looks up through the scoped names')


def _r7(chk: Check) -> None:
    """Values pass through the evaluator unchanged: what a callee returned and what a name is bound to are the results of
    the call node and of the name node - not a converted, copied or normalised version of them."""
    F = chk.facts
    R10 = chk.rule('C07.R10', 'positional parameters, one binding per call (= C10.R5): every call of a lambda binds its arguments in a '
                              'dict made for that call and pushed around the body - a frame shared between calls is rebound by a '
                              'recursive or nested call of the same lambda', floor=1)
    R11 = chk.rule('C07.R11', 'key-to-string dict cast and decimal-to-integer index cast (= C14.R1): every keyed accessor and the dict '
                              'literal use str(key) on dicts and int(key) for Decimal positions, computed from the key of this call '
                              '(not looked up in a memo keyed by ==)', floor=4)
    chk.decided += ['lambda parameters are bound per call (R10)', 'the key casts of the reference semantics, on every keyed path (R11)']
    from .c10 import _r5 as lambda_frames
    from .c14 import key_cast_agreement
    lambda_frames(chk, R10)
    key_cast_agreement(chk, R11)
    _r12_truth(chk)
    R7 = chk.rule('C07.R7', 'value transparency: a call node returns exactly what the callee returned, a name node exactly the '
                            'value found in the scoped names (no conversion, copy or normalisation on the way out)', floor=2)
    chk.decided += ['results of calls and name lookups are handed on unchanged (R7)']
    node_transparency(chk, R7)
    # ... and out of the interpreter: eval hands the host the value of the program, not a re-formatted one
    q = 'smartquery.sq_parser.SqParser.eval'
    fi = F.func(q)
    problems = []
    n_ret = 0
    for p in SymExec(F, fi).run():
        if not p.normal:
            continue
        evs = [e for e in p.events if e.kind == 'call' and e.resolved is None and isinstance(freeze(e.func), tuple)
               and freeze(e.func)[:1] == ('attr',) and freeze(e.func)[2] == om.EVAL]
        ret = p.outcome[1]
        if not evs:
            if ret != ('const', None):
                problems.append('without evaluating a tree eval returns %s' % show(ret))
            continue
        n_ret += 1
        if A.strip_ids(ret) != A.strip_ids(freeze(evs[-1].result)):
            problems.append('eval returns %s, not the value `%s` produced' % (show(ret), evs[-1].text()))
    chk.require(not problems and n_ret, R7, q, fi.where, '; '.join(sorted(set(problems))[:3]) or
                '%d returning path(s): the value of the program is returned as it is' % n_ret)


def list_literal_builder(chk: Check, R2: str, tab) -> None:
    F = chk.facts
    # the list literal `[e1, ..., en]` is lowered to a call of a table function with the elements as arguments: whatever that
    # function is, it must return exactly those arguments as a list, for every n - a builder that looks at what its single
    # argument is (list(x) converting a container) turns [[1, 2]] into [1, 2]
    lm_ = C.lexmodel(F)
    builders = set()
    for t, name, args in common.lowered_calls(chk):
        if t.prod.rhs and lm_.token_texts.get(t.prod.rhs[0]) == {'['} and lm_.token_texts.get(t.prod.rhs[-1]) == {']'} \
                and t.prod.rhs[0] not in C.grammar(F).nonterminals and len(t.prod.rhs) <= 4 and name in tab:
            builders.add(name)
    for name in sorted(builders):
        ent = tab[name]
        fi_b = ent.funcinfo(F)
        where_b = '%s:%d' % (F.modules[functab.FUNCS_MOD].rel, ent.line)
        if fi_b is None:
            chk.bad(R2, 'list literal builder FUNCTIONS[%r]' % name, where_b,
                    'list literals are lowered to %s, which does not build the list of its arguments' % ent.descr())
            continue
        va = getattr(fi_b.node.args, 'vararg', None)
        problems_b = []
        if va is None or fi_b.node.args.args:
            problems_b.append('the builder does not take its elements as *args')
        else:
            for k in range(0, 4):
                params_k = tuple(('param', 'e%d' % i) for i in range(k))
                for p in SymExec(F, fi_b, args={va.arg: ('tuple',) + params_k}).run():
                    if not p.normal:
                        problems_b.append('with %d element(s) a path raises %s' % (k, show(p.outcome[1])))
                    elif A.strip_ids(p.outcome[1]) != ('list',) + params_k:
                        problems_b.append('with %d element(s) the literal evaluates to %s, not to the list of its elements' % (k, show(p.outcome[1])))
        chk.require(not problems_b, R2, 'list literal builder FUNCTIONS[%r]' % name, where_b,
                    '; '.join(sorted(set(problems_b))[:3]) or 'returns its arguments as a list for every number of elements (0..3 checked, no branch on them)')


def _program_supplied(f) -> bool:
    """The callee term is rooted in a parameter (the scoped names of the state, a callback argument) - not in a table of the
    package itself (OPERATORS.get(self.op) picks one of the package's own functions)."""
    root = f
    while isinstance(root, tuple) and root and root[0] in ('attr', 'sub', 'elem', 'unpack', 'withas', 'phi'):
        root = root[3] if root[0] == 'phi' else root[1]
    if isinstance(root, tuple) and root[:1] == ('call',) and len(root) > 2:
        g = root[2]
        if isinstance(g, tuple) and g[:1] == ('attr',):
            return _program_supplied(g[1])
        return False
    return isinstance(root, tuple) and root[:1] in (('param',), ('closure',))


def _r8(chk: Check) -> None:
    """Errors pass through the evaluator unchanged: an exception raised inside a function the program calls, or inside the
    evaluation of a child node, reaches the caller as it is.  A try block whose handler converts or swallows exceptions must
    not have such a call in its body - the handler written for the lookup next to it would re-label the callee's own errors."""
    F = chk.facts
    R8 = chk.rule('C07.R8', 'error transparency: no call of a program-supplied function and no child evaluation sits in the body of a '
                            'try block whose handler converts or swallows what it catches (only handlers that re-raise unchanged)', floor=2)
    chk.decided += ['errors raised by callees and child evaluations are not re-labelled by handlers meant for a neighbouring lookup (R8)']
    from .c02 import classify_callee, entry_units

    def converting(h: ast.ExceptHandler) -> bool:
        # anything but cleanup followed by a bare `raise`
        return not (h.body and isinstance(h.body[-1], ast.Raise) and h.body[-1].exc is None)
    n = 0
    for label, fi, _ in entry_units(chk):
        if fi.qual.startswith('smartquery.sq_parser.') or '.t_' in label or '.p_' in label or 'ScopedDict' in label:
            continue
        try:
            paths = SymExec(F, fi).run()
        except AnalysisError:
            continue
        is_eval = fi.qual.endswith('.' + om.EVAL) and fi.cls is not None
        selft = stt = None
        if is_eval:
            selft, stt = ('param', om.self_param(F, fi.qual)), ('param', om.state_param(F, fi.qual))
        problems = []
        seen = 0
        for p in paths:
            for e in p.events:
                if e.kind != 'call':
                    continue
                what = None
                if is_eval and om.is_child_eval(e, selft, stt):
                    what = 'the child evaluation `%s`' % e.text()
                else:
                    verdict, _d = classify_callee(F, e)
                    if e.d.get('closure') is not None and e.d.get('inlined'):
                        continue        # a thunk of the package's own, run here: what its body calls is judged call by call
                    if verdict == 'dynamic' and _program_supplied(freeze(e.func)):
                        what = 'the call `%s` of a function the program supplies' % e.text()
                if what is None:
                    continue
                seen += 1
                for c in (e.d.get('handlers') or []):
                    if c[0] != 'try':
                        continue
                    for types, h in c[2]:
                        if isinstance(h, ast.ExceptHandler) and converting(h):
                            tn = ', '.join(t[1].rsplit('.', 1)[-1] for t in types)
                            problems.append('%s sits in the body of `try ... except %s` (line %d): a %s raised inside the callee is '
                                            'caught there and comes out as something else' % (what, tn, getattr(h, 'lineno', 0), tn))
        if not seen:
            continue
        n += 1
        chk.require(not problems, R8, label, fi.where, '; '.join(sorted(set(problems))[:2]) or
                    '%d call(s) of program functions / child evaluations, none inside a converting handler' % seen)
    # a context manager of the package whose __exit__ returns a truthy value swallows whatever leaves its with-block
    for q_, wh_, ret_ in common.suppressing_exits(F):
        chk.bad(R8, q_ + ' returns ' + ret_, wh_, '__exit__ returns %s: when that is truthy the exception leaving the with-block (an error of the '
                'callee, the ops-limit error) is dropped and the block\'s statement completes as if nothing had happened' % ret_)
    if n == 0:
        raise AnalysisError('anchor vanished: no unit calls a program-supplied function or evaluates a child')


def _r9(chk: Check) -> None:
    """Python's sort is stable and sorted(..., reverse=True) keeps elements with equal keys in their original order; an
    ascending sort that is flipped afterwards (list.reverse(), reversed(), [::-1]) reverses them.  Descending order therefore
    has to come from the reverse= option of the sort itself."""
    F = chk.facts
    R9 = chk.rule('C07.R9', 'descending order comes from the sort itself: the result of sorted() / list.sort() is never flipped '
                            'afterwards (reverse=True keeps equal elements in input order, a flipped ascending sort does not)', floor=1)
    chk.decided += ['sort stability under reverse (R9)']
    tab = functab.table(F)
    n = 0
    for key in sorted(tab):
        ent = tab[key]
        fi = ent.funcinfo(F)
        if fi is None:
            continue
        try:
            paths = SymExec(F, fi).run()
        except AnalysisError:
            continue
        problems = []
        sorts = 0
        for p in paths:
            sorted_terms = []
            for e in p.events:
                if e.kind != 'call':
                    continue
                f = freeze(e.func)
                if f == ('ref', 'builtin', 'sorted'):
                    sorts += 1
                    sorted_terms.append(A.strip_ids(freeze(e.result)))
                    continue
                if isinstance(f, tuple) and f[:1] == ('attr',) and f[2] == 'sort':
                    sorts += 1
                    sorted_terms.append(A.strip_ids(f[1]))
                    continue
                if not sorted_terms:
                    continue
                if isinstance(f, tuple) and f[:1] == ('attr',) and f[2] == 'reverse' and A.strip_ids(f[1]) in sorted_terms:
                    problems.append('`%s` flips the sorted list' % e.text())
                if f == ('ref', 'builtin', 'reversed') and e.args and A.strip_ids(freeze(e.args[0])) in sorted_terms:
                    problems.append('`%s` flips the sorted list' % e.text())
            for e in p.events:
                if e.kind == 'load_sub' and sorted_terms and A.strip_ids(freeze(e.obj)) in sorted_terms:
                    ix = freeze(e.index)
                    if isinstance(ix, tuple) and ix[:1] == ('slice',) and len(ix) >= 4 and is_const(ix[3]) and isinstance(ix[3][1], int) and ix[3][1] < 0:
                        problems.append('`%s` reads the sorted list backwards' % e.text())
        if not sorts:
            continue
        n += 1
        chk.require(not problems, R9, ent.label, '%s:%d' % (F.modules[functab.FUNCS_MOD].rel, ent.line),
                    '; '.join(sorted(set(problems))) + ': elements with equal keys come out in reversed order' if problems else
                    '%d sort call(s); the result is not flipped afterwards' % sorts)
    if n == 0:
        raise AnalysisError('anchor vanished: no function-table entry sorts')


def _r6(chk: Check) -> None:
    """Slice bounds: an omitted bound (None) stays None, every other bound is truncated with int(); the choice is made by an
    identity test against None, never by truthiness (0 is a bound)."""
    F = chk.facts
    R6 = chk.rule('C07.R6', 'slice bounds: the slice node passes None for a bound exactly when the evaluated bound is None '
                            '(identity test, not truthiness) and int(bound) otherwise', floor=1)
    SLICE = ('ref', 'builtin', 'slice')
    INT = {('ref', 'builtin', 'int'), ('ref', 'ext', 'math.trunc'), ('ref', 'ext', 'operator.index')}
    found = 0
    for cls in om.op_classes(F):
        q = cls + '.eval'
        if q not in F.functions:
            continue
        paths = [p for p in om.eval_paths(F, cls) if p.normal]
        rets = [p for p in paths if isinstance(p.outcome[1], tuple) and p.outcome[1][:1] == ('call',) and p.outcome[1][2] == SLICE]
        if not rets:
            continue
        found += 1
        selft, stt = ('param', om.self_param(F, q)), ('param', om.state_param(F, q))
        problems = []
        combos = set()
        for p in rets:
            args = p.outcome[1][3]
            kids = [freeze(c[2].result) for c in child_events(F, p, selft, stt) if c[2].kind == 'call']
            if len(args) != len(kids) or p.outcome[1][4]:
                problems.append('slice(%s) is built from %d evaluated bounds' % (', '.join(show(a) for a in args), len(kids)))
                continue
            isnone = {}
            for c, v, _ in p.assumptions:
                for i, k in enumerate(kids):
                    if om.mentions(c, k):
                        if isinstance(c, tuple) and c[:2] == ('cmp', 'is') and {c[2], c[3]} == {k, ('const', None)}:
                            isnone[i] = v
                        else:
                            problems.append('bound %d is tested with `%s` (only `is None` distinguishes an omitted bound: 0 and '
                                            'other falsy values are bounds)' % (i, show(c)))
            for i, (a, k) in enumerate(zip(args, kids)):
                sa = A.strip_ids(a)
                conv = isinstance(sa, tuple) and sa[:1] == ('call',) and sa[2] in INT and sa[3] == (A.strip_ids(k),) and not sa[4]
                if isnone.get(i) is True:
                    if a != ('const', None) and a != k:
                        problems.append('bound %d is None but slice() receives %s' % (i, show(a)))
                elif isnone.get(i) is False:
                    if not conv:
                        problems.append('bound %d is not None and slice() receives %s, not int(<bound>)' % (i, show(a)))
                else:
                    problems.append('bound %d reaches slice() as %s without an `is None` test' % (i, show(a)))
            combos.add(tuple(sorted(isnone.items())))
        n = max((len(p.outcome[1][3]) for p in rets), default=0)
        if not problems and len(combos) < 2 ** n:
            problems.append('only %d of the %d None/non-None combinations of the bounds return' % (len(combos), 2 ** n))
        chk.require(not problems, R6, q, F.func(q).where, '; '.join(sorted(set(problems))[:4]) or
                    '%d bounds, %d combinations: None stays None, everything else goes through int()' % (n, len(combos)))
    if not found:
        raise AnalysisError('anchor vanished: no node class returns slice(...)')
    # ... and the bounds sit in the slots they were written in: `a[x::y]` has an empty middle slot.  The productions of the slice
    # non-terminal say which slots are filled; the tree must put each written bound into the field of its slot and a None
    # literal (or the field's None default) into the others
    g = C.grammar(F)
    lm = C.lexmodel(F)
    T = C.templates(F)
    colon = {s_ for s_, tx in lm.token_texts.items() if tx == {':'}}
    slice_classes = set()
    for cls in om.op_classes(F):
        if (cls + '.eval') in F.functions and any(isinstance(p.outcome[1], tuple) and p.outcome[1][:1] == ('call',) and p.outcome[1][2] == SLICE
                                                  for p in om.eval_paths(F, cls) if p.normal):
            slice_classes.add(cls)

    def is_none_node(v):
        if isinstance(v, tuple) and v[:1] == ('default',):
            return True
        if isinstance(v, tuple) and v[:1] == ('new',):
            return any(fv == ('const', None) for _fn, fv in v[2]) and len(v[2]) == 1
        return v == ('const', None)
    for t in T.all():
        if not t.inlined or t.raises is not None:
            continue
        for pos, pi in t.inlined:
            sp = g.productions[pi]
            if not any(s_ in colon for s_ in sp.rhs):
                continue
            slots, cur = [], None
            for j, s_ in enumerate(sp.rhs, 1):
                if s_ in colon:
                    slots.append(cur)
                    cur = None
                else:
                    cur = '%s.%d' % (pos, j)
            slots.append(cur)
            for cls, flds in A.new_nodes(A.strip_ids(t.result)):
                if cls not in slice_classes:
                    continue
                fvals = [fv for _fn, fv in flds]
                problems = []
                for k, want in enumerate(slots):
                    got = fvals[k] if k < len(fvals) else ('default',)
                    if want is None:
                        if not is_none_node(got):
                            problems.append('slot %d is empty in `%s` but the node receives %s there' % (k + 1, sp, show(got)))
                    elif not (isinstance(got, tuple) and got[:1] == ('sym',) and got[1] == want):
                        problems.append('slot %d of `%s` holds $%s but the node receives %s there' % (k + 1, sp, want, show(got)))
                for k in range(len(slots), len(fvals)):
                    if not is_none_node(fvals[k]):
                        problems.append('`%s` has %d slot(s) but field %d of the node receives %s' % (sp, len(slots), k + 1, show(fvals[k])))
                chk.require(not problems, R6, 'slots of ' + t.key, '%s:%d' % (g.module.rel, t.prod.line),
                            '; '.join(problems[:2]) or 'every written bound in the field of its slot, None elsewhere')


def _r4_r5(chk: Check) -> None:
    """Two more clauses of the reference semantics that are code shape: string-on-the-left coercion of `+`, and
    statements yield None / a program yields the value of its last line."""
    F = chk.facts
    R4 = chk.rule('C07.R4', 'string-on-the-left concatenation coercion: `+` converts its right operand with str() exactly when the '
                            'left operand is a string and the right one is not; no other operand is converted', floor=1)
    R5 = chk.rule('C07.R5', 'statements yield None and a program yields its last line: name assignment and compound assignment '
                            'return None; the statement-list node returns the value of the last statement evaluated (None when empty)', floor=3)
    T = C.templates(F)
    STR = ('ref', 'builtin', 'str')
    # the class built for `expression PLUS expression`
    plus_cls = None
    for t in T.all():
        if t.raises is None and isinstance(t.result, tuple) and t.result[:1] == ('new',) and dict(t.result[2]).get('op') == ('const', '+'):
            plus_cls = t.result[1]
    if plus_cls is None:
        raise AnalysisError('anchor vanished: no production building a node with op "+"')
    q = plus_cls + '.eval'
    selft, stt = ('param', om.self_param(F, q)), ('param', om.state_param(F, q))
    kinds = om.op_field_kinds(F, plus_cls)
    f1, f2 = [f for f, k in kinds.items() if k == 'op'][:2]
    problems = []
    seen_coercion = False
    for p in om.eval_paths(F, plus_cls, '+'):
        if not p.normal:
            continue
        res = {c[0]: freeze(c[2].result) for c in child_events(F, p, selft, stt) if c[2].kind == 'call'}
        a, b = res.get(f1), res.get(f2)
        ret = p.outcome[1]
        if not (isinstance(ret, tuple) and ret[:2] == ('binop', '+')):
            continue
        a_str = b_str = None
        for c, v, _ in p.assumptions:
            if isinstance(c, tuple) and c[:2] == ('pcall', 'isinstance') and c[2][1] == STR:
                if c[2][0] == a:
                    a_str = v
                if c[2][0] == b:
                    b_str = v
        left_conv = ret[2] != a
        right_conv = ret[3] != b
        if left_conv:
            problems.append('the left operand is converted (%s)' % show(ret[2]))
        if a_str is True and b_str is False:
            seen_coercion = True
            want = ('call', 0, STR, (A.strip_ids(b),), ())
            if A.strip_ids(ret[3]) != want:
                problems.append('string + non-string adds %s, not str(<right operand>)' % show(ret[3]))
        elif right_conv:
            problems.append('the right operand is converted (%s) although the left one is %s and the right one is %s' % (
                show(ret[3]), {True: 'a string', False: 'not a string', None: 'of unknown type'}[a_str],
                {True: 'a string', False: 'not a string', None: 'of unknown type'}[b_str]))
    if not seen_coercion:
        problems.append('no path converts the right operand when the left one is a string and the right one is not '
                        '("n=" + 5 raises TypeError instead of giving "n=5")')
    chk.require(not problems, R4, q + " [op='+']", F.func(q).where, '; '.join(sorted(set(problems))) or 'str + non-str -> str + str(right); nothing else is converted')

    # R5: statements
    for fm in common.assignment_forms(chk):
        if fm['target'] != 'op':
            continue
        cls = fm['cls']
        ops = [None]
        if fm['op_field']:
            from .c12 import common_ops
            ops = common_ops(chk, fm)
        bad = []
        for op in ops:
            for p in om.eval_paths(F, cls, op, field=fm['op_field'] or 'op'):
                if p.normal and p.outcome[1] != ('const', None):
                    bad.append('returns %s' % show(p.outcome[1]))
        chk.require(not bad, R5, cls + '.eval yields None', F.func(cls + '.eval').where, '; '.join(sorted(set(bad))) or 'every normal path returns None')
    # the statement-list node: the class stored into the parser's ast slot
    code_cls = None
    for t in T.all():
        for e in t.events:
            if e.kind == 'store_attr' and isinstance(freeze(e.value), tuple) and freeze(e.value)[:1] == ('new',) \
                    and not (isinstance(freeze(e.obj), tuple) and freeze(e.obj)[:1] in (('new',), ('obj',))):
                # (a store into the parser's own objects - not a constructor filling the node it builds)
                code_cls = freeze(e.value)[1]
    if code_cls is None:
        raise AnalysisError('anchor vanished: no grammar action stores the statement-list node')
    q = code_cls + '.eval'
    selft, stt = ('param', om.self_param(F, q)), ('param', om.state_param(F, q))
    bad = []
    n = 0
    for p in om.eval_paths(F, code_cls):
        if not p.normal:
            continue
        n += 1
        ce = [c for c in child_events(F, p, selft, stt) if c[2].kind == 'call']
        if ce:
            last = freeze(ce[-1][2].result)
            ret_ = p.outcome[1]
            # results = [line.eval(state) for line in self.lines]; return results[-1] if results else None
            comp_ = ret_[1] if isinstance(ret_, tuple) and ret_[:1] == ('sub',) and len(ret_) == 3 and ret_[2] == ('const', -1) else None
            if isinstance(comp_, tuple) and comp_[:2] == ('comp', 'list') and comp_[2] == last and len(comp_[3]) == 1 and not comp_[3][0][2]:
                continue                # the last element of the list of all statement values, in order
            if ret_ == ('const', None) and any(isinstance(c, tuple) and c[:2] == ('comp', 'list') and c[2] == last and not v
                                               for c, v, _ in p.assumptions):
                continue                # ... and None when that list is empty
            if p.outcome[1] != freeze(ce[-1][2].result):
                bad.append('with statements present the program yields %s, not the value of the last statement' % show(p.outcome[1]))
        elif p.outcome[1] != ('const', None):
            bad.append('an empty program yields %s' % show(p.outcome[1]))
    chk.require(not bad and n, R5, q + ' yields the last line', F.func(q).where, '; '.join(sorted(set(bad))) or 'value of the last statement, None when empty')


def _arity(F, ent) -> Tuple[int, Optional[int]]:
    if ent.kind in ('fn', 'lambda'):
        a = ent.funcinfo(F).node.args
        n = len(a.posonlyargs) + len(a.args)
        lo = n - len(a.defaults)
        hi = None if a.vararg else n
        return (lo, hi)
    if ent.kind == 'builtin':
        return {'dict': (0, None), 'list': (0, 1), 'len': (1, 1), 'str': (0, 3), 'min': (1, None), 'max': (1, None)}.get(ent.target, (0, None))
    return (0, None)
