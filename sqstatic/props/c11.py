"""C11 -- history independence: every call depends only on its own arguments."""
from __future__ import annotations

import ast
from typing import Any, Dict, List, Optional, Set, Tuple

from ..facts import AnalysisError, norm, FuncInfo
from ..report import Check
from ..symexec import SymExec, freeze, show, Path, Event, is_const
from .. import opmodel as om
from .. import ctx as C
from . import common
from .c17 import MUTATORS, is_yacc_parse

PARSER = 'smartquery.sq_parser.SqParser'


def lexer_attr_uses(fn_node: ast.FunctionDef, how: str) -> Dict[str, Set[str]]:
    """Attributes of the shared lexer object used by a rule function / action / parser method.

    how: 'param.lexer' (t.lexer.X / p.lexer.X) or 'self.lex' (self.lex.X)
    -> {attr: {'load', 'store'}}
    """
    out: Dict[str, Set[str]] = {}
    first = fn_node.args.args[0].arg if fn_node.args.args else None
    for n in ast.walk(fn_node):
        if isinstance(n, ast.Attribute) and isinstance(n.value, ast.Attribute) and isinstance(n.value.value, ast.Name) \
                and n.value.value.id == first and n.value.attr == ('lexer' if how == 'param.lexer' else 'lex'):
            kind = 'store' if isinstance(n.ctx, (ast.Store, ast.Del)) else 'load'
            out.setdefault(n.attr, set()).add(kind)
    # augmented assignment reads as well
    for n in ast.walk(fn_node):
        if isinstance(n, ast.AugAssign) and isinstance(n.target, ast.Attribute):
            t = n.target
            if isinstance(t.value, ast.Attribute) and isinstance(t.value.value, ast.Name) and t.value.value.id == first:
                out.setdefault(t.attr, set()).update({'load', 'store'})
    return out


PLY_LEXER_API = {'input', 'token', 'clone', 'begin', 'push_state', 'pop_state', 'current_state', 'skip'}


def check(chk: Check) -> None:
    F = chk.facts
    _FACTS_FOR_PLY[0] = F
    R1 = chk.rule('C11.R1', 'inventory of state that survives a call: attributes stored on the parser, on the shared '
                            'lexer object (from parser methods, lexer rules and grammar actions) and module-level '
                            'objects mutated by functions', floor=3)
    R2 = chk.rule('C11.R2', 'reset dominates use: every lexer attribute that rules/actions read or update is assigned a '
                            'constant on every path of parse and list_names before the first call into PLY, and PLY '
                            'is given this call\'s own text and this parser\'s lexer', floor=4)
    R3 = chk.rule('C11.R3', 'results are not held in parser state: parse/eval/list_names store only constants on the '
                            'parser and its lexer', floor=3)
    R4 = chk.rule('C11.R4', 'fresh evaluation state per eval call (new ScopedDict, new VMState on every evaluating path)',
                  floor=1)
    R5 = chk.rule('C11.R5', 'evaluation state does not escape the call (= C01.R7)', floor=8)
    R6 = chk.rule('C11.R6', 'PLY re-initialises per parse: parseopt_notrack assigns fresh stacks before its loop, '
                            'Lexer.input assigns lexdata/lexpos/lexlen; the call site selects that variant', floor=1)
    chk.decided += ['complete inventory of cross-call state and reset-before-use for both lexing entry points (R1,R2)',
                    'no per-call data parked on the parser (R3)', 'fresh evaluation state (R4)', 'state escape (R5)',
                    'PLY run-time re-initialisation anchors (R6)']
    chk.not_decided += ['interleaving a partially consumed list_names generator with other calls on the same parser '
                        '(the generator shares the lexer by design)']
    chk.trusted += ['smartquery/ply run time beyond the anchors of R6']
    _lexer_state_is_reset(chk, R2)
    g = C.grammar(F)
    lm = C.lexmodel(F)

    # ---------------------------------------------------------------- R1: inventory
    inv: Dict[str, Dict[str, Set[str]]] = {}      # attr -> {'rules': {...}, 'actions': {...}, 'parser': {...}}
    rule_fns = [(r.name, r.func) for r in lm.spec.rules if r.func is not None]
    if lm.spec.error_func is not None:
        rule_fns.append(('error', lm.spec.error_func))
    if getattr(lm.spec, 'eof_func', None) is not None:
        rule_fns.append(('eof', lm.spec.eof_func))
    for name, node in rule_fns:
        for a, kinds in lexer_attr_uses(node, 'param.lexer').items():
            inv.setdefault(a, {}).setdefault('rules', set()).update(kinds)
    act_fns = list(g.funcs.items())
    if g.error_func and g.error_func in g.module.defs:
        act_fns.append((g.error_func, g.module.defs[g.error_func]))
    for name, node in act_fns:
        for a, kinds in lexer_attr_uses(node, 'param.lexer').items():
            inv.setdefault(a, {}).setdefault('actions', set()).update(kinds)
    pci = F.cls(PARSER)
    for mn, mnode in pci.methods.items():
        if mn == '__init__':
            continue
        for a, kinds in lexer_attr_uses(mnode, 'self.lex').items():
            if a in PLY_LEXER_API:
                continue
            inv.setdefault(a, {}).setdefault('parser', set()).update(kinds)
    for a in sorted(inv):
        who = ', '.join('%s: %s' % (k, '/'.join(sorted(v))) for k, v in sorted(inv[a].items()))
        chk.ok(R1, 'lexer.%s' % a, g.lexmodule.rel, 'persistent attribute of the shared lexer object (%s)' % who)
    # attributes of the parser object itself
    self_attrs: Dict[str, List[Tuple[str, int]]] = {}
    for mn, mnode in pci.methods.items():
        sp = mnode.args.args[0].arg if mnode.args.args else None
        for n in ast.walk(mnode):
            if isinstance(n, ast.Attribute) and isinstance(n.ctx, ast.Store) and isinstance(n.value, ast.Name) and n.value.id == sp:
                self_attrs.setdefault(n.attr, []).append((mn, n.lineno))
    for a, sites in sorted(self_attrs.items()):
        # (__setstate__ / __copy__ / __deepcopy__ build an object, like __init__: they run when a parser is unpickled or copied,
        # not during a parse / eval / list_names call)
        outside = [s for s in sites if s[0] not in ('__init__', '__setstate__', '__copy__', '__deepcopy__', '__new__', '__post_init__')]
        if outside and a in common.write_only_attrs(F):
            chk.ok(R1, 'parser.%s' % a, '%s:%d' % (pci.module.rel, sites[0][1]), 'written in %s, read by no code of the package except where it is shown to the host (property / repr / log line): a statistic, not state' % ', '.join(sorted({s[0] for s in outside})))
            continue
        chk.require(not outside, R1, 'parser.%s' % a, '%s:%d' % (pci.module.rel, sites[0][1]),
                    'assigned in __init__ only (configuration)' if not outside else
                    'assigned in %s: per-call data is parked on the parser object' % ', '.join(sorted({s[0] for s in outside})))
    # module-level state mutated by functions, mutable defaults
    glob = _module_state(chk)
    for cons, where, det in glob:
        chk.bad(R1, cons, where, det)
    if not glob:
        chk.ok(R1, 'module-level state', 'smartquery/*.py', 'no function rebinds or mutates a module-level object; no mutated mutable default')
    # memoisation caches are module-level state too.  A cache is transparent only if equal keys always mean equal results;
    # functools.lru_cache / cache compare keys with == and hash, under which 1, 1.0 and 1E+0 (or 20000 and 20000.00) are the
    # same key although their texts differ.  A memoised function whose result is built from the *text* of an argument
    # therefore returns what an earlier call with an equal, differently written number left in the cache.
    def audit_memo(q_, fi_, memo_text):
            params = {('param', a.arg) for a in fi_.node.args.args + fi_.node.args.kwonlyargs}
            textual = []
            mutable = []

            def scan(t):
                t = freeze(t)
                if isinstance(t, tuple) and t:
                    if t[0] == 'call' and t[2] in (('ref', 'builtin', 'str'), ('ref', 'builtin', 'repr'), ('ref', 'builtin', 'format')) \
                            and t[3] and t[3][0] in params:
                        textual.append(show(t))
                    if t[0] == 'fstr' and any(x in params or (isinstance(x, tuple) and x[:1] == ('fmt',) and x[1] in params) for x in t[1:]):
                        textual.append(show(t))
                    for x in t:
                        scan(x)
            for p in SymExec(F, FuncInfo(q_ + '.<undecorated>', fi_.module, ast.FunctionDef(
                    name=fi_.node.name, args=fi_.node.args, body=fi_.node.body, decorator_list=[], returns=None, type_comment=None,
                    lineno=fi_.node.lineno, col_offset=0, end_lineno=getattr(fi_.node, 'end_lineno', fi_.node.lineno), end_col_offset=0), cls=fi_.cls)).run():
                if p.normal:
                    scan(p.outcome[1])
                    # the argument object itself inside the result (ValueOp(value), [value], (value, 1)): the cache then hands out
                    # the object that an earlier, merely equal argument was wrapped in - Decimal('1.0') for a later Decimal('1')
                    def holds(t):
                        t = freeze(t)
                        if t in params:
                            return True
                        if isinstance(t, tuple) and t[:1] == ('new',) and len(t) > 2:
                            return any(holds(fv_) for _fn, fv_ in t[2])
                        if isinstance(t, tuple) and t[:1] in (('tuple',), ('list',), ('dict',), ('set',)):
                            return any(holds(x) for x in t[1:])
                        if isinstance(t, tuple) and t and isinstance(t[0], str) and t[0] not in ('call', 'cmp', 'not', 'binop', 'unop', 'pcall', 'attr', 'sub', 'const', 'ref'):
                            return False
                        if isinstance(t, tuple) and (not t or not isinstance(t[0], str)):
                            return any(holds(x) for x in t)
                        return False
                    if holds(p.outcome[1]):
                        textual.append('the result holds the argument object itself: %s' % show(p.outcome[1])[:80])
                    # a mutable result: every later call with equal arguments - from any parser, any names mapping - gets the very
                    # object an earlier caller may have changed (a list popped from, a lexer left in the middle of another text)
                    try:
                        from .c02 import Kinds
                        ks_ = Kinds(F, {a.arg for a in fi_.node.args.args + fi_.node.args.kwonlyargs})
                        kk_ = ks_.kind(p.outcome[1])
                    except Exception:
                        kk_ = 'unknown'
                    ot_ = freeze(p.outcome[1])

                    def ply_object(t):
                        if isinstance(t, tuple) and t[:1] == ('call',) and isinstance(t[2], tuple) and t[2][:1] == ('ref',) and \
                                isinstance(t[2][-1], str) and '.ply.' in t[2][-1]:
                            return True
                        return isinstance(t, tuple) and t[:1] in (('tuple',), ('list',)) and any(ply_object(x) for x in t[1:])
                    if kk_ in ('list', 'dict', 'set', 'other-object', 'iterator') or ply_object(ot_):
                        mutable.append('%s (%s)' % (show(p.outcome[1])[:70], 'a PLY lexer / parser object' if ply_object(ot_) else kk_))
                for e in p.events:
                    if e.kind == 'call':
                        scan(tuple(freeze(e.args)))
                        scan(freeze(e.func))
                    if e.kind in ('store_sub', 'store_attr'):
                        scan(freeze(e.value))
            if mutable:
                chk.bad(R1, '%s :: memoised (%s) returns a mutable object' % (q_, memo_text), fi_.where,
                        'the cache hands the same object to every caller: %s - what one call does to it (pop, push, lexing another '
                        'text) is what the next call finds' % '; '.join(sorted(set(mutable))[:2]))
            chk.require(not textual, R1, '%s :: memoised (%s)' % (q_, memo_text), fi_.where,
                        'the cache is keyed by == / hash, but the result depends on the text of an argument (%s): equal numbers written '
                        'differently (1 / 1.0, 20000 / 20000.00) share one entry, so a call returns what an earlier call left behind'
                        % ', '.join(sorted(set(textual))[:2]) if textual else
                        'memoised function of its arguments; no result depends on how an argument is spelled')
    MEMO = ('lru_cache', 'cache')
    for q_, fi_ in sorted(F.functions.items()):
        if '.ply' in fi_.module.name or not isinstance(fi_.node, ast.FunctionDef):
            continue
        def is_memo(d, m_=fi_.module):
            if isinstance(d, ast.Call):
                return norm(d.func).rsplit('.', 1)[-1] in MEMO
            if norm(d).rsplit('.', 1)[-1] in MEMO:
                return True
            # an alias made at module level: _cached = functools.lru_cache(maxsize=1024) ... @_cached
            if isinstance(d, ast.Name) and len(m_.assigns.get(d.id, [])) == 1 and m_.assigns[d.id][0] is not None:
                v0 = m_.assigns[d.id][0]
                return norm(v0.func if isinstance(v0, ast.Call) else v0).rsplit('.', 1)[-1] in MEMO
            return False
        memo = [d for d in fi_.node.decorator_list if is_memo(d)]
        if memo:
            audit_memo(q_, fi_, norm(memo[0]))
    # the same wrappers applied by hand at module level: NAME = lru_cache(maxsize=...)(f) / cache(f), f a builtin, a lambda or
    # a function of the package
    for m_ in F.modules.values():
        if '.ply' in m_.name:
            continue
        for var_, vals_ in sorted(m_.assigns.items()):
            for v_ in vals_:
                if not (isinstance(v_, ast.Call) and len(v_.args) == 1):
                    continue
                f_ = v_.func
                direct = not isinstance(f_, ast.Call) and norm(f_).rsplit('.', 1)[-1] in MEMO
                factory = isinstance(f_, ast.Call) and norm(f_.func).rsplit('.', 1)[-1] in MEMO
                if not (direct or factory):
                    continue
                inner = v_.args[0]
                r_ = F.resolve_expr(m_, inner) if not isinstance(inner, ast.Lambda) else ('lambda', None)
                label = '%s.%s' % (m_.name, var_)
                where_ = '%s:%d' % (m_.rel, v_.lineno)
                if r_[0] == 'builtin' and r_[1] in ('str', 'repr', 'format', 'ascii'):
                    chk.bad(R1, '%s :: memoised (%s)' % (label, norm(v_)), where_,
                            'the cache is keyed by == / hash, but %s() gives the text of its argument: equal numbers written differently '
                            '(1 / 1.0, 20000 / 20000.00) share one entry, so a call returns what an earlier call left behind' % r_[1])
                elif r_[0] == 'fn' and r_[1] in F.functions and isinstance(F.functions[r_[1]].node, ast.FunctionDef):
                    audit_memo(label, F.functions[r_[1]], norm(v_))
                elif isinstance(inner, ast.Lambda):
                    fn_ = ast.FunctionDef(name=var_, args=inner.args, body=[ast.Return(value=inner.body, lineno=inner.lineno, col_offset=0)],
                                          decorator_list=[], returns=None, type_comment=None, lineno=inner.lineno, col_offset=0,
                                          end_lineno=getattr(inner, 'end_lineno', inner.lineno), end_col_offset=0)
                    audit_memo(label, FuncInfo(label, m_, fn_), norm(v_))
                else:
                    chk.ok(R1, '%s :: memoised (%s)' % (label, norm(v_)), where_, 'memo around %s' % norm(inner))
    # process-wide state that lives outside the package: the thread's decimal context (precision, rounding, traps) is
    # shared by every later call on every parser
    from . import numeric as N
    N.context_untouched(chk, R1)

    # ---------------------------------------------------------------- R2
    need_rules = {a for a, d in inv.items() if 'rules' in d and 'load' in d['rules']}
    need_actions = {a for a, d in inv.items() if 'actions' in d and 'load' in d['actions']}
    for entry, need, what in ((PARSER + '.parse', need_rules | need_actions, 'parse'),
                              (PARSER + '.list_names', need_rules, 'list_names')):
        fi = F.func(entry)
        selft = ('param', om.self_param(F, entry))
        lex = common.lexer_term(F, selft)
        src = ('param', fi.node.args.args[1].arg)
        paths = SymExec(F, fi).run()
        missing: Dict[str, List[str]] = {a: [] for a in need}
        text_problems: List[str] = []
        n_ply = 0
        for p in paths:
            ply = [e for e in p.events if e.kind == 'call' and _is_ply_call(e, selft)]
            # rule functions and actions only run inside token() / parse(); input() merely stores the text
            runs = [e for e in ply if freeze(e.func)[2] in ('token', 'parse')]
            if not runs:
                continue
            n_ply += 1
            first = p.events.index(runs[0])
            reset = {}
            for e in p.events[:first]:
                if e.kind == 'store_attr' and freeze(e.obj) == lex:
                    reset[e.attr] = freeze(e.value)
            for a in need:
                if a not in reset:
                    missing[a].append('not assigned before `%s`' % runs[0].text())
                elif not is_const(reset[a]):
                    missing[a].append('assigned %s, which depends on earlier calls or arguments' % show(reset[a]))
            # the text handed to PLY
            if freeze(runs[0].func)[2] == 'token':
                fed = [e for e in p.events[:first] if e.kind == 'call' and _is_ply_call(e, selft) and freeze(e.func)[2] == 'input']
                if not fed:
                    text_problems.append('a path reaches `%s` without feeding the lexer this call\'s text: it lexes whatever '
                                         'an earlier call left behind' % runs[0].text())
            for e in ply:
                f = freeze(e.func)
                if f[2] == 'input' and f[1] == lex:
                    if freeze(e.args) != (src,):
                        text_problems.append('`%s` does not feed the lexer the text of this call' % e.text())
                if f[2] == 'parse':
                    kw = dict(freeze(e.kwargs))
                    inp = kw.get('input', freeze(e.args)[0] if e.args else None)
                    lx = kw.get('lexer', freeze(e.args)[1] if len(e.args) > 1 else None)
                    if inp != src:
                        text_problems.append('`%s` parses %s, not the text of this call' % (e.text(), show(inp) if inp else 'nothing'))
                    if lx != lex:
                        text_problems.append('`%s` does not use the lexer that was just reset' % e.text())
                    extra = set(kw) - {'input', 'lexer'}
                    if extra & {'debug', 'tracking'}:
                        chk.extra.setdefault('ply_variant', 'call site passes %s' % sorted(extra))
        if n_ply == 0:
            raise AnalysisError('%s never calls into PLY' % entry)
        for a in sorted(need):
            chk.require(not missing[a], R2, '%s resets lexer.%s' % (entry, a), fi.where,
                        '; '.join(sorted(set(missing[a]))) or 'assigned a constant before the first PLY call on all %d path(s)' % n_ply)
        chk.require(not text_problems, R2, '%s feeds PLY its own argument' % entry, fi.where,
                    '; '.join(sorted(set(text_problems))) or 'input = the source parameter, lexer = self.lex')

    # ---------------------------------------------------------------- R3
    for mn in ('parse', 'eval', 'list_names'):
        q = PARSER + '.' + mn
        fi = F.func(q)
        selft = ('param', om.self_param(F, q))
        problems = []
        for p in SymExec(F, fi).run():
            for e in p.events:
                if e.kind in ('store_attr', 'aug_attr') and om.carries(e.obj, selft):
                    if e.attr in common.write_only_attrs(F):
                        continue        # a counter nobody reads (statistics for the host): nothing later can depend on it
                    if any(om.carries(e.obj, ('attr', selft, a_)) for (cq_, a_) in common.statistics_objects(F) if cq_ == PARSER):
                        continue        # ... or a field of an object the parser only ever writes into
                    v = freeze(e.value)
                    if e.kind == 'aug_attr' or not is_const(v):
                        problems.append('`%s` keeps per-call data (%s) on the parser' % (e.text(), show(v)))
                if e.kind == 'call':
                    f = freeze(e.func)
                    if isinstance(f, tuple) and f and f[0] == 'attr' and f[2] in MUTATORS and om.carries(f[1], selft) \
                            and f[1] != ('attr', selft, 'parse_cache'):
                        problems.append('`%s` mutates an object held by the parser' % e.text())
                    # an object that lives on the parser handed to per-call machinery un-copied: whatever that machinery
                    # writes (top-level assignments, ast_names) survives the call
                    if e.depth() == 0 and not e.d.get('inlined') or e.d.get('ctor'):
                        for a in tuple(freeze(e.args)) + tuple(v for _, v in freeze(e.kwargs)):
                            if isinstance(a, tuple) and a[:2] == ('attr', selft) and a[2] not in ('lex', 'yacc', 'parse_cache'):
                                pure = isinstance(f, tuple) and f[:2] == ('ref', 'builtin') and f[2] in ('dict', 'list', 'len', 'isinstance', 'sorted', 'tuple', 'str', 'repr')
                                pure = pure or f in (('ref', 'ext', 'copy.copy'), ('ref', 'ext', 'copy.deepcopy'))
                                if not pure and e.depth() == 0:
                                    problems.append('`%s` hands self.%s, an object that outlives the call, to %s un-copied' % (e.text(), a[2], show(f)))
        chk.require(not problems, R3, q, fi.where, '; '.join(sorted(set(problems))) or 'stores constants only')

    # ---------------------------------------------------------------- R4
    q = PARSER + '.eval'
    fi = F.func(q)
    problems = []
    n_eval = 0
    for p in SymExec(F, fi).run():
        evals = [e for e in p.events if e.kind == 'call' and e.resolved is None and isinstance(freeze(e.func), tuple)
                 and freeze(e.func)[0] == 'attr' and freeze(e.func)[2] == 'eval']
        if not evals:
            continue
        n_eval += 1
        for cls in ('smartquery.scoped_dict.ScopedDict', 'smartquery.vm_state.VMState'):
            made = [e for e in p.events if e.kind == 'call' and e.d.get('ctor') and e.resolved == cls]
            if len(made) != 1:
                problems.append('%d %s objects constructed on an evaluating path' % (len(made), cls.rsplit('.', 1)[-1]))
    chk.require(not problems and n_eval, R4, q, fi.where, '; '.join(sorted(set(problems))) or
                'one new ScopedDict and one new VMState on each of %d evaluating paths' % n_eval)

    common.state_does_not_escape(chk, R5)
    _r6(chk, R6)


_FACTS_FOR_PLY = [None]


def _is_ply_call(e: Event, selft) -> bool:
    f = freeze(e.func)
    if not (isinstance(f, tuple) and f and f[0] == 'attr' and isinstance(f[1], tuple) and f[2] in ('input', 'token', 'parse')):
        return False
    if f[1][:2] == ('attr', selft) and f[1][2] in ('lex', 'yacc'):
        return True
    F_ = _FACTS_FOR_PLY[0] or common.CURRENT_FACTS[0]
    return F_ is not None and f[1] in (common.lexer_terms(F_, selft) + common.parser_terms(F_, selft))


def _module_state(chk: Check) -> List[Tuple[str, str, str]]:
    F = chk.facts
    out = []
    from .. import functab
    import_only = set()
    for mn in F.modules:
        if '.ply' not in mn:
            import_only.update(functab.import_time_only_writers(F, mn))
    for q, fi in sorted(F.functions.items()):
        if '.ply' in fi.module.name or fi.module.name.endswith('.repl'):
            continue
        if q in import_only or any(q.startswith(o + '.') for o in import_only):
            continue        # runs while the module is imported and never again: it builds the module's initial state
        if q in F.host_only_functions():
            continue        # configuration API no code of the package calls (set_x(...)): what the host sets there is configuration, not history
        for n in ast.walk(fi.node):
            if isinstance(n, ast.Global):
                out.append(('%s :: global %s' % (q, ', '.join(n.names)), '%s:%d' % (fi.module.rel, n.lineno),
                            'rebinds module-level name(s) %s: state that survives the call' % ', '.join(n.names)))
        # mutable defaults that are mutated
        a = fi.node.args
        defaults = dict(zip([x.arg for x in (a.posonlyargs + a.args)][-len(a.defaults):] if a.defaults else [], a.defaults))
        mutable_defaults = {n for n, d in defaults.items() if isinstance(d, (ast.List, ast.Dict, ast.Set, ast.Call))}
        try:
            paths = SymExec(F, fi).run()
        except AnalysisError:
            continue
        for p in paths:
            for e in p.events:
                tgt = None
                if e.kind in ('store_sub', 'aug_sub', 'del_sub', 'store_attr', 'aug_attr'):
                    tgt = freeze(e.obj)
                elif e.kind == 'call' and not e.d.get('inlined'):      # an inlined package method is judged by what its body does
                    f = freeze(e.func)
                    if isinstance(f, tuple) and f and f[0] == 'attr' and f[2] in MUTATORS:
                        tgt = f[1]
                    elif isinstance(f, tuple) and f[:2] == ('ref', 'ext'):
                        from .c13 import MUTATING_EXT
                        for i_ in MUTATING_EXT.get(f[2], ()):      # heapq.heappush(REGISTRY, x), random.shuffle(TABLE), bisect.insort(...)
                            if i_ < len(e.args):
                                a_ = freeze(e.args[i_])
                                r_ = a_
                                while isinstance(r_, tuple) and r_ and r_[0] in ('attr', 'sub'):
                                    r_ = r_[1]
                                if isinstance(r_, tuple) and r_[:2] == ('ref', 'modvar'):
                                    tgt = a_
                if tgt is None:
                    continue
                root = tgt
                while isinstance(root, tuple) and root and root[0] in ('attr', 'sub'):
                    root = root[1]
                if isinstance(root, tuple) and root[:2] == ('ref', 'modvar'):
                    out.append(('%s :: `%s`' % (q, e.text()), '%s:%d' % (fi.module.rel, e.line),
                                'mutates the module-level object %s: state that survives the call' % root[2]))
                if isinstance(root, tuple) and root[0] == 'param' and root[1] in mutable_defaults and e.depth() == 0:
                    out.append(('%s :: `%s`' % (q, e.text()), '%s:%d' % (fi.module.rel, e.line),
                                'mutates the mutable default of parameter `%s`: state that survives the call' % root[1]))
    # a one-shot iterator bound at module level (a generator expression, iter(...), map / filter / zip(...)) is state too: the
    # first function that loops over it empties it for every later call, on every parser
    ONE_SHOT = {'iter', 'map', 'filter', 'zip', 'reversed', 'enumerate'}
    for m in F.modules.values():
        if '.ply' in m.name or '.gen' in m.name:
            continue
        for var, vals in sorted(m.assigns.items()):
            for v in vals:
                shot = isinstance(v, ast.GeneratorExp) or (isinstance(v, ast.Call) and isinstance(v.func, ast.Name) and v.func.id in ONE_SHOT
                                                           and F.resolve_expr(m, v.func) == ('builtin', v.func.id))
                if not shot:
                    continue
                users = [q for q, fi in sorted(F.functions.items()) if fi.module is m and any(
                    isinstance(n, ast.Name) and n.id == var and isinstance(n.ctx, ast.Load) for n in ast.walk(fi.node))]
                if users:
                    out.append(('%s.%s :: one-shot iterator read by %s' % (m.name, var, users[0]), '%s:%d' % (m.rel, v.lineno),
                                '`%s = %s` is an iterator, not a sequence: the first call that loops over it exhausts it, every later call '
                                '(any parser, any names) sees it empty' % (var, norm(v)[:80])))
    seen = set()
    res = []
    for x in out:
        if x[0] not in seen:
            seen.add(x[0])
            res.append(x)
    return res


def _r6(chk: Check, R6: str) -> None:
    F = chk.facts
    ym = F.modules.get('smartquery.ply.yacc')
    lmod = F.modules.get('smartquery.ply.lex')
    if ym is None or lmod is None:
        raise AnalysisError('anchor vanished: vendored ply modules')

    def find(mod, cls, fn):
        for n in mod.tree.body:
            if isinstance(n, ast.ClassDef) and n.name == cls:
                for s in n.body:
                    if isinstance(s, ast.FunctionDef) and s.name == fn:
                        return s
        return None
    pn = find(ym, 'LRParser', 'parseopt_notrack')
    if pn is None:
        raise AnalysisError('anchor vanished: ply.yacc.LRParser.parseopt_notrack')
    # assignments before the first `while`
    assigned = set()
    for st in pn.body:
        if isinstance(st, ast.While):
            break
        for n in ast.walk(st):
            if isinstance(n, ast.Assign):
                for t in n.targets:
                    if isinstance(t, ast.Name):
                        assigned.add(t.id)
                    if isinstance(t, ast.Attribute) and isinstance(t.value, ast.Name) and t.value.id == 'self':
                        assigned.add('self.' + t.attr)
    need = {'statestack', 'symstack', 'errorcount', 'lookahead', 'self.statestack', 'self.symstack'}
    miss = need - assigned
    chk.require(not miss, R6, 'ply.yacc.LRParser.parseopt_notrack', '%s:%d' % (ym.rel, pn.lineno),
                'not re-initialised before the parse loop: %s' % ', '.join(sorted(miss)) if miss else
                'stacks, error count and look-ahead assigned afresh before the loop')
    # dispatch: parse() picks parseopt_notrack when debug/tracking are off
    pf = find(ym, 'LRParser', 'parse')
    ok = pf is not None and any(isinstance(n, ast.Attribute) and n.attr == 'parseopt_notrack' for n in ast.walk(pf))
    chk.require(ok, R6, 'ply.yacc.LRParser.parse dispatch', '%s:%d' % (ym.rel, pf.lineno if pf else 0),
                'parse() dispatches to parseopt_notrack' if ok else 'parse() no longer dispatches to parseopt_notrack')
    li = find(lmod, 'Lexer', 'input')
    if li is None:
        raise AnalysisError('anchor vanished: ply.lex.Lexer.input')
    assigned = {t.attr for n in ast.walk(li) if isinstance(n, ast.Assign) for t in n.targets
                if isinstance(t, ast.Attribute) and isinstance(t.value, ast.Name) and t.value.id == 'self'}
    miss = {'lexdata', 'lexpos', 'lexlen'} - assigned
    chk.require(not miss, R6, 'ply.lex.Lexer.input', '%s:%d' % (lmod.rel, li.lineno),
                'Lexer.input does not assign %s' % ', '.join(sorted(miss)) if miss else 'assigns lexdata, lexpos, lexlen')
    # call site
    q = PARSER + '.parse'
    fi = F.func(q)
    selft = ('param', om.self_param(F, q))
    bad = []
    for p in SymExec(F, fi).run():
        for e in p.events:
            if is_yacc_parse(e, selft):
                kw = dict(freeze(e.kwargs))
                for k in ('debug', 'tracking'):
                    if k in kw and kw[k] not in (('const', False), ('const', 0), ('const', None)):
                        bad.append('%s=%s' % (k, show(kw[k])))
                if len(e.args) > 2:
                    bad.append('positional debug/tracking arguments')
    chk.require(not bad, R6, q + ' :: yacc.parse call site', fi.where,
                'selects a different PLY parse variant: %s' % ', '.join(bad) if bad else 'debug/tracking off -> parseopt_notrack')


def _lexer_state_is_reset(chk: Check, R2: str) -> None:
    """PLY keeps the current lexer state (begin / push_state / pop_state) on the lexer object; input() does not touch it.  When
    token rules switch states, every entry point has to put the lexer back into INITIAL before lexing, or a call that stops
    inside another state (unterminated construct, error) decides how the next text is read.  Decided from the source of the
    lexer module alone, before the lexer model (which does not model states) is built."""
    F = chk.facts
    from ..grammar import parser_modules
    _, lex_m, _ = parser_modules(F)
    switches = []
    for n in ast.walk(lex_m.tree):
        if isinstance(n, ast.Call) and isinstance(n.func, ast.Attribute) and n.func.attr in ('begin', 'push_state', 'pop_state'):
            switches.append(n)
    if not switches and 'states' not in lex_m.assigns:
        return
    for mn in ('parse', 'list_names'):
        q = PARSER + '.' + mn
        fi = F.func(q)
        selft = ('param', om.self_param(F, q))
        problems = []
        for p in SymExec(F, fi).run():
            runs = [e for e in p.events if e.kind == 'call' and _is_ply_call(e, selft) and freeze(e.func)[2] in ('token', 'parse')]
            if not runs:
                continue
            first = p.events.index(runs[0])
            resets = [e for e in p.events[:first] if e.kind == 'call' and isinstance(freeze(e.func), tuple) and freeze(e.func)[:1] == ('attr',)
                      and freeze(e.func)[2] == 'begin' and freeze(e.args)[:1] == (('const', 'INITIAL'),)]
            if not resets:
                problems.append('a path reaches `%s` without `begin(\'INITIAL\')`' % runs[0].text())
        chk.require(not problems, R2, '%s resets the lexer state' % q, fi.where,
                    ('token rules switch lexer states (`%s`); %s: the state an earlier call stopped in decides how this text is '
                     'read' % (norm(switches[0]) if switches else 'states = ...', '; '.join(sorted(set(problems))))) if problems else
                    'the lexer is put back into INITIAL before lexing')
