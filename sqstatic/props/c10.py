"""C10 -- scoping: innermost-first lookup, host write-back, no leaking lambda scopes."""
from __future__ import annotations

import ast
from typing import Any, List, Optional, Tuple

from ..facts import AnalysisError, norm, FuncInfo
from ..report import Check
from ..symexec import SymExec, freeze, show, Path, Event, closure_paths, ListVal, DictVal
from .. import opmodel as om
from .. import functab
from . import common

SD = 'smartquery.scoped_dict.ScopedDict'
PARSER = 'smartquery.sq_parser.SqParser'
FUNCS = ('ref', 'modvar', 'smartquery.functions.FUNCTIONS')


def scope_list_attr(F) -> str:
    """Name of the attribute holding the scope stack (set by __init__ to [initial scope])."""
    for mn in ('__init__', '__post_init__'):
        q = SD + '.' + mn
        if q not in F.functions:
            continue
        fi = F.func(q)
        for p in SymExec(F, fi).run():
            for e in p.events:
                if e.kind == 'store_attr' and freeze(e.obj) == ('param', om.self_param(F, q)):
                    v = freeze(e.value)
                    if isinstance(v, tuple) and v and v[0] == 'list' and len(v) == 2 and v[1][0] == 'param':
                        return e.attr
    raise AnalysisError('%s: cannot find the scope-stack attribute (expected self.<x> = [initial_scope] in __init__ / __post_init__)' % SD)


def is_copy_of_functions(t) -> Optional[bool]:
    """True: fresh copy of FUNCTIONS; False: FUNCTIONS itself / something else holding it; None: unrelated."""
    t = freeze(t)
    if t == FUNCS:
        return False
    if isinstance(t, tuple) and t:
        if t[0] == 'dict' and ('dstar', FUNCS) in t[1:]:
            return True
        if t[0] == 'call':
            f, args = t[2], t[3]
            if f in (('ref', 'builtin', 'dict'), ('ref', 'ext', 'copy.copy'), ('ref', 'ext', 'copy.deepcopy')) and args and args[0] == FUNCS:
                return True
            if f == ('attr', FUNCS, 'copy') and not args:
                return True
        if t[0] == 'comp' and t[1] == 'dict' and om.mentions(t, FUNCS):
            return True
    return None


def check(chk: Check) -> None:
    F = chk.facts
    R1 = chk.rule('C10.R1', 'lookup walks the scope stack from its last (innermost) element to its first and returns the '
                            'first hit, raising a LookupError otherwise; writes go to the top scope only', floor=2)
    R2 = chk.rule('C10.R2', 'push/pop pairing on all exits: every pushed scope is popped in a finally block that covers '
                            'everything after the push; make_scope is only used as a with-context', floor=2)
    R3 = chk.rule('C10.R3', 'stack layout in SqParser.eval: [fresh copy of FUNCTIONS, the caller\'s names mapping itself '
                            '({} when None)] in that order', floor=2)
    R4 = chk.rule('C10.R4', 'the builtin table is never modified: no write to FUNCTIONS anywhere, never handed out un-copied',
                  floor=1)
    R5 = chk.rule('C10.R5', 'lambda scopes are local and transient: parameters are bound in a fresh dict pushed through '
                            'make_scope around the body evaluation, never written into an existing scope', floor=1)
    R6 = chk.rule('C10.R6', 'a lambda called from a later eval must not resolve names in the earlier call\'s scope stack '
                            '(= C01.R7, state escape)', floor=8)
    chk.decided += ['lookup order and write target (R1)', 'push/pop typestate incl. exceptional exits (R2)',
                    'builtins below host names, host mapping by identity (R3)', 'FUNCTIONS immutable (R4)',
                    'lambda parameter scopes (R5)', 'cross-call scope capture (R6)']
    F.cls(SD)
    try:
        scopes = scope_list_attr(F)
    except AnalysisError:
        # the stack is not kept as a list attribute (collections.ChainMap, linked frames, ...): the class is then judged
        # through its own interface - a stack built by ScopedDict(S0), push_scope(S1), push_scope(S2) on three symbolic scopes
        scopes = None
        chk.extra['scope_stack_representation'] = 'not a list attribute: judged through the class interface (constructor, push_scope, pop_scope)'

    # --------------------------------------------------------------------- R1
    # The lookup methods are evaluated on a stack of three distinct symbolic scopes [S0, S1, S2] (S2 innermost): whatever
    # way the walk is written (reversed(), [::-1], index loops, helpers), the outcomes must be the decision list
    #   key in S2 -> S2[key];  else key in S1 -> S1[key];  else key in S0 -> S0[key];  else LookupError.
    S = [('new', '<scope S%d>' % i, (), 990000 + i) for i in range(3)]      # three distinct objects created before the call
    if scopes is None:
        S = [('param', 'S%d' % i) for i in range(3)]
        sd_mod = F.cls(SD).module
        sd_name = SD.rsplit('.', 1)[-1]

        def driver(body: str) -> FuncInfo:
            src_ = 'def __c10_driver__(S0, S1, S2, key, dflt, val):\n    sd = %s(S0)\n    sd.push_scope(S1)\n    sd.push_scope(S2)\n%s' % (sd_name, body)
            return FuncInfo(sd_mod.name + '.__c10_driver__', sd_mod, ast.parse(src_).body[0])
    for mn in ('__getitem__', 'get', '__contains__'):
        q = SD + '.' + mn
        if q not in F.functions:
            if mn == '__getitem__':
                raise AnalysisError('anchor vanished: %s' % q)
            continue
        fi = F.func(q)
        selft = ('param', om.self_param(F, q))
        keyp = ('param', fi.node.args.args[1].arg)
        dflt = ('param', fi.node.args.args[2].arg) if mn == 'get' and len(fi.node.args.args) > 2 else ('const', None)
        stack = ListVal(list(S), 987654)
        problems = []
        seen = set()
        if scopes is None:
            keyp = ('param', 'key')
            dflt = ('param', 'dflt') if mn == 'get' and len(fi.node.args.args) > 2 else ('const', None)
            call_ = {'__getitem__': 'sd.__getitem__(key)', 'get': 'sd.get(key, dflt)' if dflt != ('const', None) else 'sd.get(key)',
                     '__contains__': 'sd.__contains__(key)'}[mn]
            lookup_paths = SymExec(F, driver('    return %s\n' % call_)).run()
        else:
            lookup_paths = SymExec(F, fi, overrides={('attr', selft, scopes): stack}).run()
        for p in lookup_paths:
            know = {}
            other = []
            for c, v, _ in p.assumptions:
                if isinstance(c, tuple) and c[:3] == ('cmp', 'in', keyp) and c[3] in S:
                    know[S.index(c[3])] = v
                elif om.mentions(c, keyp) or any(om.mentions(c, x) for x in S):
                    other.append(c)
            # a failed `scope[key]` caught by a LookupError handler says the same as `key not in scope`
            for e in p.events:
                if e.kind == 'exc_edge' and all(t in (('builtin', 'KeyError'), ('builtin', 'LookupError')) for t in e.d.get('types', ())):
                    for o, ix in e.d.get('subs', ()):
                        if o in S and ix == keyp:
                            know.setdefault(S.index(o), False)
            if other:
                problems.append('the walk also branches on `%s`' % show(other[0]))
                continue
            hit = [i for i in (2, 1, 0) if know.get(i) is True]
            first = None
            for i in (2, 1, 0):
                if i not in know:
                    break
                if know[i]:
                    first = i
                    break
            else:
                first = -1          # all three tested, none holds the key
            where_ = ', '.join('key %s S%d' % ('in' if know[i] else 'not in', i) for i in sorted(know, reverse=True)) or 'no test'
            if p.outcome[0] == 'return':
                ret = p.outcome[1]
                if mn == '__contains__':
                    want = ('const', first is not None and first >= 0)
                    ok = first is not None and ret == want
                elif first == -1:
                    ok = mn == 'get' and ret == dflt
                else:
                    ok = first is not None and ret == ('sub', S[first], keyp)
                if not ok:
                    if hit and (first is None or first not in hit) and mn != '__contains__':
                        problems.append('with %s the method returns %s: an outer scope is consulted before an inner one '
                                        '(builtins would shadow host names, host names would shadow parameters)' % (where_, show(ret)))
                    else:
                        problems.append('with %s the method returns %s' % (where_, show(ret)))
                seen.add(first)
            elif p.outcome[0] == 'raise':
                cls = _exc_builtin(F, p.outcome[1])
                if first != -1 or mn != '__getitem__':
                    problems.append('with %s the method raises %s' % (where_, show(p.outcome[1])))
                elif cls is None or not issubclass(cls, LookupError):
                    problems.append('a missing name raises %s, which is not a LookupError (NameOp/CallOp convert LookupError only)' % show(p.outcome[1]))
                seen.add(first)
        for want_, what in ((2, 'a hit in the innermost scope'), (1, 'a hit in the middle scope'), (0, 'a hit in the outermost scope'),
                            (-1, 'a miss in all scopes')):
            if want_ not in seen and not problems:
                problems.append('no path handles %s' % what)
        chk.require(not problems, R1, q, fi.where, '; '.join(sorted(set(problems))[:4]) or
                    'on a three-scope stack: innermost first, first hit wins, %s on a miss' % (
                        {'__getitem__': 'LookupError', 'get': 'the default', '__contains__': 'False'}[mn]))

    q = SD + '.__setitem__'
    fi = F.func(q)
    selft = ('param', om.self_param(F, q))
    stack = ('attr', selft, scopes)
    kp, vp = ('param', fi.node.args.args[1].arg), ('param', fi.node.args.args[2].arg)
    problems = []
    if scopes is None:
        # through the interface: a write on the three-scope stack stores into S2 (the innermost) and nowhere else; after
        # push + pop the stack is what it was (a lookup consults S0, S1 only)
        for p in SymExec(F, driver('    sd.__setitem__(key, val)\n')).run():
            st = [e for e in p.events if e.kind in ('store_sub', 'aug_sub') and freeze(e.obj) in S]
            if p.normal and len(st) != 1:
                problems.append('%d stores into the scopes on one path' % len(st))
            for e in st:
                if freeze(e.obj) != S[2]:
                    problems.append('`%s` writes into %s, not into the innermost scope' % (e.text(), show(e.obj)))
                elif freeze(e.index) != ('param', 'key') or freeze(e.value) != ('param', 'val'):
                    problems.append('`%s` does not store the given value under the given key' % e.text())
        chk.require(not problems, R1, q, fi.where, '; '.join(sorted(set(problems))) or 'stores into the innermost scope only (interface run)')
        problems = []
        n_ok = 0
        for p in SymExec(F, driver('    sd.pop_scope()\n    return sd.__getitem__(key)\n')).run():
            tested = [c[3] for c, v, _ in p.assumptions if isinstance(c, tuple) and c[:3] == ('cmp', 'in', ('param', 'key')) and c[3] in S]
            tested += [o for e in p.events if e.kind == 'exc_edge' for o, ix in e.d.get('subs', ()) if o in S]
            if S[2] in tested or (p.outcome[0] == 'return' and om.mentions(p.outcome[1], S[2])):
                problems.append('after pop_scope() the popped scope is still consulted')
            if p.outcome[0] == 'return' and p.outcome[1] == ('sub', S[1], ('param', 'key')):
                n_ok += 1
        chk.require(not problems and n_ok, R1, SD + '.pop_scope', F.func(SD + '.pop_scope').where if (SD + '.pop_scope') in F.functions else fi.where,
                    '; '.join(sorted(set(problems))) or ('pop_scope removes the innermost scope: afterwards S1 is the first scope consulted'
                                                         if n_ok else 'after pop_scope() no path finds the key in the scope below'))
    for p in (SymExec(F, fi).run() if scopes is not None else []):
        st = [e for e in p.events if e.kind in ('store_sub', 'aug_sub')]
        if p.normal and len(st) != 1:
            problems.append('%d stores on one path' % len(st))
        for e in st:
            if freeze(e.obj) != ('sub', stack, ('const', -1)):
                problems.append('`%s` writes into %s, not into the top scope' % (e.text(), show(e.obj)))
            elif freeze(e.index) != kp or freeze(e.value) != vp:
                problems.append('`%s` does not store the given value under the given key' % e.text())
    if scopes is not None:
        chk.require(not problems, R1, q, fi.where, '; '.join(sorted(set(problems))) or 'stores into %s[-1] only' % scopes)
    # no other method writes a non-top scope
    for mn, mnode in F.cls(SD).methods.items():
        if mn in ('__setitem__', '__init__', '__post_init__') or scopes is None:
            continue
        fq = SD + '.' + mn
        selft2 = ('param', om.self_param(F, fq)) if mnode.args.args else None
        for p in SymExec(F, F.func(fq)).run():
            for e in p.events:
                if e.kind in ('store_sub', 'aug_sub', 'del_sub') and selft2 and om.mentions(freeze(e.obj), ('attr', selft2, scopes)):
                    o = freeze(e.obj)
                    if o != ('sub', ('attr', selft2, scopes), ('const', -1)):
                        chk.bad(R1, fq + ' :: `%s`' % e.text(), '%s:%d' % (F.func(fq).module.rel, e.line),
                                'writes into a scope that is not the top one')
                # folding the scopes with an in-place operator (reduce(operator.ior, scopes) without an initial value) updates the
                # first of them: the host's mapping receives the bindings of every frame above it
                if e.kind == 'call' and selft2 and freeze(e.func) == ('ref', 'ext', 'functools.reduce') and 2 <= len(e.args) <= 2:
                    f0, xs = freeze(e.args[0]), freeze(e.args[1])
                    if isinstance(f0, tuple) and f0[:2] == ('ref', 'ext') and f0[2].startswith('operator.i') and f0[2] not in (
                            'operator.index', 'operator.inv', 'operator.invert', 'operator.is_', 'operator.is_not', 'operator.itemgetter') \
                            and om.mentions(xs, ('attr', selft2, scopes)):
                        chk.bad(R1, fq + ' :: `%s`' % e.text(), '%s:%d' % (F.func(fq).module.rel, e.line),
                                '%s updates its left operand in place and reduce() without an initial value starts with the first scope: that '
                                'scope (the host mapping, when the builtins are left out) receives the bindings of all the others' % f0[2])

    _r2(chk, R2, scopes)
    _r3(chk, R3)
    _r4(chk, R4)
    _r5(chk, R5)
    common.state_does_not_escape(chk, R6)


def _exc_builtin(F, t):
    import builtins
    t = freeze(t)
    if isinstance(t, tuple) and t and t[0] == 'call' and isinstance(t[2], tuple) and t[2][:2] == ('ref', 'builtin'):
        c = getattr(builtins, t[2][2], None)
        return c if isinstance(c, type) else None
    if isinstance(t, tuple) and t and t[0] == 'ref' and t[1] == 'builtin':
        c = getattr(builtins, t[2], None)
        return c if isinstance(c, type) else None
    if isinstance(t, tuple) and t and t[0] == 'new':
        for b in F.ext_bases(t[1]):
            c = getattr(builtins, b, None)
            if isinstance(c, type):
                return c
    return None


def iteration_order(it, stack) -> Optional[str]:
    it = freeze(it)
    if it == stack:
        return 'forward'
    if isinstance(it, tuple) and it:
        if it[0] == 'call' and it[2] == ('ref', 'builtin', 'reversed') and it[3] == (stack,):
            return 'reversed'
        if it[0] == 'sub' and it[1] == stack and it[2] == ('slice', ('const', None), ('const', None), ('const', -1)):
            return 'reversed'
        if it[0] == 'call' and it[2] in (('ref', 'builtin', 'list'), ('ref', 'builtin', 'tuple'), ('ref', 'builtin', 'iter')) and len(it[3]) == 1:
            return iteration_order(it[3][0], stack)
        if it[0] == 'call' and it[2] == ('ref', 'builtin', 'range'):
            a = it[3]
            n = ('pcall', 'len', (stack,))
            if len(a) == 1 and a[0] == n:
                return 'forward'
            if len(a) == 3 and a[0] == ('binop', '-', n, ('const', 1)) and a[1] == ('const', -1) and a[2] == ('const', -1):
                return 'index-down'
        if it[0] == 'call' and it[2] == ('ref', 'builtin', 'enumerate') and it[3] and it[3][0] == stack:
            return 'forward'
    return None


# ------------------------------------------------------------------------ R2
def _declared_in_base(q: str) -> bool:
    """q is a method of a package class the scope-stack class derives from (an ABC / Protocol it implements)."""
    F = common.CURRENT_FACTS[0]
    if F is None:
        return False
    cq = q.rsplit('.', 1)[0]
    return cq != SD and cq in F.mro(SD)


def _is_push(e: Event, scopes: str) -> Optional[Any]:
    """The stack object a call pushes onto, if it is a push."""
    if e.kind != 'call':
        return None
    if e.resolved == SD + '.push_scope' and (not e.d.get('inlined') or scopes is None):
        f = freeze(e.func)
        return f[1] if f[0] == 'attr' else None
    if e.resolved and e.resolved.endswith('.push_scope') and _declared_in_base(e.resolved):
        f = freeze(e.func)          # the abstract push of an interface the scope stack implements (template method in the base)
        return f[1] if f[0] == 'attr' else None
    if scopes is None:
        return None
    f = freeze(e.func)
    if e.resolved is None and isinstance(f, tuple) and f and f[0] == 'attr' and f[2] == 'push_scope':
        return f[1]         # receiver of unknown static type: the method name is unique to the scope stack
    if isinstance(f, tuple) and f and f[0] == 'attr' and f[2] == 'append' and isinstance(f[1], tuple) and f[1][0] == 'attr' and f[1][2] == scopes:
        return f[1][1]
    return None


def _is_pop(e: Event, scopes: str) -> Optional[Any]:
    if e.kind != 'call':
        return None
    if e.resolved == SD + '.pop_scope' and (not e.d.get('inlined') or scopes is None):
        f = freeze(e.func)
        return f[1] if f[0] == 'attr' else None
    if scopes is None:
        return None
    f = freeze(e.func)
    if e.resolved is None and isinstance(f, tuple) and f and f[0] == 'attr' and f[2] == 'pop_scope':
        return f[1]
    if e.resolved and e.resolved.endswith('.pop_scope') and _declared_in_base(e.resolved) and isinstance(f, tuple) and f[:1] == ('attr',):
        return f[1]
    if isinstance(f, tuple) and f and f[0] == 'attr' and f[2] == 'pop' and isinstance(f[1], tuple) and f[1][0] == 'attr' and f[1][2] == scopes \
            and (not e.args or freeze(e.args) == (('const', -1),)):
        return f[1][1]
    return None


def _r2(chk: Check, R2: str, scopes: str) -> None:
    F = chk.facts
    setup_fn = PARSER + '.eval'
    units: List[Tuple[str, FuncInfo, List[Path]]] = []
    for q, fi in sorted(F.functions.items()):
        if '.ply' in fi.module.name or q in (SD + '.push_scope', SD + '.pop_scope', SD + '.__init__', SD + '.__post_init__'):
            continue
        src = ast.dump(fi.node)
        if 'push_scope' not in src and (scopes is None or scopes not in src) and 'pop_scope' not in src and q != SD + '.make_scope':
            continue
        units.append((q, fi, SymExec(F, fi).run()))
        for c in om.all_closures(units[-1][2]):
            if True:
                if 'push_scope' in ast.dump(c.node):
                    units.append((c.qual, fi, closure_paths(F, fi, c)))
    # context-manager classes: __enter__ pushes, __exit__ pops; the pair is checked as a pair and the with-sites (where the
    # evaluator runs both around the body) are checked like explicit push/try/finally code
    cm_methods = {}
    for cq, ci in F.classes.items():
        if '.ply' in ci.module.name:
            continue
        en, ex = F.find_method(cq, '__enter__'), F.find_method(cq, '__exit__')
        if en and ex and en in F.functions and ex in F.functions:
            cm_methods[en] = ('enter', cq)
            cm_methods[ex] = ('exit', cq)
    cm_push_classes = set()
    for q, fi, paths in units:
        if q not in cm_methods:
            continue
        role, cq = cm_methods[q]
        counts = set()
        for p in paths:
            if not p.normal:
                continue
            n = sum(1 for e in p.events if (_is_push if role == 'enter' else _is_pop)(e, scopes) is not None)
            counts.add(n)
        other = [e for p in paths for e in p.events if (_is_pop if role == 'enter' else _is_push)(e, scopes) is not None]
        if role == 'enter' and counts and counts != {0}:
            cm_push_classes.add(cq)
        if counts == {0} and not other:
            continue
        # a path that does not return normally is acceptable only if the push / pop itself was reached (it is the stack
        # operation that failed, e.g. pop on an empty stack), never one that left before
        attempted = all(p.normal or any((_is_push if role == 'enter' else _is_pop)(e, scopes) is not None for e in p.events) for p in paths)
        good = counts == {1} and not other and attempted
        chk.require(good, R2, q, fi.where, ('__enter__ pushes exactly one scope on every path' if role == 'enter' else
                                             '__exit__ pops exactly one scope on every path, unconditionally') if good else
                    '%s of a context manager %s (per path: %s)%s' % (
                        '__enter__' if role == 'enter' else '__exit__', 'must push exactly once' if role == 'enter' else 'must pop exactly once',
                        sorted(counts), '; it also %s' % ('pops' if role == 'enter' else 'pushes') if other else ''))
    for q, fi, paths in units:
        if q in cm_methods:
            continue
        problems = []
        n_push = 0
        for p in paths:
            evs = p.events
            for i, e in enumerate(evs):
                obj = _is_push(e, scopes)
                if obj is None:
                    continue
                n_push += 1
                if q == setup_fn:
                    continue
                # find the pop in a finally whose try starts right after the push
                pops = [(j, x) for j, x in enumerate(evs) if j > i and _is_pop(x, scopes) == obj and x.in_ctx('finally')]
                if not pops:
                    anyp = [x for x in evs[i + 1:] if _is_pop(x, scopes) == obj]
                    problems.append('`%s` is %s: the scope stays on the stack when the body raises' % (
                        e.text(), 'popped outside a finally block' if anyp else 'never popped'))
                    continue
                j, pe = pops[0]
                tnode = pe.in_ctx('finally')[-1][1]
                if any(x.kind == 'assume' and x.in_ctx('finally') and x.in_ctx('finally')[-1][1] is tnode for x in evs[i:j]):
                    problems.append('the pop in the finally block is conditional')
                for x in evs[i + 1:j]:
                    if x.kind in ('call', 'load_sub', 'yield', 'store_sub', 'aug_sub', 'del_sub', 'raise') and not x.d.get('inlined'):
                        covered = any(c[0] == 'try' and c[1] is tnode for c in x.ctx) or \
                            any(c[0] == 'finally' and c[1] is tnode for c in x.ctx)
                        inner_push = e.eid in [c[1] for c in x.in_ctx('inline')]
                        fx_ = freeze(x.func) if x.kind == 'call' else None
                        harmless = x.kind == 'call' and isinstance(fx_, tuple) and fx_[:2] == ('ref', 'builtin') and fx_[2] in ('len', 'max', 'min', 'id', 'type') \
                            and all(om.carries(a_, ('attr', ('param', om.self_param(F, q) if q in F.functions and F.functions[q].cls else ''), scopes)) or
                                    (isinstance(a_, tuple) and a_[:1] in (('const',), ('pcall',), ('attr',))) for a_ in freeze(x.args))
                        # (len / max of the scope list and of numbers kept on the object: a depth statistic; none of these can raise)
                        if not covered and not inner_push and not harmless:
                            problems.append('`%s` runs between the push and the try/finally that pops: if it raises, '
                                            'the scope is never popped' % x.text())
                more = [x for x in evs[j + 1:] if _is_pop(x, scopes) == obj]
                if more:
                    problems.append('the scope is popped twice on one path')
        if n_push == 0 and q != SD + '.make_scope':
            continue
        if q == SD + '.make_scope':
            decos = [F.resolve_expr(fi.module, d) for d in fi.node.decorator_list]
            returned = {freeze(p.outcome[1])[1] if isinstance(freeze(p.outcome[1]), tuple) and freeze(p.outcome[1])[:1] == ('new',) else None
                        for p in paths if p.normal and p.outcome[0] == 'return'}
            if ('ext', 'contextlib.contextmanager') in decos:
                if n_push == 0:
                    problems.append('make_scope pushes nothing')
                for p in paths:
                    ys = [e for e in p.events if e.kind == 'yield']
                    if len(ys) != 1:
                        problems.append('make_scope yields %d times' % len(ys))
            elif returned and None not in returned and returned <= cm_push_classes:
                pass        # returns a context-manager object whose __enter__/__exit__ push and pop (checked above)
            else:
                problems.append('make_scope is neither a contextlib.contextmanager generator nor does it return a package '
                                'context manager whose __enter__ pushes the scope')
        if q == setup_fn:
            chk.ok(R2, q + ' set-up pushes', fi.where, 'bottom/host scopes pushed once per eval call and never popped by design (checked by C10.R3)')
            continue
        chk.require(not problems, R2, q, fi.where, '; '.join(sorted(set(problems))) or
                    'push, then try/finally whose finally pops unconditionally')
    # make_scope only as a with-context
    for m in F.modules.values():
        if '.ply' in m.name:
            continue
        withs = set()
        for n in ast.walk(m.tree):
            if isinstance(n, (ast.With, ast.AsyncWith)):
                for it in n.items:
                    withs.add(it.context_expr)
        # a helper that only hands the context manager on (`return names.make_scope(b)`) is as good as the call itself when
        # every use of the helper, package-wide, is the context expression of a with statement
        returned_by: Dict[int, str] = {}
        method_names = {st_.name for c_ in ast.walk(m.tree) if isinstance(c_, ast.ClassDef) for st_ in c_.body if isinstance(st_, ast.FunctionDef)}
        for fn in ast.walk(m.tree):
            if isinstance(fn, ast.FunctionDef):
                for st_ in ast.walk(fn):
                    if isinstance(st_, ast.Return) and isinstance(st_.value, ast.Call) and isinstance(st_.value.func, ast.Attribute) \
                            and st_.value.func.attr == 'make_scope':
                        returned_by[id(st_.value)] = fn.name

        def wrapper_only_in_with(name: str) -> bool:
            uses = 0
            for m2 in F.modules.values():
                if '.ply' in m2.name:
                    continue
                w2 = set()
                calls2 = set()
                for n2 in ast.walk(m2.tree):
                    if isinstance(n2, (ast.With, ast.AsyncWith)):
                        for it in n2.items:
                            w2.add(id(it.context_expr))
                    if isinstance(n2, ast.Call):
                        calls2.add(id(n2.func))
                for n2 in ast.walk(m2.tree):
                    is_ref = (isinstance(n2, ast.Name) and n2.id == name and isinstance(n2.ctx, ast.Load) and name not in method_names) or \
                             (isinstance(n2, ast.Attribute) and n2.attr == name and isinstance(n2.ctx, ast.Load))
                    if not is_ref:
                        continue
                    if id(n2) not in calls2:
                        return False            # handed around as a value
                    uses += 1
                for n2 in ast.walk(m2.tree):
                    if isinstance(n2, ast.Call) and ((isinstance(n2.func, ast.Name) and n2.func.id == name) or
                                                     (isinstance(n2.func, ast.Attribute) and n2.func.attr == name)) and id(n2) not in w2:
                        return False
            return uses > 0
        for n in ast.walk(m.tree):
            if isinstance(n, ast.Call) and isinstance(n.func, ast.Attribute) and n.func.attr == 'make_scope':
                ok_ = n in withs
                via = ''
                if not ok_ and id(n) in returned_by and wrapper_only_in_with(returned_by[id(n)]):
                    ok_ = True
                    via = ' (returned by %s, which is only ever called as the context expression of a with statement)' % returned_by[id(n)]
                chk.require(ok_, R2, 'use of make_scope: `%s`' % norm(n), '%s:%d' % (m.rel, n.lineno),
                            'context expression of a with statement' + via if ok_ else
                            'make_scope(...) called outside a with statement: nothing enters/exits the scope')


# ------------------------------------------------------------------------ R3
def _r3(chk: Check, R3: str) -> None:
    F = chk.facts
    q = PARSER + '.eval'
    fi = F.func(q)
    names_p = ('param', 'names')
    if 'names' not in [a.arg for a in fi.node.args.args]:
        raise AnalysisError('%s has no `names` parameter' % q)
    problems_ctor, problems_push = [], []
    n_ctor = 0
    for p in SymExec(F, fi).run():
        ctors = [e for e in p.events if e.kind == 'call' and e.d.get('ctor') and e.resolved == SD]
        pushes = [e for e in p.events if e.kind == 'call' and e.resolved == SD + '.push_scope']
        if len(ctors) != 1:
            problems_ctor.append('%d ScopedDict objects are built on one path' % len(ctors))
            continue
        n_ctor += 1
        c = ctors[0]
        a0 = freeze(c.args)[0] if c.args else (dict(freeze(c.kwargs)).get('initial_scope'))
        k = is_copy_of_functions(a0)
        if k is False:
            problems_ctor.append('the bottom scope is FUNCTIONS itself, not a copy: a program assignment at top level '
                                 'with no host mapping, or a host write, would modify the shared builtin table')
        elif k is None:
            problems_ctor.append('the bottom scope is %s, not a copy of FUNCTIONS' % show(a0))
        sd = freeze(c.result)

        def same_object(t):
            # by construction id: what the object holds changes as scopes are pushed
            return t == sd or (isinstance(t, tuple) and isinstance(sd, tuple) and t[:2] == sd[:2] == ('new', SD) and len(t) > 3 and len(sd) > 3 and t[3] == sd[3])
        mine = [e for e in pushes if same_object(freeze(e.func)[1])]
        if len(mine) != 1:
            problems_push.append('%d scopes are pushed above the builtins (expected exactly the host mapping)' % len(mine))
            continue
        arg = freeze(mine[0].args)[0]
        none_assumed = [v for cnd, v, _ in p.assumptions if cnd == ('cmp', 'is', names_p, ('const', None))]
        truthy = [v for cnd, v, _ in p.assumptions if cnd == names_p]
        if arg == names_p:
            pass
        elif arg == ('dict',) and ((none_assumed and none_assumed[0]) or (truthy and not truthy[0])):
            if truthy and not truthy[0] and not none_assumed:
                problems_push.append('an empty host mapping is replaced by a fresh dict (`names or {}`): writes of the '
                                     'program are lost for an initially empty mapping')
        else:
            problems_push.append('the scope pushed above the builtins is %s, not the caller\'s names mapping itself '
                                 '(top-level assignments would not reach the host)' % show(arg))
        # the VM state must use this stack
        for e in p.events:
            if e.kind == 'call' and e.d.get('ctor') and e.resolved == 'smartquery.vm_state.VMState':
                nm = dict(freeze(e.result)[2]).get('names')
                same_obj = isinstance(nm, tuple) and isinstance(sd, tuple) and nm[:2] == sd[:2] == ('new', SD) and len(nm) > 3 and len(sd) > 3 \
                    and nm[3] == sd[3]                  # the object built above (by construction id), whatever it holds by now
                if nm != sd and not same_obj:
                    problems_push.append('the VM state is given %s as names, not the stack built here' % show(nm))
    chk.require(not problems_ctor and n_ctor, R3, q + ' :: ScopedDict(...)', fi.where,
                '; '.join(sorted(set(problems_ctor))) or 'bottom scope = fresh copy of FUNCTIONS')
    chk.require(not problems_push, R3, q + ' :: push_scope(names)', fi.where,
                '; '.join(sorted(set(problems_push))) or 'host mapping pushed by identity ({} only when None)')


# ------------------------------------------------------------------------ R4
def _r4(chk: Check, R4: str) -> None:
    F = chk.facts
    # positive self-test: the detector must see a write in a tiny example
    import types
    ex = ast.parse("from smartquery.functions import FUNCTIONS as T\nT['x'] = 1\nT.update({})\ndel T['y']\n")
    from ..facts import Module
    fake = Module(name='smartquery._example', path='<example>', src='', tree=ex, rel='<example>')
    fake.imports['T'] = 'smartquery.functions.FUNCTIONS'
    F.modules['smartquery._example'] = fake
    try:
        found = [w for w in functab.table_writes(F) if w[0] == '<example>']
    finally:
        del F.modules['smartquery._example']
    if len(found) != 3:
        raise AnalysisError('C10.R4 self-test: the FUNCTIONS-write detector found %d of 3 example writes' % len(found))
    writes = functab.table_writes(F)
    for rel, line, text in writes:
        chk.bad(R4, 'write to FUNCTIONS: `%s`' % text, '%s:%d' % (rel, line), 'the shared builtin table is modified')
    # un-copied hand-over
    handed = []
    for q, fi in sorted(F.functions.items()):
        if '.ply' in fi.module.name:
            continue
        if 'FUNCTIONS' not in ast.dump(fi.node):
            continue
        for p in SymExec(F, fi).run():
            for e in p.events:
                if e.kind == 'call' and not e.d.get('inlined'):
                    for a in tuple(freeze(e.args)) + tuple(v for _, v in freeze(e.kwargs)):
                        if a == FUNCS:
                            f = freeze(e.func)
                            if f in (('ref', 'builtin', 'dict'), ('ref', 'ext', 'copy.copy'), ('ref', 'ext', 'copy.deepcopy'),
                                     ('ref', 'builtin', 'len'), ('ref', 'builtin', 'list'), ('ref', 'builtin', 'sorted')):
                                continue
                            handed.append((q, e))
                if e.kind in ('store_attr', 'store_sub') and freeze(e.value) == FUNCS:
                    handed.append((q, e))
    for q, e in handed:
        chk.bad(R4, '%s :: `%s`' % (q, e.text()), '%s:%d' % (F.func(q).module.rel, e.line),
                'FUNCTIONS itself (not a copy) is handed out: whoever receives it can modify the shared table')
    if not writes and not handed:
        chk.ok(R4, 'FUNCTIONS', 'smartquery/functions.py', 'no write to the table anywhere in the package; only copied '
               '(detector self-test: 3/3 example writes found)')


# ------------------------------------------------------------------------ R5
def _r5(chk: Check, R5: str) -> None:
    F = chk.facts
    n = 0
    for owner, c, p in common.eval_closures(chk):
        if common.escapes(c, p) is None:
            continue
        n += 1
        fi = F.func(owner)
        selft = ('param', om.self_param(F, owner))
        stt = ('param', om.state_param(F, owner))
        problems = []
        for cp in closure_paths(F, fi, c):
            body = [e for e in cp.events if om.is_child_eval(e, selft, stt)]
            for e in cp.events:
                if e.kind in ('store_sub', 'aug_sub') and om.carries(e.obj, stt):
                    problems.append('`%s` binds a parameter by writing into the current top scope: it overwrites an outer/host '
                                    'binding of the same name and survives the call' % e.text())
            if not cp.normal and not body:
                continue
            for b in body:
                ws = b.in_ctx('with')
                ok = False
                for w in ws:
                    cm = w[1]
                    if isinstance(cm, tuple) and cm and cm[0] == 'call' and cm[2][0] == 'attr' and cm[2][2] == 'make_scope' \
                            and om.carries(cm[2][1], stt):
                        arg = cm[3][0] if cm[3] else None
                        pairs = common.scope_bindings(arg, cp.events)
                        if pairs is not None:
                            ok = True
                            vals = tuple(v for _, v in pairs)
                            # a loop over the arguments taken zero times leaves the dict empty: that path binds nothing to bind
                            vals += tuple(freeze(x.d.get('iter')) for x in cp.events if x.kind == 'loop_skip')
                            if not om.mentions(vals, ('param', '*' + (c.node.args.vararg.arg if c.node.args.vararg else ''))) and \
                                    not any(om.mentions(vals, ('param', a.arg)) for a in c.node.args.args):
                                problems.append('the pushed scope `%s` does not bind the actual arguments' % show(arg))
                        else:
                            problems.append('make_scope is given %s, not a fresh dict of the parameters' % show(arg))
                            ok = True
                if not ok:
                    # explicit push ... try/finally pop (pairing itself is R2's business)
                    try:
                        scopes_attr = scope_list_attr(F)
                    except AnalysisError:
                        scopes_attr = None
                    before = cp.events[:cp.events.index(b)]
                    for x in before:
                        if x.kind == 'call' and (x.resolved == SD + '.push_scope' or (x.resolved is None and _is_push(x, scopes_attr) is not None)) \
                                and isinstance(freeze(x.func), tuple) and freeze(x.func)[0] == 'attr' and om.carries(freeze(x.func)[1], stt):
                            arg = freeze(x.args)[0] if x.args else None
                            if common.scope_bindings(arg, cp.events) is not None:
                                popped = [y for y in before if _is_pop(y, scopes_attr) is not None and y.eid > x.eid]
                                if not popped:
                                    ok = True
                if not ok:
                    problems.append('the body `%s` is evaluated outside a make_scope(...) with-block' % b.text())
        chk.require(not problems, R5, c.qual, '%s:%d' % (c.module.rel, c.node.lineno),
                    '; '.join(sorted(set(problems))) or 'parameters bound in a fresh dict pushed by make_scope around the body')
