"""Classification tables for Python builtins, methods and library calls.

These tables are part of the checker (they are listed in the evidence of the
properties that use them).  They are deliberately wide so that behaviour-
preserving refactors stay inside the recognised vocabulary.
"""
import builtins as _b

STR_METHODS = {n for n in dir(str) if not n.startswith('__')}
LIST_METHODS = {n for n in dir(list) if not n.startswith('__')}
DICT_METHODS = {n for n in dir(dict) if not n.startswith('__')}

# ------------------------------------------------------------------ mutation
MUTATING_METHODS = {
    'append', 'extend', 'insert', 'pop', 'remove', 'clear', 'sort', 'reverse',          # list
    'update', 'setdefault', 'popitem', '__setitem__', '__delitem__',                      # dict
    'add', 'discard', 'difference_update', 'intersection_update', 'symmetric_difference_update',  # set
    '__iadd__', '__imul__', '__ior__',
}
MUTATING_EXT = {
    'random.shuffle': [0],
    'heapq.heappush': [0], 'heapq.heappop': [0], 'heapq.heapify': [0], 'heapq.heapreplace': [0], 'heapq.heappushpop': [0],
    'bisect.insort': [0], 'bisect.insort_left': [0], 'bisect.insort_right': [0],
    'list.sort': [0], 'list.append': [0], 'list.extend': [0], 'list.insert': [0], 'list.pop': [0], 'list.remove': [0],
    'list.clear': [0], 'list.reverse': [0], 'list.__setitem__': [0], 'list.__delitem__': [0], 'list.__iadd__': [0], 'list.__imul__': [0],
    'dict.update': [0], 'dict.pop': [0], 'dict.popitem': [0], 'dict.setdefault': [0], 'dict.clear': [0],
    'dict.__setitem__': [0], 'dict.__delitem__': [0],
    'operator.setitem': [0], 'operator.delitem': [0], 'operator.iadd': [0], 'operator.imul': [0], 'operator.iconcat': [0],
    'collections.deque.append': [0],
}
PURE_RAW_ENTRIES = (
    {'len', 'str', 'dict', 'list', 'tuple', 'min', 'max', 'sum', 'abs', 'round', 'int', 'float', 'bool', 'sorted', 'repr',
     'any', 'all', 'divmod', 'pow', 'ord', 'chr', 'hash', 'format', 'isinstance', 'callable', 'bin', 'hex', 'oct',
     'reversed', 'enumerate', 'zip', 'map', 'filter', 'range', 'iter', 'set', 'frozenset', 'bytes'}
    | {'str.' + m for m in STR_METHODS}
    | {'list.copy', 'list.index', 'list.count', 'dict.get', 'dict.keys', 'dict.values', 'dict.items', 'dict.copy',
       'dict.fromkeys', 'math.floor', 'math.ceil', 'math.sqrt', 'math.fabs', 'math.trunc', 'math.log', 'math.exp',
       'math.pow', 'math.fsum', 'copy.copy', 'copy.deepcopy', 'random.random', 'random.randint', 'random.choice',
       'random.randrange', 'random.uniform', 'random.sample', 'functools.reduce'}
)
MUTATING_RAW_ENTRIES = {k for k in MUTATING_EXT if k.startswith(('list.', 'dict.'))} | {'random.shuffle', 'setattr', 'delattr'}

# ---------------------------------------------------------------- return kinds
# kinds allowed by invariant P (plain data, table builtins, own lambdas)
PLAIN = 'plain'
KIND_OF_BUILTIN = {
    'len': PLAIN, 'str': PLAIN, 'repr': PLAIN, 'int': PLAIN, 'float': PLAIN, 'bool': PLAIN, 'abs': PLAIN, 'round': PLAIN,
    'min': 'element', 'max': 'element', 'sum': PLAIN, 'sorted': 'list', 'list': 'list', 'tuple': 'tuple', 'dict': 'dict',
    'any': PLAIN, 'all': PLAIN, 'divmod': 'tuple', 'pow': PLAIN, 'ord': PLAIN, 'chr': PLAIN, 'hash': PLAIN, 'format': PLAIN,
    'isinstance': PLAIN, 'callable': PLAIN, 'bin': PLAIN, 'hex': PLAIN, 'oct': PLAIN, 'slice': 'slice', 'ascii': PLAIN,
    # not plain:
    'map': 'iterator', 'filter': 'iterator', 'reversed': 'iterator', 'enumerate': 'iterator', 'zip': 'iterator',
    'iter': 'iterator', 'range': 'range', 'set': 'set', 'frozenset': 'set', 'bytes': 'bytes', 'bytearray': 'bytes',
    'memoryview': 'other-object', 'object': 'other-object', 'type': 'type', 'super': 'other-object', 'next': 'element',
    'id': PLAIN, 'complex': 'other-object', 'property': 'other-object', 'staticmethod': 'other-object',
    'classmethod': 'other-object',
}
REFLECTIVE_BUILTINS = {
    'getattr', 'setattr', 'delattr', 'hasattr', 'type', 'vars', 'globals', 'locals', 'dir', 'eval', 'exec', 'compile',
    '__import__', 'open', 'input', 'print', 'iter', 'next', 'object', 'super', 'breakpoint', 'help', 'memoryview',
    'exit', 'quit', 'id', 'classmethod', 'staticmethod', 'property', '__build_class__',
}
# methods: result kind by method name, for receivers that are str / list / dict / Decimal (invariant P)
KIND_OF_METHOD = {}
for _m in STR_METHODS:
    KIND_OF_METHOD[_m] = PLAIN
for _m in ('split', 'rsplit', 'splitlines', 'partition', 'rpartition'):
    KIND_OF_METHOD[_m] = 'list'
KIND_OF_METHOD.update({
    'keys': 'view', 'values': 'view', 'items': 'view',
    'get': 'element', 'pop': 'element', 'popitem': 'tuple', 'setdefault': 'element', 'copy': 'same',
    'index': PLAIN, 'count': PLAIN, 'append': PLAIN, 'insert': PLAIN, 'extend': PLAIN, 'remove': PLAIN, 'clear': PLAIN,
    'sort': PLAIN, 'reverse': PLAIN, 'update': PLAIN,
    'group': PLAIN, 'groups': 'tuple', 'groupdict': 'dict', 'start': PLAIN, 'end': PLAIN, 'span': 'tuple',
    'quantize': PLAIN, 'to_integral_value': PLAIN, 'normalize': PLAIN, 'as_tuple': 'tuple', 'is_nan': PLAIN,
    'encode': 'bytes', 'format': PLAIN, 'format_map': PLAIN, 'join': PLAIN,
    'create_decimal': PLAIN, 'create_decimal_from_float': PLAIN, 'to_integral': PLAIN, 'to_integral_exact': PLAIN,
    # compiled regular expressions
    'search': 'match-object', 'match': 'match-object', 'fullmatch': 'match-object', 'findall': 'list',
    'finditer': 'iterator', 'sub': PLAIN, 'subn': 'tuple',
    '__str__': PLAIN, '__repr__': PLAIN,
})
KIND_OF_EXT = {
    'copy.copy': 'same', 'copy.deepcopy': 'same',
    'math.floor': PLAIN, 'math.ceil': PLAIN, 'math.sqrt': PLAIN, 'math.fabs': PLAIN, 'math.trunc': PLAIN, 'math.log': PLAIN,
    'math.exp': PLAIN, 'math.pow': PLAIN, 'math.fsum': PLAIN, 'math.isnan': PLAIN, 'math.isinf': PLAIN,
    'random.random': PLAIN, 'random.randint': PLAIN, 'random.randrange': PLAIN, 'random.uniform': PLAIN,
    'random.choice': 'element', 'random.shuffle': PLAIN, 'random.sample': 'list', 'random.choices': 'list',
    'functools.reduce': 'callback-result', 'decimal.Decimal': PLAIN,
    'regex.search': 'match-object', 'regex.match': 'match-object', 'regex.fullmatch': 'match-object',
    'regex.findall': 'list', 'regex.finditer': 'iterator', 'regex.sub': PLAIN, 'regex.subn': 'tuple', 'regex.split': 'list',
    'regex.compile': 'other-object', 'regex.escape': PLAIN,
    're.search': 'match-object', 're.match': 'match-object', 're.fullmatch': 'match-object', 're.findall': 'list',
    're.finditer': 'iterator', 're.sub': PLAIN, 're.subn': 'tuple', 're.split': 'list', 're.compile': 'other-object',
    'itertools.chain': 'iterator', 'itertools.islice': 'iterator', 'itertools.repeat': 'iterator',
    'operator.itemgetter': 'other-object', 'operator.attrgetter': 'other-object',
    # dict subclasses with behaviour of their own: reading a missing key of a defaultdict / Counter inserts it (no KeyError,
    # the container grows on a read); none of them is a plain dict
    'collections.defaultdict': 'dict-with-default-factory', 'collections.Counter': 'dict-with-default-factory',
    'collections.OrderedDict': 'dict-subclass', 'collections.ChainMap': 'other-object', 'collections.deque': 'other-object',
    'collections.UserDict': 'other-object', 'collections.UserList': 'other-object',
}

# ------------------------------------------------------------------- effects
# external callees that are pure computation (no I/O, no import, no dynamic code)
PURE_EXT_PREFIXES = ('copy.', 'math.', 'random.', 'functools.', 'decimal.', 'regex.', 'operator.', 'itertools.',
                     'collections.', 'typing.', 'abc.', 'dataclasses.', 'contextlib.', 'str.', 'list.', 'dict.',
                     'tuple.', 'int.', 'float.', 'bool.', 'numbers.', 'fractions.', 'statistics.', 'string.',
                     'heapq.', 'bisect.', 'unicodedata.', 'textwrap.', 'enum.', 're.',
                     # reading a clock gives a program nothing to act on (time.sleep stays forbidden)
                     'time.monotonic', 'time.perf_counter', 'time.time', 'time.process_time',
                     # synchronisation objects give a program nothing to act on either (starting threads stays forbidden)
                     'threading.Lock', 'threading.RLock', 'threading.local', 'threading.Condition', 'threading.Semaphore',
                     'threading.BoundedSemaphore', 'threading.Event', 'threading.get_ident', 'threading.current_thread')
FORBIDDEN_EXT_PREFIXES = ('os.', 'io.', 'sys.', 'subprocess.', 'socket.', 'importlib.', 'pickle.', 'ctypes.', 'shutil.',
                          'tempfile.', 'pathlib.', 'urllib.', 'http.', 'marshal.', 'shelve.', 'inspect.', 'gc.',
                          'logging.', 'threading.Thread', 'threading.Timer', 'threading.enumerate', 'threading.main_thread', 'threading.settrace',
                          'threading.setprofile', 'threading.excepthook', 'multiprocessing.', 'signal.', 'runpy.', 'code.', 'codeop.',
                          'pdb.', 'builtins.', 'types.', 'ast.', 'dis.', 'glob.', 'asyncio.', 'concurrent.',
                          'select.', 'selectors.', 'ssl.', 'ftplib.', 'smtplib.', 'webbrowser.', 'pty.', 'fcntl.',
                          'resource.', 'mmap.', 'sqlite3.', 'dbm.', 'zipfile.', 'tarfile.', 'gzip.', 'bz2.', 'lzma.',
                          'csv.', 'configparser.', 'pkgutil.', 'zipimport.', 'site.', 'sysconfig.', 'faulthandler.',
                          'tracemalloc.', '_thread.', 'posix.', 'atexit.', 'time.sleep', 'json.load', 'json.dump',
                          'weakref.', 'traceback.', 'warnings.', 'codecs.open', 'platform.', 'locale.', 'secrets.',
                          'hashlib.', 'base64.', 'struct.', 'zlib.', 'datetime.')
FORBIDDEN_BUILTINS = {'open', 'eval', 'exec', 'compile', '__import__', 'input', 'print', 'breakpoint', 'help', 'exit', 'quit',
                      'globals', 'locals', 'vars', 'getattr', 'setattr', 'delattr', 'dir', 'type', 'memoryview', 'object', 'super'}

NUMERIC_CTORS = {'int', 'float', 'abs', 'round', 'len', 'sum', 'min', 'max', 'pow', 'divmod', 'ord', 'hash', 'bool'}
