"""C13 -- non-mutating builtins never modify their arguments."""
from __future__ import annotations

import ast

from typing import Any, Dict, List, Optional, Set, Tuple

from ..facts import AnalysisError, FuncInfo
from ..report import Check
from ..symexec import SymExec, freeze, show, Path, Event, closure_paths
from .. import opmodel as om
from .. import functab
from .tables import MUTATING_METHODS, MUTATING_EXT, PURE_RAW_ENTRIES, MUTATING_RAW_ENTRIES

# the mutators the statement names, by their language-level key
MUTATORS_BY_KEY = {'push', 'pop', 'insert', 'remove', '__setitem__', '__setitem_with_op__', '__delitem__'}


# builtins / methods whose result is a new container holding the *same* element objects as their argument
ELEMENT_PRESERVING = {'list', 'tuple', 'sorted', 'reversed', 'iter', 'enumerate', 'zip', 'filter', 'set', 'frozenset', 'dict', 'next'}
ELEMENT_PRESERVING_METHODS = {'values', 'items', 'copy', 'keys'}
ELEMENT_OF_RECEIVER = {'get', 'pop', 'popitem', 'setdefault', '__getitem__'}
_FACTS = None            # set by check(): needed to summarise package functions handed to map()
_ALIAS_SUMMARY: Dict[str, Set[int]] = {}


def _returns_alias_of(q: str) -> Set[int]:
    """Indices of the parameters that a package function can return as they are (or a part of)."""
    if q in _ALIAS_SUMMARY:
        return _ALIAS_SUMMARY[q]
    _ALIAS_SUMMARY[q] = set()
    out: Set[int] = set()
    F = _FACTS
    if F is not None and q in F.functions:
        fi = F.functions[q]
        names = [a.arg for a in getattr(fi.node.args, 'posonlyargs', []) + fi.node.args.args]
        try:
            for p in SymExec(F, fi).run():
                if p.normal:
                    r = param_root(p.outcome[1])
                    if r in names:
                        out.add(names.index(r))
        except AnalysisError:
            pass
    _ALIAS_SUMMARY[q] = out
    return out


def param_root(t, _elem: bool = False) -> Optional[str]:
    """Name of the parameter a value is (part of), or None when it is a fresh/unknown object.
    _elem: the question is about an element/part of t, not about t itself (a fresh list of the caller's objects is
    fresh, its elements are not)."""
    t = freeze(t)
    while isinstance(t, tuple) and t:
        if t[0] == 'param':
            return t[1]
        if t[0] == 'sub' and isinstance(t[2], tuple) and t[2][:1] == ('slice',):
            # x[a:b] is a new list / str (a shallow copy): modifying it leaves x alone; its elements are still x's
            if not _elem:
                return None
            t = t[1]
        elif t[0] in ('attr', 'sub', 'elem', 'unpack', 'unpack*', 'star', 'withas'):
            t = t[1]
            _elem = True
        elif t[0] == 'phi':
            t = t[3]
        elif t[0] == 'call' and len(t) >= 4:
            f, args = t[2], t[3]
            if isinstance(f, tuple) and f and f[0] == 'attr' and f[2] in ELEMENT_OF_RECEIVER:
                t = f[1]
                _elem = True
                continue
            if isinstance(f, tuple) and f[:2] == ('ref', 'builtin') and f[2] in ('next', 'min', 'max') and args:
                t = args[0]                 # one of the elements of the argument, as it is
                _elem = True
                continue
            if f == ('ref', 'ext', 'random.choice') and args:
                t = args[0]
                _elem = True
                continue
            if f == ('ref', 'builtin', 'vars') and args:
                t = args[0]                 # vars(x) is x.__dict__ itself, not a copy: deleting from it deletes x's attributes
                continue
            if not _elem:
                return None
            if isinstance(f, tuple) and f[:2] == ('ref', 'builtin') and f[2] in ELEMENT_PRESERVING:
                for a in (args[1:] if f[2] == 'filter' else args):
                    r = param_root(a, True)
                    if r is not None:
                        return r
                return None
            if isinstance(f, tuple) and f and f[0] == 'attr' and f[2] in ELEMENT_PRESERVING_METHODS:
                t = f[1]
                continue
            if f in (('ref', 'ext', 'copy.copy'),) and args:
                t = args[0]
                continue
            if f == ('ref', 'builtin', 'map') and len(args) >= 2 and isinstance(args[0], tuple) and args[0][:2] == ('ref', 'fn'):
                for i in sorted(_returns_alias_of(args[0][2])):
                    if i + 1 < len(args):
                        r = param_root(args[i + 1], True)
                        if r is not None:
                            return r
                return None
            return None
        else:
            return None
    return None


def mutation_events(F, paths: List[Path]) -> List[Tuple[Event, str, str]]:
    """(event, parameter, description) for every statement that mutates a parameter-derived object."""
    out = []
    for p in paths:
        for e in p.events:
            if e.kind in ('store_sub', 'aug_sub', 'del_sub', 'store_attr', 'aug_attr', 'del_attr'):
                r = param_root(e.obj)
                if r is not None:
                    out.append((e, r, '`%s` writes into argument `%s`' % (e.text(), r)))
            elif e.kind == 'aug_name':
                r = param_root(e.cur)
                if r is not None and e.op in ('+', '*', '|', '&', '-', '^'):
                    out.append((e, r, '`%s` may update argument `%s` in place' % (e.text(), r)))
            elif e.kind == 'call' and not e.d.get('inlined'):
                f = freeze(e.func)
                if isinstance(f, tuple) and f and f[0] == 'attr' and f[2] in MUTATING_METHODS:
                    r = param_root(f[1])
                    if r is not None and not e.d.get('on_fresh_list'):
                        out.append((e, r, '`%s` calls the mutating method .%s on argument `%s`' % (e.text(), f[2], r)))
                if isinstance(f, tuple) and f[:2] == ('ref', 'ext') and f[2] in MUTATING_EXT:
                    for i in MUTATING_EXT[f[2]]:
                        if i < len(e.args):
                            r = param_root(e.args[i])
                            if r is not None:
                                out.append((e, r, '`%s`: %s modifies its argument, here the caller\'s `%s`' % (e.text(), f[2], r)))
                # map(f, xs) / filter(f, xs) with a package function: f is applied to the elements of xs
                if isinstance(f, tuple) and f[:2] == ('ref', 'builtin') and f[2] in ('map', 'filter') and len(e.args) >= 2:
                    a0 = freeze(e.args[0])
                    if isinstance(a0, tuple) and a0[:2] == ('ref', 'fn') and a0[2] in F.functions:
                        for i in sorted(_mutated_params(F, a0[2])):
                            if i + 1 < len(e.args):
                                r = param_root(e.args[i + 1], True) if not isinstance(freeze(e.args[i + 1]), tuple) or freeze(e.args[i + 1])[:1] != ('param',) \
                                    else freeze(e.args[i + 1])[1]
                                if r is not None:
                                    out.append((e, r, '`%s`: %s modifies what it is given in place, here the elements of the caller\'s `%s`' % (
                                        e.text(), a0[2].rsplit('.', 1)[-1], r)))
                # a package function that was not followed into (a recursive helper): what it does to its own parameters it does to
                # the values handed to it here
                if e.resolved and e.resolved in F.functions and not e.d.get('ctor'):
                    for i in sorted(_mutated_params(F, e.resolved)):
                        if i < len(e.args):
                            r = param_root(e.args[i])
                            if r is not None:
                                out.append((e, r, '`%s`: %s modifies its parameter %d in place, here (part of) the caller\'s `%s`' % (
                                    e.text(), e.resolved.rsplit('.', 1)[-1], i + 1, r)))
    return out


_MUT_SUMMARY: Dict[str, Set[int]] = {}


def _mutated_params(F, q: str) -> Set[int]:
    """Positions of the parameters a package function mutates in place (directly, or by handing them to itself / another such
    function)."""
    key = '%s@%s' % (q, id(F))
    if key in _MUT_SUMMARY:
        return _MUT_SUMMARY[key]
    _MUT_SUMMARY[key] = set()           # recursion: assume nothing, the fixpoint below adds what is found
    fi = F.functions[q]
    if not isinstance(fi.node, ast.FunctionDef):
        return set()
    names = [a.arg for a in fi.node.args.args]
    for _round in range(2):
        try:
            paths = SymExec(F, fi).run()
        except Exception:
            return _MUT_SUMMARY[key]
        found = {names.index(r) for _e, r, _d in mutation_events(F, paths) if r in names}
        if found <= _MUT_SUMMARY[key]:
            break
        _MUT_SUMMARY[key] |= found
    return _MUT_SUMMARY[key]


def check(chk: Check) -> None:
    F = chk.facts
    R1 = chk.rule('C13.R1', 'no statement reachable from a non-mutating builtin applies a mutating operation (mutating '
                            'method, subscript/attribute store or del, in-place operator, mutating library call) to a '
                            'value that is (part of) one of its arguments', floor=25)
    R2 = chk.rule('C13.R2', 'callbacks are the program\'s business: calls of a parameter are recorded, not flagged', floor=3)
    chk.decided += ['mutation effects of every non-mutator in the function table, through helpers (inlined) and closures']
    chk.assumptions += ['the purity classification of Python builtins/descriptors used raw in the table (len, str, dict, min, max, str.*) and of '
                        'library calls (sorted, list, copy.copy, regex.*, ...) is part of the checker (tables.py)']
    global _FACTS
    _FACTS = F
    _ALIAS_SUMMARY.clear()
    tab = functab.table(F)
    missing = MUTATORS_BY_KEY - set(tab)
    n_cb = 0
    for key, ent in tab.items():
        where = '%s:%d' % (F.modules[functab.FUNCS_MOD].rel, ent.line)
        if key in MUTATORS_BY_KEY:
            continue
        if ent.kind in ('builtin', 'ext', 'cls'):
            name = ent.target
            if name in PURE_RAW_ENTRIES:
                chk.ok(R1, ent.label, where, 'raw %s %s: does not modify its arguments (classification table)' % (ent.kind, name))
            elif name in MUTATING_RAW_ENTRIES:
                chk.bad(R1, ent.label, where, 'raw %s %s modifies its first argument' % (ent.kind, name))
            else:
                chk.unrec(R1, ent.label, where, '%s %s is not in the purity classification table' % (ent.kind, name))
            continue
        if ent.kind == 'other':
            chk.unrec(R1, ent.label, where, 'table value `%s` is not a def, lambda, builtin or descriptor' % ent.target)
            continue
        fi = ent.funcinfo(F)
        paths = SymExec(F, fi).run()
        muts = mutation_events(F, paths)
        # closures created by the builtin (key=lambda ...) run on behalf of it
        for c in om.all_closures(paths):
            if True:
                cps = closure_paths(F, fi, c)
                for e, r, d in mutation_events(F, cps):
                    muts.append((e, r, d + ' (inside %s)' % c.qual))
        # a keyed read that is expected to miss - its lookup error is handled and the builtin carries on - must not be a
        # subscript: container[key] on an absent key runs the mapping's __missing__, and a host defaultdict (or any mapping whose
        # __missing__ stores) is changed by it; `.get(key, default)` and `key in container` never do that
        from . import common as _common
        for p_ in paths:
            for e in p_.events:
                if e.kind == 'load_sub' and param_root(freeze(e.obj)) is not None and e.d.get('handlers'):
                    verdict, det = _common.conversion_of(F, e, paths, ['KeyError'])
                    if verdict in ('swallowed', 'defaulted') and not any(m_[0] is e for m_ in muts):
                        muts.append((e, param_root(freeze(e.obj)), 'the read `%s` may miss (%s) and is a subscript: on a host mapping with '
                                     '__missing__ (collections.defaultdict) the missing key is inserted into the argument' % (e.text(), det)))
        seen = set()
        if muts:
            for e, r, d in muts:
                cons = '%s :: `%s`' % (ent.label, e.text())
                if cons in seen:
                    continue
                seen.add(cons)
                chk.bad(R1, cons, '%s:%d' % (fi.module.rel, e.line), d + ' -- %s is not one of the mutators' % key)
        else:
            chk.ok(R1, ent.label, where, '%s: %d path(s), no mutation of an argument-derived value' % (ent.descr(), len(paths)))
        # R2
        allpaths = list(paths)
        for c in om.all_closures(paths):
            if True:
                allpaths += closure_paths(F, fi, c)
        for p in allpaths:
            for e in p.events:
                if e.kind == 'call':
                    f = freeze(e.func)
                    if isinstance(f, tuple) and f and f[0] == 'param':
                        n_cb += 1
                        chk.ok(R2, '%s :: callback `%s`' % (ent.label, e.text()), '%s:%d' % (fi.module.rel, e.line),
                               'calls the program-supplied function `%s`; what it mutates, the program mutates' % f[1])
                    elif isinstance(f, tuple) and f[:2] in (('ref', 'builtin'), ('ref', 'ext')) and \
                            f[2] in ('filter', 'map', 'sorted', 'min', 'max', 'functools.reduce'):
                        cbs = [a for a in tuple(freeze(e.args)) + tuple(v for _, v in freeze(e.kwargs))
                               if isinstance(a, tuple) and a and a[0] == 'param']
                        if cbs and f[2] in ('filter', 'map', 'functools.reduce'):
                            chk.ok(R2, '%s :: callback via `%s`' % (ent.label, e.text()), '%s:%d' % (fi.module.rel, e.line),
                                   'hands the program-supplied function to %s' % f[2])
    # functions of the builtin module that are not table entries but are published some other way (a second module-level
    # table the evaluator consults, an import by another module): they are callable on program values like a builtin
    fm = F.modules[functab.FUNCS_MOD]
    targets = {ent.target for ent in tab.values() if ent.kind == 'fn'}
    table_node = None
    for st_ in fm.tree.body:
        if isinstance(st_, (ast.Assign, ast.AnnAssign)):
            tg_ = st_.targets if isinstance(st_, ast.Assign) else [st_.target]
            if any(isinstance(t_, ast.Name) and t_.id == functab.TABLE for t_ in tg_):
                table_node = st_
    for name_, node_ in fm.defs.items():
        q_ = fm.name + '.' + name_
        if not isinstance(node_, ast.FunctionDef) or q_ in targets or q_ not in F.functions:
            continue
        published = False
        for st_ in fm.tree.body:
            if st_ is table_node or isinstance(st_, (ast.FunctionDef, ast.ClassDef, ast.Import, ast.ImportFrom)):
                continue
            for n_ in ast.walk(st_):
                if isinstance(n_, ast.Name) and n_.id == name_ and isinstance(n_.ctx, ast.Load) and isinstance(st_, (ast.Assign, ast.AnnAssign)) \
                        and isinstance(getattr(st_, 'value', None), (ast.Dict, ast.List, ast.Tuple, ast.Set)):
                    published = True
        if not published:
            continue
        fi_ = F.func(q_)
        paths_ = SymExec(F, fi_).run()
        muts_ = mutation_events(F, paths_)
        chk.require(not muts_, R1, '%s (published through a module-level table)' % q_, fi_.where,
                    '; '.join(sorted({d for _, _, d in muts_}))[:400] + ' -- the function is reachable by programs but is not one of the mutators'
                    if muts_ else 'no mutation of an argument-derived value')
    _r3(chk)
    if missing:
        chk.notes.append('mutators named by the statement but absent from the table: %s' % sorted(missing))


def _value_root(t, roots) -> Optional[Any]:
    """The child-evaluation result / looked-up value that t is (a part of), if any."""
    t = freeze(t)
    while isinstance(t, tuple) and t:
        if t in roots:
            return t
        if t[0] in ('attr', 'sub', 'elem', 'unpack', 'unpack*', 'star'):
            t = t[1]
        elif t[0] == 'phi':
            t = t[3]
        else:
            return None
    return None


def _r3(chk: Check) -> None:
    """Between the builtins of a pipeline sit the evaluator's own operators: a value produced by a sub-expression (which may
    be the very object a builtin handed back, e.g. get(d, k) or a host list) must not be modified by the node that
    consumes it.  Only the assignment forms write, and they write into the scoped names, not into operand values."""
    F = chk.facts
    R3 = chk.rule('C13.R3', 'no eval method or lambda closure applies a mutating operation (mutating method, subscript/attribute '
                            'store or del, in-place operator, mutating library call) to a value a child evaluation or a name '
                            'lookup produced', floor=10)
    chk.decided += ['operand values are never modified by the evaluator itself (R3)']
    from . import common
    units = []
    for cls in om.op_classes(F):
        if not om.own_eval(F, cls):
            continue
        q = cls + '.eval'
        units.append((q, F.func(q), om.eval_paths(F, cls), ('param', om.self_param(F, q)), ('param', om.state_param(F, q))))
    closure_params = {}
    for owner, c, p in common.eval_closures(chk):
        fi = F.func(owner)
        units.append((c.qual, fi, closure_paths(F, fi, c), ('param', om.self_param(F, owner)), ('param', om.state_param(F, owner))))
        a_ = c.node.args
        closure_params[c.qual] = {x.arg for x in a_.posonlyargs + a_.args + a_.kwonlyargs} | (
            {'*' + a_.vararg.arg} if a_.vararg else set()) | ({'**' + a_.kwarg.arg} if a_.kwarg else set())
    seen_units = set()
    for q, fi, paths, selft, stt in units:
        if q in seen_units:
            continue
        seen_units.add(q)
        problems = []
        for p in paths:
            roots = set()
            for e in p.events:
                if om.is_child_eval(e, selft, stt) and e.kind == 'call':
                    roots.add(freeze(e.result))
                if e.kind == 'load_sub' and om.carries(e.obj, stt):
                    roots.add(('sub', freeze(e.obj), freeze(e.index)))
            for e in p.events:
                if e.kind in ('store_sub', 'aug_sub', 'del_sub', 'store_attr', 'aug_attr', 'del_attr'):
                    r = _value_root(e.obj, roots)
                    if r is not None:
                        problems.append('`%s` writes into the value `%s` produced' % (e.text(), show(r)))
                elif e.kind == 'aug_name' and e.op in ('+', '*', '|', '&', '-', '^'):
                    r = _value_root(e.cur, roots)
                    if r is not None:
                        # load / update in place / store back under the same name is what `name op= value` means
                        written_back = isinstance(r, tuple) and r[:1] == ('sub',) and any(
                            x.kind == 'store_sub' and freeze(x.obj) == r[1] and freeze(x.index) == r[2] and x.eid > e.eid for x in p.events)
                        if not written_back:
                            problems.append('`%s` may update the value `%s` produced in place' % (e.text(), show(r)))
                elif e.kind == 'call' and not e.d.get('inlined'):
                    f = freeze(e.func)
                    if isinstance(f, tuple) and f and f[0] == 'attr' and f[2] in MUTATING_METHODS and not e.d.get('on_fresh_list'):
                        r = _value_root(f[1], roots)
                        if r is not None:
                            problems.append('`%s` calls the mutating method .%s on the value `%s` produced' % (e.text(), f[2], show(r)))
                    if isinstance(f, tuple) and f[:2] == ('ref', 'ext') and f[2] in MUTATING_EXT:
                        for i in MUTATING_EXT[f[2]]:
                            if i < len(e.args):
                                r = _value_root(e.args[i], roots)
                                if r is not None:
                                    problems.append('`%s`: %s modifies the value `%s` produced' % (e.text(), f[2], show(r)))
                    # package functions that modify what they are given (not followed into: recursive helpers, functions mapped over
                    # the values)
                    targets = []
                    if e.resolved and e.resolved in F.functions and not e.d.get('ctor'):
                        targets = [(e.resolved, 0)]
                    elif isinstance(f, tuple) and f[:2] == ('ref', 'builtin') and f[2] in ('map', 'filter') and len(e.args) >= 2:
                        a0 = freeze(e.args[0])
                        if isinstance(a0, tuple) and a0[:2] == ('ref', 'fn') and a0[2] in F.functions:
                            targets = [(a0[2], 1)]
                    for q2, off in targets:
                        for i in sorted(_mutated_params(F, q2)):
                            if i + off < len(e.args):
                                a_ = freeze(e.args[i + off])
                                if isinstance(a_, tuple) and a_[:1] == ('comp',):
                                    a_ = a_[2]          # the elements of a comprehension
                                r = _value_root(a_, roots)
                                if r is not None:
                                    problems.append('`%s`: %s modifies what it is given in place, here (part of) the value `%s` produced' % (
                                        e.text(), q2.rsplit('.', 1)[-1], show(r)))
        if q in closure_params:
            # a lambda closure: its own parameters are values the caller (map, filter, sorted, the host) hands in
            for e_, r_, d_ in mutation_events(F, paths):
                if r_ in closure_params[q]:
                    problems.append(d_.replace('argument', 'call argument') + ' of the lambda')
        chk.require(not problems, R3, q, fi.where if hasattr(fi, 'where') else '', '; '.join(sorted(set(problems))[:3]) or
                    '%d path(s): operand values are read, combined and passed on, never modified' % len(paths))
