"""C08 -- decimal arithmetic is exact: no binary floating point on the way."""
from __future__ import annotations

from typing import Any, Dict, List, Optional, Tuple

from ..facts import AnalysisError, FuncInfo
from ..report import Check
from ..symexec import Closure, closure_paths, SymExec, freeze, show, Path, Event, is_const
from .. import opmodel as om
from .. import functab
from .. import ctx as C
from .. import lexmodel as LM
from . import numeric as N
from .c09 import grammar_ops

ARITH_SINKS = {'round', 'floor', 'ceil', 'abs', 'int', 'sum', 'min', 'max'}      # the statement's list
FLOAT_BY_DEFINITION = {'float', 'rand'}


def number_token(lm) -> str:
    """The token whose text is a numeral: its regex can start with a digit and with nothing a name can start with."""
    cands = [n for n, rm in lm.rules.items()
             if LM.first_chars_can(rm.parsed, '7') and not LM.first_chars_can(rm.parsed, 'a') and not LM.first_chars_can(rm.parsed, '"')]
    if len(cands) != 1:
        raise AnalysisError('lexer: expected exactly one numeral rule, found %r' % cands)
    return cands[0]


def strip_separators(arg, raw):
    """`raw.replace(c, '')...` with single characters c that cannot be part of a numeral: (raw, {c, ...}); otherwise (arg, set())."""
    seps = set()
    cur = arg
    while isinstance(cur, tuple) and cur[:1] == ('call',) and len(cur) >= 5 and isinstance(cur[2], tuple) and cur[2][:1] == ('attr',) \
            and cur[2][2] == 'replace' and not cur[4] and len(cur[3]) == 2 and all(is_const(a) for a in cur[3]) \
            and isinstance(cur[3][0][1], str) and len(cur[3][0][1]) == 1 and cur[3][1][1] == '' \
            and cur[3][0][1] not in '0123456789.+-eEnNiIfFaA':
        seps.add(cur[3][0][1])
        cur = cur[2][1]
    if cur == raw:
        return raw, seps
    return arg, set()


def numeral_separators(F, rm) -> set:
    """Characters the numeral rule removes from the matched text before it builds the Decimal, on every converting path."""
    if rm.rule.func is None:
        return set()
    tparam = ('param', rm.rule.func.args.args[0].arg)
    raw = ('attr', tparam, 'value')
    out = None
    for p in rm.paths:
        for e in p.events:
            if e.kind == 'store_attr' and freeze(e.obj) == tparam and e.attr == 'value':
                arg = N.is_decimal_ctor(F, e.value)
                seps = strip_separators(arg, raw)[1] if arg is not None else set()
                out = seps if out is None else (out & seps)
    return out or set()


def literal_carries_numeral(chk: Check, R1: str, NUM: str, where: str) -> None:
    """The production of the numeral stores the token value itself in a node field, and the node's eval returns that field."""
    F = chk.facts
    from .. import actions as A_
    T_ = C.templates(F)
    n_lit = 0
    lit_problems = []
    lit_where = where
    for t in T_.all():
        if [s_ for s_ in t.prod.rhs] != [NUM]:
            continue
        for cls_, flds in A_.new_nodes(t.result):
            n_lit += 1
            lit_where = '%s:%d' % (C.grammar(F).module.rel, t.prod.line) if hasattr(t.prod, 'line') else where
            holder = [fn_ for fn_, fv in flds if isinstance(fv, tuple) and fv[:1] == ('tok',) and fv[2] == NUM]
            touched = [(fn_, fv) for fn_, fv in flds if not (isinstance(fv, tuple) and fv[:1] == ('tok',)) and om.mentions(fv, NUM)]
            if not holder:
                lit_problems.append('%s: the node receives %s, not the value of the numeral token' % (
                    t.key, ', '.join('%s=%s' % (fn_, show(fv)) for fn_, fv in (touched or flds))[:200]))
                continue
            if (cls_ + '.eval') in F.functions or om.own_eval(F, cls_):
                selfp = ('param', om.self_param(F, cls_ + '.eval')) if (cls_ + '.eval') in F.functions else None
                rets = {p_.outcome[1] for p_ in om.eval_paths(F, cls_) if p_.normal}
                if selfp is not None and rets != {('attr', selfp, holder[0])}:
                    lit_problems.append('%s.eval returns %s, not the stored numeral' % (cls_.rsplit('.', 1)[-1], ', '.join(sorted(show(r_) for r_ in rets))[:160]))
    chk.require(not lit_problems and n_lit, R1, 'the literal node carries the numeral', lit_where,
                '; '.join(sorted(set(lit_problems))) or ('%d production(s): token value -> node field -> result of eval, unchanged' % n_lit
                                                         if n_lit else 'no production of the numeral token alone builds a node'))


def check(chk: Check) -> None:
    F = chk.facts
    R1 = chk.rule('C08.R1', 'literals never pass through float: the numeral token\'s value is Decimal(<the matched text>) '
                            'with nothing in between', floor=1)
    R2 = chk.rule('C08.R2', 'no binary-float source (float(...), float literal, math float function, int/int true '
                            'division, random) flows into the result of + - * / comparisons, unary minus, or of '
                            'round/floor/ceil/abs/int/sum/min/max', floor=12)
    R3 = chk.rule('C08.R3', 'the decimal context is never touched (28 digits, half-even is the stdlib default)', floor=1)
    chk.decided += ['what this repository contributes to exactness: literal text -> Decimal constructor directly; no float on any '
                    'arithmetic / numeric-builtin result path; default context']
    chk.not_decided += ['correct half-even rounding at the 28th digit and agreement of comparisons with rational order: '
                        'properties of the stdlib decimal module, not of this code']
    chk.trusted += ['decimal.Decimal(str) reads a decimal numeral exactly; Decimal arithmetic is correctly rounded (stdlib)']
    lm = C.lexmodel(F)
    NUM = number_token(lm)
    rm = lm.rules[NUM]
    where = '%s:%d' % (lm.spec.module.rel, rm.rule.line)
    if rm.rule.func is None:
        chk.bad(R1, 't_%s' % NUM, where, 'the numeral rule is a plain string rule: the token value stays a str, arithmetic on literals is string arithmetic')
    else:
        tparam = ('param', rm.rule.func.args.args[0].arg)
        raw = ('attr', tparam, 'value')
        problems = []
        n = 0
        for p in rm.paths:
            stores = [e for e in p.events if e.kind == 'store_attr' and freeze(e.obj) == tparam and e.attr == 'value']
            if p.normal and not stores:
                problems.append('a path returns the token with its text unconverted')
            for e in stores:
                n += 1
                arg = N.is_decimal_ctor(F, e.value)
                if arg is None:
                    problems.append('`%s` does not build a Decimal' % e.text())
                elif strip_separators(arg, raw)[0] != raw:
                    fs = N.float_sources(arg)
                    problems.append('`%s` converts %s instead of the matched text itself%s' % (
                        e.text(), show(arg), ' (through %s: binary rounding error enters every literal)' % ', '.join(fs) if fs else ''))
        chk.require(not problems and n, R1, 't_%s' % NUM, where, '; '.join(sorted(set(problems))) or 't.value = Decimal(t.value): the constructor reads the numeral exactly')

    N.number_constructor(chk, R1)
    # ... and that Decimal is what the literal evaluates to: the production of the numeral stores the token value itself in a
    # node field, and the node's eval returns that field (a memo of constants keyed by == would hand 1 out as True)
    literal_carries_numeral(chk, R1, NUM, where)

    # --------------------------------------------------------------------- R2
    for cls in om.op_classes(F):
        if cls == om.ROOT or not om.own_eval(F, cls):
            continue
        q = cls + '.eval'
        kinds = om.op_field_kinds(F, cls)
        if kinds.get('op') != 'str':
            continue
        ops = om.op_specs(F, cls)
        for op in ops:
            if op in ('and', 'or', 'not', 'in', 'not in') or op.endswith('=') and op not in ('==', '!=', '>=', '<='):
                continue
            paths = [p for p in om.eval_paths(F, cls, op) if p.normal]
            srcs = sorted({s for p in paths for s in N.float_sources(p.outcome[1])})
            chk.require(not srcs, R2, '%s [op=%r]' % (q, op), F.func(q).where,
                        'the result passes through %s' % ', '.join(srcs) if srcs else '%d normal path(s), float-free' % len(paths))
    tab = functab.table(F)
    for key in sorted(ARITH_SINKS):
        if key not in tab:
            continue
        ent = tab[key]
        fi = ent.funcinfo(F)
        where = '%s:%d' % (F.modules[functab.FUNCS_MOD].rel, ent.line)
        if fi is None:
            ok = ent.kind == 'builtin' and ent.target in ('min', 'max', 'sum', 'abs', 'round', 'int')
            chk.require(ok, R2, ent.label, where, 'raw builtin %s: returns one of / an exact combination of its arguments' % ent.target if ok
                        else 'raw %s %s is not known to be float-free' % (ent.kind, ent.target))
            continue
        paths = [p for p in SymExec(F, fi).run() if p.normal]
        srcs = {s for p in paths for s in N.float_sources(p.outcome[1])}
        # decisions taken on the way (comparisons, and the key functions handed to min/max/sorted) decide *which* value is
        # returned: a float there makes the builtin disagree with the exact order of the operators
        for p in paths:
            for c, _, _ in p.assumptions:
                srcs.update('%s in the test `%s`' % (x, show(c)) for x in N.float_sources(c))
            for e in p.events:
                if e.kind != 'call':
                    continue
                for a in tuple(e.args) + tuple(v for _, v in e.kwargs):
                    cb_paths = []
                    fa = freeze(a)
                    if isinstance(a, Closure):
                        cb_paths = closure_paths(F, fi, a)
                    elif isinstance(fa, tuple) and fa[:2] == ('ref', 'fn') and fa[2] in F.functions:
                        cb_paths = SymExec(F, F.func(fa[2])).run()
                    for cp in cb_paths:
                        if cp.normal:
                            srcs.update('%s in the key/callback `%s`' % (x, show(fa) if not isinstance(a, Closure) else a.qual)
                                        for x in N.float_sources(cp.outcome[1]))
        srcs = sorted(srcs)
        chk.require(not srcs, R2, ent.label, where, 'the result passes through %s' % ', '.join(srcs) if srcs else 'float-free on %d path(s)' % len(paths))
    N.context_untouched(chk, R3)
