"""C05 -- regular-expression builtins cannot hang the host (timeout discipline only)."""
from __future__ import annotations

import ast
from typing import Any, Dict, List, Optional, Tuple

from ..facts import AnalysisError
from ..report import Check
from ..symexec import SymExec, freeze, show, Path, Event, is_const
from .. import functab

MATCHING = {'search', 'match', 'fullmatch', 'findall', 'finditer', 'sub', 'subn', 'split', 'splititer'}
T_MAX = 0.5      # same order of magnitude as the documented 50 ms


_F = None


def _compiled_modvar(t) -> Optional[str]:
    """'re' / 'regex' if the module-level variable holds a pattern compiled at import time."""
    import ast as _ast
    if not (isinstance(t, tuple) and t[:2] == ('ref', 'modvar')) or _F is None:
        return None
    mod, _, var = t[2].rpartition('.')
    m = _F.modules.get(mod)
    vals = m.assigns.get(var) if m else None
    if vals and len(vals) == 1 and isinstance(vals[0], _ast.Call):
        r = _F.resolve_expr(m, vals[0].func)
        if r[0] == 'ext' and r[1] in ('re.compile', 'regex.compile', 'regex.Regex'):
            return r[1].split('.')[0]
    return None


def engine_call(e: Event) -> Optional[Tuple[str, str]]:
    """('regex'|'re', entry point) if the event calls a regular-expression engine."""
    if e.kind != 'call':
        return None
    f = freeze(e.func)
    if isinstance(f, tuple) and f and f[0] == 'attr' and f[2] in MATCHING:
        eng = _compiled_modvar(f[1])
        if eng:
            return (eng, 'compiled.' + f[2])
    if isinstance(f, tuple) and f[:2] == ('ref', 'ext'):
        mod, _, fn = f[2].rpartition('.')
        if mod in ('regex', 're') and fn in MATCHING:
            return (mod, fn)
    if isinstance(f, tuple) and f and f[0] == 'attr' and f[2] in MATCHING:
        r = f[1]
        if isinstance(r, tuple) and r[:1] == ('call',) and isinstance(r[2], tuple) and r[2][:2] == ('ref', 'ext') \
                and r[2][2] in ('regex.compile', 're.compile', 'regex.Regex'):
            return (r[2][2].split('.')[0], 'compiled.' + f[2])
    return None


def check(chk: Check) -> None:
    F = chk.facts
    global _F
    _F = F
    R1 = chk.rule('C05.R1', 'every call into the regex engine reachable from the function table passes timeout= and the '
                            'value resolves to a numeric constant t with 0 < t <= 0.5 s', floor=3)
    R2 = chk.rule('C05.R2', 'no untimed engine: no call into stdlib re (which has no timeout) from any function reachable '
                            'from the function table', floor=1)
    R3 = chk.rule('C05.R3', 'linear glue: the code around the engine call has no loop nested inside another loop and no list search (in / index / count / remove on a list) inside a loop', floor=3)
    chk.decided += ['the timeout discipline: a necessary condition of the property (without it a catastrophic pattern runs for minutes)']
    chk.not_decided += ['the wall-clock bound itself: time spent inside the third-party regex C extension, whether it honours its '
                        'timeout promptly, and pattern compilation (no timeout exists for that phase)']
    chk.trusted += ['third-party module regex==2022.10.31 honours timeout= during matching']
    # positive self-test for R2
    tab = functab.table(F)
    n_sites = 0
    re_hits = 0
    for key in sorted(tab):
        ent = tab[key]
        fi = ent.funcinfo(F)
        if fi is None:
            if ent.kind == 'ext' and ent.target.split('.')[0] in ('re', 'regex'):
                chk.bad(R1 if ent.target.startswith('regex') else R2, ent.label, '%s:%d' % (F.modules[functab.FUNCS_MOD].rel, ent.line),
                        'the engine entry point %s is exposed raw: the program chooses every argument, no timeout is passed' % ent.target)
            continue
        paths = SymExec(F, fi).run()
        va = getattr(fi.node.args, 'vararg', None)
        if va is not None:
            # the language calls the entry with as many positional arguments as the program writes: a *args forwarder is
            # analysed once per arity, so that each argument is seen where the callee binds it
            for k in range(0, 6):
                bind = {va.arg: ('tuple',) + tuple(('param', 'arg%d' % i) for i in range(k))}
                try:
                    paths += SymExec(F, fi, args=bind).run()
                except AnalysisError:
                    pass
        sites: Dict[str, Tuple[bool, str, int, str]] = {}
        nested = []
        uses_engine = False
        for p in paths:
            for e in p.events:
                ec = engine_call(e)
                if ec is None:
                    continue
                uses_engine = True
                mod, fn = ec
                cons = '%s :: `%s`' % (e.fn if e.depth() else ent.label, e.text())
                if mod == 're':
                    re_hits += 1
                    chk.bad(R2, cons, '%s:%d' % (fi.module.rel, e.line), 'stdlib re.%s has no timeout: a backtracking pattern runs unbounded' % fn)
                    continue
                kw = dict(freeze(e.kwargs))
                t = kw.get('timeout')
                if t is None:
                    sites[cons] = (False, 'no timeout= is passed to regex.%s' % fn, e.line, fi.module.rel)
                elif not is_const(t):
                    sites[cons] = (False, 'timeout=%s does not resolve to a constant' % show(t), e.line, fi.module.rel)
                elif t[1] is None or isinstance(t[1], bool) or not isinstance(t[1], (int, float)):
                    sites[cons] = (False, 'timeout=%r disables the timeout' % (t[1],), e.line, fi.module.rel)
                elif not (0 < t[1] <= T_MAX):
                    sites[cons] = (False, 'timeout=%r s is not a small positive bound (0 < t <= %s)' % (t[1], T_MAX), e.line, fi.module.rel)
                else:
                    sites.setdefault(cons, (True, 'timeout=%r s' % t[1], e.line, fi.module.rel))
        for cons, (ok, det, line, rel) in sorted(sites.items()):
            n_sites += 1
            chk.require(ok, R1, cons, '%s:%d' % (rel, line), det)
        if uses_engine:
            for p in paths:
                for e in p.events:
                    depth = len(e.in_ctx('loop')) + len(e.in_ctx('comp'))
                    if depth >= 2:
                        nested.append('`%s` sits in %d nested loops' % (e.text(), depth))
                    if depth >= 1 and e.kind == 'assume':
                        c_ = freeze(e.cond)
                        while isinstance(c_, tuple) and c_[:1] == ('not',):
                            c_ = c_[1]
                        if isinstance(c_, tuple) and c_[:1] == ('cmp',) and c_[1] in ('in', 'not in') and isinstance(c_[3], tuple) and c_[3][:1] == ('list',):
                            nested.append('`%s` searches a list inside a loop: a scan per iteration, quadratic in the number of matches' % e.text())
                    if depth >= 1 and e.kind == 'call':
                        f_ = freeze(e.func)
                        if isinstance(f_, tuple) and f_[:1] == ('attr',) and f_[2] in ('index', 'count', 'remove') and isinstance(f_[1], tuple) and f_[1][:1] == ('list',):
                            nested.append('`%s` scans a list inside a loop: quadratic in the number of matches' % e.text())
                    if depth >= 1 and engine_call(e) is not None:
                        nested.append('the engine call `%s` sits in a loop: every iteration gets a fresh timeout, so the total '
                                      'time is (number of iterations) x timeout, not one timeout' % e.text())
            chk.require(not nested, R3, ent.label, fi.where, '; '.join(sorted(set(nested))[:3]) or 'no nested loops around the engine call')
    # engine calls outside the function table: a helper module whose function is published to programs some other way (the
    # front end overriding a table entry, a host binding it) is reachable all the same.  Only calls whose pattern is not a
    # constant matter - a fixed pattern of the package's own is not chosen by the program.
    analysed = set()
    for key in tab:
        fi0 = tab[key].funcinfo(F)
        if fi0 is not None:
            analysed.add(fi0.qual)
    for q, fi in sorted(F.functions.items()):
        if '.ply' in fi.module.name or q in analysed or not isinstance(fi.node, ast.FunctionDef):
            continue
        if not any(isinstance(n, ast.Attribute) and n.attr in MATCHING for n in ast.walk(fi.node)):
            continue
        if any(q.startswith(a + '.') for a in analysed):
            continue
        try:
            paths = SymExec(F, fi).run()
        except AnalysisError:
            continue
        problems = []
        n_here = 0
        for p in paths:
            for e in p.events:
                ec = engine_call(e)
                if ec is None or e.depth() and e.fn in analysed:
                    continue
                f = freeze(e.func)
                pat = None
                if isinstance(f, tuple) and f[:2] == ('ref', 'ext'):
                    pat = freeze(e.args[0]) if e.args else dict(freeze(e.kwargs)).get('pattern')
                elif isinstance(f, tuple) and f[:1] == ('attr',) and isinstance(f[1], tuple) and f[1][:1] == ('call',) and f[1][3]:
                    pat = f[1][3][0]
                elif _compiled_modvar(f[1] if isinstance(f, tuple) and len(f) > 1 else None):
                    continue                    # compiled once at import from a constant
                if pat is not None and is_const(pat):
                    continue
                n_here += 1
                mod, fn = ec
                kw = dict(freeze(e.kwargs))
                t = kw.get('timeout')
                if mod == 're':
                    problems.append('`%s`: stdlib re has no timeout' % e.text())
                elif t is None or not is_const(t) or t[1] is None or isinstance(t[1], bool) or not isinstance(t[1], (int, float)) or not (0 < t[1] <= T_MAX):
                    problems.append('`%s`: timeout=%s is not a small positive constant' % (e.text(), show(t) if t is not None else '<missing>'))
                if len(e.in_ctx('loop')) + len(e.in_ctx('comp')) >= 1:
                    problems.append('the engine call `%s` sits in a loop: every iteration gets a fresh timeout, so the total time is '
                                    '(number of iterations) x timeout, not one timeout' % e.text())
        if n_here:
            chk.require(not problems, R3 if any('loop' in x for x in problems) else R1, '%s (engine call outside the function table)' % q,
                        fi.where, '; '.join(sorted(set(problems))[:3]) or '%d engine call(s) with a program-chosen pattern, timed and not in a loop' % n_here)
    # R2 self-test + verdict
    ex = ast.parse("import re\ndef f(p, s):\n    return re.search(p, s)\n")
    found = [n for n in ast.walk(ex) if isinstance(n, ast.Call) and isinstance(n.func, ast.Attribute) and n.func.attr in MATCHING]
    if len(found) != 1:
        raise AnalysisError('C05.R2 self-test failed')
    # also any import of re in modules reachable from functions
    fm = F.modules[functab.FUNCS_MOD]
    imports_re = [a for a, t in fm.imports.items() if t == 're' or t.startswith('re.')]
    if re_hits == 0:
        chk.ok(R2, 'stdlib re', fm.rel, 'no call into re from any function-table target%s (detector self-test 1/1)' % (
            '; note: `re` is imported as %s but never called with a timeout-less matching entry point' % imports_re if imports_re else ''))
