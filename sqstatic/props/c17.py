"""C17 -- the parse cache is transparent."""
from __future__ import annotations

import ast
from typing import Any, List, Optional, Tuple

from ..facts import AnalysisError, norm
from ..report import Check
from ..symexec import SymExec, freeze, show, Path, Event, closure_paths
from .. import opmodel as om
from .. import ctx as C
from .. import actions as A
from . import common

PARSER = 'smartquery.sq_parser.SqParser'
MUTATORS = {'append', 'extend', 'insert', 'pop', 'remove', 'clear', 'sort', 'reverse', 'update', 'setdefault',
            'popitem', '__setitem__', '__delitem__', 'add', 'discard'}


def cache_accesses(p: Path, cache) -> List[Tuple[str, Any, Optional[Event]]]:
    """(kind, key term, event) for every access to the cache mapping on a path."""
    out = []
    for e in p.events:
        if e.kind == 'assume':
            c = freeze(e.cond)
            if isinstance(c, tuple) and c and c[0] == 'cmp' and c[1] == 'in' and c[3] == cache:
                out.append(('member', c[2], e))
        elif e.kind in ('load_sub', 'store_sub', 'del_sub', 'aug_sub') and freeze(e.obj) == cache:
            out.append((e.kind, freeze(e.index), e))
        elif e.kind == 'call':
            f = freeze(e.func)
            if isinstance(f, tuple) and f and f[0] == 'attr' and f[1] == cache:
                out.append(('call.' + f[2], freeze(e.args)[0] if e.args else None, e))
    return out


_FACTS = [None]


def is_yacc_parse(e: Event, selft) -> bool:
    if e.kind != 'call':
        return False
    f = freeze(e.func)
    if not (isinstance(f, tuple) and f and f[0] == 'attr' and f[2] == 'parse' and isinstance(f[1], tuple)):
        return False
    if f[1][:2] == ('attr', selft) and f[1][2] != 'parse_cache':
        return True
    F_ = _FACTS[0] or common.CURRENT_FACTS[0]
    return F_ is not None and f[1] in common.parser_terms(F_, selft)


def check(chk: Check) -> None:
    F = chk.facts
    _FACTS[0] = F
    R1 = chk.rule('C17.R1', 'exact-text key: every access to the parse cache uses the source string parameter itself, '
                            'and eval hands parse the same string whether or not a cache is present', floor=3)
    R2 = chk.rule('C17.R2', 'only successful parses are stored (store after the parser returned, outside except/finally), '
                            'the stored tree is the one returned, misses return the fresh tree, hits the cached object', floor=3)
    R3 = chk.rule('C17.R3', 'cache absence and presence run the same parser code: one miss body, entered iff the cache '
                            'is None or lacks the key', floor=1)
    R4 = chk.rule('C17.R4', 'evaluation never writes to a tree: no store, mutation or hand-over of a mutable tree part in '
                            'any eval method or lambda closure', floor=8)
    R5 = chk.rule('C17.R5', 'results never alias a mutable part of the tree: a field returned by eval is only ever '
                            'constructed from immutable scalars', floor=1)
    R6 = chk.rule('C17.R6', 'no tree mutation after the parser returned (parse-time appends happen in grammar actions only)',
                  floor=1)
    R7 = chk.rule('C17.R7', 'no tree field holds a one-shot iterator: a grammar action never stores zip / map / filter / reversed / '
                            'enumerate / iter / itertools.* objects or generator expressions in a node (the first evaluation would '
                            'exhaust them: a cached tree evaluates differently the second time)', floor=40)
    chk.decided += ['cache key, store discipline, hit/miss returns (R1-R3)', 'immutability of trees under evaluation (R4)',
                    'no aliasing of results with tree parts (R5)', 'tree frozen once cached (R6)']
    chk.assumptions += ['the host-supplied mapping implements MutableMapping consistently (in / [] / []=)']

    q = PARSER + '.parse'
    fi = F.func(q)
    selfn = om.self_param(F, q)
    selft = ('param', selfn)
    params = [a.arg for a in fi.node.args.args]
    if len(params) < 2:
        raise AnalysisError('%s takes no source argument' % q)
    src = ('param', params[1])
    cache = ('attr', selft, 'parse_cache')
    paths = SymExec(F, fi).run()

    # --------------------------------------------------------------------- R1
    seen = {}
    for p in paths:
        for kind, key, e in cache_accesses(p, cache):
            k = (e.node if e.kind != 'assume' else id(e.node), kind)
            desc = '%s :: %s `%s`' % (q, kind, e.text())
            ok = key == src
            if desc not in seen or not ok:
                seen[desc] = (ok, key, e)
    for desc, (ok, key, e) in sorted(seen.items()):
        chk.require(ok, R1, desc, '%s:%d' % (fi.module.rel, e.line),
                    'key is %s' % ('the source parameter itself' if ok else '`%s`, not the text that was parsed' % show(key)))
    # uses of parse_cache elsewhere
    # ... except in helpers that run as part of parse (their statements are events of parse's paths) and in tests of
    # the cache object against None, which read nothing from it
    in_parse = set()
    for p in paths:
        for e in p.events:
            if e.node is not None:
                in_parse.update(ast.walk(e.node))
    for m in F.modules.values():
        if '.ply' in m.name:
            continue
        none_tests = set()
        for n in ast.walk(m.tree):
            if isinstance(n, ast.Compare) and len(n.ops) == 1 and isinstance(n.ops[0], (ast.Is, ast.IsNot)) and \
                    isinstance(n.comparators[0], ast.Constant) and n.comparators[0].value is None:
                none_tests.add(n.left)
        for n in ast.walk(m.tree):
            if isinstance(n, ast.Attribute) and n.attr == 'parse_cache':
                if n in in_parse or n in none_tests:
                    continue
                encl = _encl(F, m, n)
                fe_ = F.functions.get(encl)
                if fe_ is not None and isinstance(fe_.node, ast.FunctionDef):
                    deco_ = {(d.id if isinstance(d, ast.Name) else getattr(d, 'attr', None)) for d in fe_.node.decorator_list}
                    shows_ = bool(deco_ & {'property', 'cached_property'}) or fe_.node.name in ('__repr__', '__str__')
                    # a property / __repr__ that reports the size or the presence of the cache to the host: it may read the
                    # mapping (len(), bool, is None), it must not write into it or hand out trees
                    if shows_ and not any(isinstance(x, (ast.Subscript, ast.Call)) and isinstance(getattr(x, 'value', getattr(x, 'func', None)), ast.Attribute)
                                          and (getattr(x, 'value', None) is n or (isinstance(x, ast.Call) and isinstance(x.func, ast.Attribute) and x.func.value is n))
                                          for x in ast.walk(fe_.node)):
                        continue
                if encl not in (q, PARSER + '.__init__'):
                    chk.bad(R1, 'parse_cache used in %s' % encl, '%s:%d' % (m.rel, n.lineno),
                            'the cache is touched outside SqParser.parse: `%s`' % norm(n))
    # eval -> parse argument independent of the cache
    qe = PARSER + '.eval'
    fe = F.func(qe)
    epaths = SymExec(F, fe).run()
    argsets = set()
    dep = []
    site = None
    for p in epaths:
        for e in p.events:
            if e.kind == 'call' and e.resolved == q and e.depth() == 0:
                site = e
                argsets.add((A.strip_ids(freeze(e.args)), A.strip_ids(freeze(e.kwargs))))
                before = p.events[:p.events.index(e)]
                for b in before:
                    if b.kind == 'assume' and om.mentions(freeze(b.cond), 'parse_cache'):
                        dep.append(show(b.cond))
    if site is None:
        chk.bad(R1, qe + ' calls parse', fe.where, 'SqParser.eval does not obtain its tree from self.parse(...)')
    else:
        a = sorted(argsets, key=str)[0]
        argterm = (a[0] + tuple(v for _, v in a[1]))
        chk.require(len(argsets) == 1 and not dep and not om.mentions(argterm, 'parse_cache'),
                    R1, qe + ' :: `%s`' % site.text(), '%s:%d' % (fe.module.rel, site.line),
                    'the string handed to parse depends on the cache (%s)' % (', '.join(dep) or sorted(argsets, key=str))
                    if (len(argsets) != 1 or dep) else 'same argument `%s` on all %d paths' % (show(argterm[0]), len(epaths)))

    # ----------------------------------------------------------------- R2, R3
    miss_sigs = set()
    sigs_absent: set = set()
    sigs_present: set = set()
    n_store = n_miss_ret = n_hit_ret = 0
    r2_problems: List[Tuple[str, int, str]] = []
    r3_problems: List[str] = []
    ret_absent: set = set()
    ret_present: set = set()
    for p in paths:
        yp = [e for e in p.events if is_yacc_parse(e, selft)]
        acc = cache_accesses(p, cache)
        stores = [(k, key, e) for k, key, e in acc if k in ('store_sub', 'call.__setitem__', 'call.setdefault', 'call.update')]
        none_assumed = [v for c, v, _ in p.assumptions if c == ('cmp', 'is', cache, ('const', None))]
        cache_absent = bool(none_assumed and none_assumed[0])
        member = [(c, v) for c, v, _ in p.assumptions if isinstance(c, tuple) and c and c[0] == 'cmp'
                  and c[1] == 'in' and c[3] == cache]
        missing = None
        for c, v in member[:1]:
            missing = not v

        def is_get(t):
            return isinstance(t, tuple) and len(t) >= 4 and t[0] == 'call' and t[2] == ('attr', cache, 'get') \
                and t[3] and t[3][0] == src and (len(t[3]) == 1 or t[3][1] == ('const', None))
        for c, v, _ in p.assumptions:
            # idiom: cached = cache.get(expr); if cached is None: <miss>
            if isinstance(c, tuple) and c[:2] == ('cmp', 'is') and is_get(c[2]) and c[3] == ('const', None) and missing is None:
                missing = v
            elif is_get(c) and missing is None:
                missing = not v
        if yp:
            # a miss (or no cache)
            if not (cache_absent or missing):
                r3_problems.append('the parser also runs on a path where the key is present in the cache')
            if len(yp) > 1:
                r3_problems.append('the parser is run %d times on one path' % len(yp))
            pos = p.events.index(yp[0])
            acc_ev = {id(x[2]) for x in acc}
            # what is done to get the parser going: stores and calls that are not mere markers of inlined helpers, not cache
            # traffic and not the internals of a cache stand-in (a null object's __contains__ has no effect on the parser)
            sig = tuple((e.kind, e.text()) for e in p.events[:pos + 1]
                        if e.kind not in ('assume', 'return', 'loop_test', 'loop_skip', 'binop') and id(e) not in acc_ev
                        and not (e.kind == 'call' and e.d.get('inlined')))
            miss_sigs.add(sig)
            (sigs_absent if cache_absent else sigs_present).add(sig)
            for k, key, e in stores:
                n_store += 1
                line = e.line
                if p.events.index(e) < pos:
                    r2_problems.append(('store `%s`' % e.text(), line, 'the cache is filled before the parser has returned'))
                if e.in_ctx('handler') or e.in_ctx('finally'):
                    r2_problems.append(('store `%s`' % e.text(), line, 'the cache is filled inside an except/finally block: '
                                        'failed parses are cached too'))
                if p.normal and freeze(e.value) != p.outcome[1]:
                    r2_problems.append(('store `%s`' % e.text(), line, 'stores %s but returns %s' % (show(e.value), show(p.outcome[1]))))
            if p.normal:
                n_miss_ret += 1
                ret = p.outcome[1]
                (ret_absent if cache_absent else ret_present).add(A.strip_ids(ret))
                if om.mentions(ret, cache):
                    r2_problems.append(('miss return', p.events[-1].line, 'a miss re-reads the cache (`%s`) instead of returning the '
                                        'fresh tree: an evicting mapping breaks it' % show(ret)))
                elif not om.mentions(ret, common.lexer_term(F, selft)) and not om.mentions(ret, yp[0].eid):
                    r2_problems.append(('miss return', p.events[-1].line, 'a miss returns %s, which is not the tree the parser just built' % show(ret)))
                if not cache_absent and not stores:
                    r2_problems.append(('miss without store', p.events[-1].line, 'a miss with a cache present stores nothing'))
                if cache_absent and stores:
                    r2_problems.append(('store without cache', stores[0][2].line, 'store although no cache was supplied'))
        else:
            if p.normal:
                n_hit_ret += 1
                if p.outcome[1] != ('sub', cache, src) and not is_get(p.outcome[1]):
                    r2_problems.append(('hit return', p.events[-1].line if p.events else 0,
                                        'a hit returns %s, not the cached object' % show(p.outcome[1])))
                if stores:
                    r2_problems.append(('store on hit', stores[0][2].line, 'the cache is written on a hit'))
    if ret_absent and ret_present and ret_absent != ret_present:
        only_p = sorted(show(x)[:80] for x in ret_present - ret_absent)
        only_a = sorted(show(x)[:80] for x in ret_absent - ret_present)
        r3_problems.append('a miss returns a different tree with a cache than without one (with: %s; without: %s): the cache is visible '
                           'in what is evaluated' % ('; '.join(only_p) or 'same', '; '.join(only_a) or 'same'))
    # subscripts that can fail (an index into something computed from the text - for a label, a log line) must not exist on the
    # cache-present paths only: `source.splitlines()[0]` raises for the empty text, with a cache and not without
    sub_absent, sub_present = set(), {}
    for p in paths:
        none_assumed = [v for c, v, _ in p.assumptions if c == ('cmp', 'is', cache, ('const', None))]
        absent = bool(none_assumed and none_assumed[0])
        for e in p.events:
            if e.kind == 'load_sub' and not om.mentions(freeze(e.obj), cache) and not om.mentions(freeze(e.obj), common.lexer_term(F, selft)) \
                    and not (isinstance(freeze(e.obj), tuple) and freeze(e.obj)[:1] == ('ref',)):        # (typing generics: MutableMapping[str, Op])
                if absent:
                    sub_absent.add(e.text())
                else:
                    sub_present.setdefault(e.text(), e.line)
    for tx, ln in sorted(sub_present.items()):
        if tx not in sub_absent and any(c == ('cmp', 'is', cache, ('const', None)) for p_ in paths for c, _v, _ in p_.assumptions):
            r3_problems.append('`%s` (line %d) is evaluated only on paths with a cache: if it fails (an index into an empty sequence) the call '
                               'raises with a cache and succeeds without one' % (tx, ln))
    if sigs_absent and sigs_present and sigs_absent != sigs_present:
        r3_problems.append('with and without a cache the parser is driven differently (%d preparation sequence(s) occur only %s)' % (
            len(sigs_absent ^ sigs_present), 'with a cache' if sigs_present - sigs_absent else 'without one'))
    where = fi.where
    for cons in ('store', 'miss return', 'hit return'):
        mine = [x for x in r2_problems if x[0].startswith(cons) or (cons == 'store' and x[0].startswith('miss without'))]
        n = {'store': n_store, 'miss return': n_miss_ret, 'hit return': n_hit_ret}[cons]
        if n == 0 and not mine:
            continue
        chk.require(not mine, R2, q + ' :: ' + cons, '%s:%d' % (fi.module.rel, mine[0][1]) if mine else where,
                    '; '.join(sorted({m[2] for m in mine})) or '%d path(s)' % n)
    chk.require(not r3_problems and miss_sigs, R3, q + ' :: miss body', where,
                '; '.join(sorted(set(r3_problems))) or 'one parsing body, entered iff the cache is None or lacks the key')

    # --------------------------------------------------------------------- R7
    ITER_BUILTINS = {'zip', 'map', 'filter', 'reversed', 'enumerate', 'iter'}

    def one_shot(t):
        t = freeze(t)
        if not isinstance(t, tuple) or not t:
            return None
        if t[0] == 'call' and isinstance(t[2], tuple) and t[2][:2] == ('ref', 'builtin') and t[2][2] in ITER_BUILTINS:
            return '%s(...)' % t[2][2]
        if t[0] == 'call' and isinstance(t[2], tuple) and t[2][:2] == ('ref', 'ext') and t[2][2].startswith('itertools.'):
            return t[2][2]
        if t[0] == 'comp' and t[1] == 'gen':
            return 'a generator expression'
        if t[0] == 'call' and isinstance(t[2], tuple) and t[2][:1] == ('attr',) and t[2][2] in ('items', 'keys', 'values') and False:
            return None
        return None
    for t in C.templates(F).all():
        if t.raises is not None:
            continue
        found = []
        terms = [t.result] + [freeze(e.value) for e in t.events if e.kind in ('store_attr', 'store_sub')] + \
                [a for e in t.events if e.kind == 'call' for a in freeze(e.args)]
        for term in terms:
            for c, flds in A.new_nodes(term):
                for fn_, fv in flds:
                    w = one_shot(fv)
                    if w:
                        found.append('%s.%s = %s' % (c.rsplit('.', 1)[-1], fn_, w))
        chk.require(not found, R7, 'template %s' % t.key, '%s:%d' % (C.grammar(F).module.rel, t.prod.line),
                    '; '.join(sorted(set(found))) + ': consumed by the first evaluation' if found else 'node fields hold lists / nodes / scalars')

    # --------------------------------------------------------------------- R6
    r6 = []
    for p in paths + epaths:
        yp = [e for e in p.events if is_yacc_parse(e, selft)]
        if not yp:
            continue
        pos = p.events.index(yp[0])
        tree_src = ('attr', common.lexer_term(F, selft), 'ast')
        for e in p.events[pos + 1:]:
            if e.kind in ('store_attr', 'store_sub', 'aug_attr', 'aug_sub', 'del_sub') and om.mentions(freeze(e.obj), tree_src):
                r6.append('`%s` (line %d) modifies the tree after the parser returned' % (e.text(), e.line))
            if e.kind == 'call':
                f = freeze(e.func)
                if isinstance(f, tuple) and f and f[0] == 'attr' and f[2] in MUTATORS and om.mentions(f[1], tree_src):
                    r6.append('`%s` (line %d) modifies the tree after the parser returned' % (e.text(), e.line))
    chk.require(not r6, R6, q + ' :: after yacc.parse', where, '; '.join(sorted(set(r6))) or 'the tree is not touched between the parser\'s return and the cache store')

    _r4_r5(chk, R4, R5)
    _r7_memo(chk)
    _r9_identity(chk)


def _encl(F, m, node) -> str:
    best = None
    for qn, fi in F.functions.items():
        if fi.module is m and any(x is node for x in ast.walk(fi.node)):
            if best is None or fi.node.lineno >= F.functions[best].node.lineno:
                best = qn
    return best or m.name


def _r7_memo(chk: Check) -> None:
    """With a parse cache the tree of a text is built once, without one it is built on every call: the two agree only if building
    it twice gives the same tree.  An action that takes a node out of a memo (functools.lru_cache: keyed by == and hash, bounded,
    evicting) builds whatever an earlier, merely equal literal left there - or a fresh one after an eviction."""
    F = chk.facts
    R7 = chk.rule('C17.R8', 'parsing a text twice builds the same tree: no grammar action obtains a node (or a value it stores in a node) '
                            'from a memoised function', floor=40)
    T = C.templates(F)
    g = C.grammar(F)
    by_prod = {}
    for t in T.all():
        by_prod.setdefault(t.prod.index, []).append(t)
    for pi, ts in sorted(by_prod.items()):
        p = g.productions[pi]
        problems = []
        for t in ts:
            for e in t.events:
                if e.kind != 'call':
                    continue
                memo = None
                if e.resolved in F.functions and common.memo_decorators(F.functions[e.resolved].node):
                    memo = '%s (%s)' % (e.resolved, common.memo_decorators(F.functions[e.resolved].node)[0])
                else:
                    f = freeze(e.func)
                    if isinstance(f, tuple) and f[:2] == ('ref', 'modvar') and len(f) == 3 and common.memo_wrapped(F, f[2]) is not None:
                        memo = '%s (a memo around %s)' % (f[2], common.memo_wrapped(F, f[2])[1])
                if memo:
                    problems.append('the action goes through the memo %s: equal literals written differently (2.5 / 2.50) share an entry and '
                                    'entries are evicted, so a second parse of the same text can build a different tree than the cached one' % memo)
        chk.require(not problems, R7, 'action of `%s`' % p, '%s:%d' % (g.module.rel, p.line),
                    '; '.join(sorted(set(problems))) or 'builds its node itself')
    # what is computed while the tree is built is frozen into a cached tree, and computed afresh by an uncached parse.  Two places
    # compute at that moment: the default factories of node fields, and the token rules (numerals converted under the decimal
    # context of the moment)
    for cls_, fld_, r_, line_, node_ in common.default_factory_nodes(chk):
        ok_ = r_[0] == 'cls' or (r_[0] == 'builtin' and r_[1] in ('list', 'dict', 'tuple', 'set', 'frozenset'))
        chk.require(ok_, R7, 'default factory %s.%s' % (cls_, fld_), '%s:%d' % (F.cls(cls_).module.rel, line_),
                    'builds a constant node / empty container' if ok_ else
                    'the default of this field is computed by `%s` when the node is built: what that reads (a module-level switch, a '
                    'registry) at parse time stays in a cached tree, while an uncached parse reads it again at every call' % norm(node_)[:80])
    from . import numeric as N_
    N_.context_untouched(chk, R7)


def _r9_identity(chk: Check) -> None:
    """Two parses of one text give equal trees; with a cache they are one object, without they are two.  Code that asks for the
    identity of an object (id(x), `a is b`) where trees flow behaves differently in the two cases."""
    import ast as _ast
    F = chk.facts
    R9 = chk.rule('C17.R9', 'nothing depends on which object a tree is: in the modules of the parser class and of the node classes '
                            'no id(...) outside a message, no `is` / `is not` between two values (tests against None, True, False, '
                            '..., a class or a module-level sentinel are comparisons with a constant)', floor=1)
    mods = {F.functions[PARSER + '.parse'].module.name}
    for cls in om.op_classes(F):
        ci = F.classes.get(cls)
        if ci is not None:
            mods.add(ci.module.name)
    host_only = F.host_only_functions()
    log_nodes = common.logger_call_nodes(F)
    n_fun = 0
    problems = []
    for q, fi in sorted(F.functions.items()):
        if fi.module.name not in mods or q in host_only or not isinstance(fi.node, (_ast.FunctionDef, _ast.Lambda)):
            continue
        n_fun += 1
        parents = {}
        for n in _ast.walk(fi.node):
            for c in _ast.iter_child_nodes(n):
                parents[c] = n

        def in_message(n):
            while n in parents:
                n = parents[n]
                if isinstance(n, (_ast.Raise, _ast.JoinedStr)):
                    return True
                if n in log_nodes:
                    return True
                if isinstance(n, (_ast.FunctionDef, _ast.Lambda)) and n is not fi.node:
                    return False
            return False

        def constantish(e):
            if isinstance(e, _ast.Constant):
                return True
            if isinstance(e, _ast.Call) and isinstance(e.func, _ast.Name) and e.func.id in ('type', 'bool'):
                return True                     # a class / one of the two bool singletons
            if isinstance(e, (_ast.Compare, _ast.BoolOp)) or (isinstance(e, _ast.UnaryOp) and isinstance(e.op, _ast.Not)):
                return True
            if isinstance(e, _ast.Attribute) and isinstance(e.value, (_ast.Name, _ast.Attribute)):
                base = norm(e.value)
                imp_b = fi.module.imports.get(base.split('.')[0])
                if (fi.module.name + '.' + base) in F.classes or (imp_b and (imp_b in F.classes or imp_b + base[len(base.split('.')[0]):] in F.classes)):
                    return True                 # a class attribute (enum member, class-level constant): one object per process
            if isinstance(e, (_ast.Name, _ast.Attribute)):
                name = norm(e)
                qn = fi.module.name + '.' + name
                imp0 = fi.module.imports.get(name.split('.')[0])
                if qn in F.classes or (imp0 and (imp0 in F.classes or imp0 + name[len(name.split('.')[0]):] in F.classes)) or name in ('int', 'str', 'list', 'dict', 'bool', 'float', 'tuple', 'set', 'NotImplemented', 'Ellipsis'):
                    return True
                vals = fi.module.assigns.get(name, []) if isinstance(e, _ast.Name) else []
                if len(vals) == 1 and isinstance(vals[0], _ast.Call) and isinstance(vals[0].func, _ast.Name) and vals[0].func.id == 'object':
                    return True
            return False
        for n in _ast.walk(fi.node):
            if isinstance(n, _ast.Call) and isinstance(n.func, _ast.Name) and n.func.id == 'id' and len(n.args) == 1 and not in_message(n):
                problems.append(('%s :: `%s`' % (q, norm(n)), '%s:%d' % (fi.module.rel, n.lineno),
                                 'the identity of an object is used as a value (a key, a comparand): two parses of one text give '
                                 'equal trees, a parse cache gives the same tree twice - code keyed by identity tells them apart'))
            if isinstance(n, _ast.Compare):
                left = n.left
                for op, right in zip(n.ops, n.comparators):
                    if isinstance(op, (_ast.Is, _ast.IsNot)) and not constantish(left) and not constantish(right):
                        problems.append(('%s :: `%s`' % (q, norm(n)), '%s:%d' % (fi.module.rel, n.lineno),
                                         '`is` between two values: whether they are the same object depends on whether the tree came '
                                         'out of the cache'))
                    left = right
    for cons, where, why in problems:
        chk.bad(R9, cons, where, why)
    chk.require(n_fun > 0, R9, 'identity-free modules', ', '.join(sorted(mods)),
                '%d function(s) of %s scanned: %s' % (n_fun, ', '.join(sorted(mods)), 'no other use of object identity' if not problems else
                                                     '%d use(s) of object identity' % len(problems)))


def _r4_r5(chk: Check, R4: str, R5: str) -> None:
    F = chk.facts
    T = C.templates(F)
    lm = C.lexmodel(F)
    units = []
    for cls in om.op_classes(F):
        if not om.own_eval(F, cls):
            if cls != om.ROOT:
                chk.ok(R4, cls + ' (inherits eval)', F.cls(cls).module.rel + ':%d' % F.cls(cls).node.lineno, 'no own eval body')
            continue
        qn = cls + '.eval'
        units.append((qn, cls, om.eval_paths(F, cls), ('param', om.self_param(F, qn))))
    for owner, c, p in common.eval_closures(chk):
        fi = F.func(owner)
        units.append((c.qual, owner.rsplit('.', 1)[0], closure_paths(F, fi, c), ('param', om.self_param(F, owner))))
    returned_fields = {}
    for qn, cls, paths, selft in units:
        problems = []
        kinds = om.op_field_kinds(F, cls)
        for p in paths:
            for e in p.events:
                if e.kind in ('store_attr', 'aug_attr', 'del_attr'):
                    o = freeze(e.obj)
                    if o == selft or om.base_field(o, selft):
                        problems.append('`%s` writes an attribute of the tree' % e.text())
                if e.kind in ('store_sub', 'aug_sub', 'del_sub'):
                    if om.base_field(freeze(e.obj), selft) or freeze(e.obj) == selft:
                        problems.append('`%s` writes into a container owned by the tree' % e.text())
                if e.kind == 'aug_name' and om.base_field(freeze(e.cur), selft):
                    problems.append('`%s` may modify a tree container in place' % e.text())
                if e.kind == 'call' and not e.d.get('inlined'):
                    f = freeze(e.func)
                    if isinstance(f, tuple) and f and f[0] == 'attr' and f[2] in MUTATORS and om.base_field(f[1], selft):
                        problems.append('`%s` mutates a container owned by the tree' % e.text())
                    # hand-over of a mutable tree part (a list field itself) to someone else
                    if not (isinstance(f, tuple) and f and f[0] == 'attr' and f[2] == om.EVAL):
                        pure = isinstance(f, tuple) and f[:2] == ('ref', 'builtin') and f[2] in (
                            'len', 'isinstance', 'zip', 'enumerate', 'reversed', 'iter', 'list', 'tuple', 'sorted', 'str', 'repr', 'bool')
                        for a in tuple(freeze(e.args)) + tuple(v for _, v in freeze(e.kwargs)):
                            inner = a[1] if isinstance(a, tuple) and a and a[0] == 'star' else a
                            if isinstance(inner, tuple) and inner[:2] == ('attr', selft) and kinds.get(inner[2]) in ('oplist', 'pairlist', 'list') \
                                    and not pure and not (isinstance(a, tuple) and a[0] == 'star'):
                                problems.append('`%s` hands the tree\'s own list self.%s to `%s`' % (e.text(), inner[2], show(f)))
            if p.normal:
                ret = p.outcome[1]
                for fn_ in kinds:
                    if om.carries(ret, ('attr', selft, fn_)):
                        returned_fields.setdefault((cls, fn_), qn)
        where = F.func(qn).where if qn in F.functions else ''
        chk.require(not problems, R4, qn, where, '; '.join(sorted(set(problems))) or 'reads the tree only')
    # R5
    for (cls, fld), qn in sorted(returned_fields.items()):
        sites = []
        bad = []
        for t in T.all():
            terms = [t.result] + [freeze(e.value) for e in t.events if e.kind == 'store_attr'] + \
                    [freeze(e.args) for e in t.events if e.kind == 'call']
            for term in terms:
                for c, flds in A.new_nodes(term):
                    if c == cls:
                        v = dict(flds).get(fld)
                        sites.append((t.key, v))
                        if not _immutable(F, lm, v):
                            bad.append('%s supplies %s' % (t.key, show(v)))
        for c2, f2, r, line, node in common.default_factory_nodes(chk):
            if r == ('cls', cls) and isinstance(node, ast.Call):
                ok = all(isinstance(a, ast.Constant) for a in node.args) and all(isinstance(k.value, ast.Constant) for k in node.keywords)
                sites.append(('default factory %s.%s' % (c2, f2), norm(node)))
                if not ok:
                    bad.append('default factory %s.%s supplies `%s`' % (c2, f2, norm(node)))
        # constructor calls outside the grammar actions (a post-processing pass, a front-end shortcut): the field must be a
        # constant written at the call site - anything computed may be a list or dict, which eval would then hand out, the
        # same object on every evaluation
        g_mod = C.grammar(F).module
        fld_names = [f_[0] for f_ in F.all_fields(cls, ctor=True)] if cls in F.classes else []
        for m_ in F.modules.values():
            if '.ply' in m_.name or m_ is g_mod:
                continue
            for n_ in ast.walk(m_.tree):
                if isinstance(n_, ast.Call) and F.resolve_expr(m_, n_.func) == ('cls', cls):
                    arg_ = None
                    for k_ in n_.keywords:
                        if k_.arg == fld:
                            arg_ = k_.value
                    if arg_ is None and fld in fld_names and fld_names.index(fld) < len(n_.args):
                        arg_ = n_.args[fld_names.index(fld)]
                    if arg_ is None:
                        continue
                    if isinstance(arg_, ast.Constant):
                        sites.append(('%s:%d' % (m_.rel, n_.lineno), norm(arg_)))
                        continue
                    inside_factory = any(isinstance(x, ast.Call) and any(isinstance(kw_.value, ast.Lambda) and n_ in ast.walk(kw_.value) for kw_ in x.keywords)
                                         for x in ast.walk(m_.tree))
                    if inside_factory:
                        continue            # default factories are audited above
                    sites.append(('%s:%d' % (m_.rel, n_.lineno), norm(arg_)))
                    bad.append('%s:%d builds %s(%s=%s) outside the grammar from a computed value (it may be a list or dict; eval hands '
                               'out that very object on every evaluation)' % (m_.rel, n_.lineno, cls.rsplit('.', 1)[-1], fld, norm(arg_)[:60]))
        chk.require(not bad and sites, R5, '%s returns self.%s' % (qn, fld), F.func(qn).where if qn in F.functions else '',
                    '; '.join(bad) or 'all %d constructor sites supply immutable scalars (token text, Decimal, True/False/None)' % len(sites))


def _immutable(F, lm, v) -> bool:
    if not isinstance(v, tuple) or not v:
        return False
    if v[0] == 'const':
        return v[1] is None or isinstance(v[1], (str, int, float, bool, bytes)) or v[1] is Ellipsis
    if v[0] == 'tok':
        return token_value_immutable(F, lm, v[2])
    if v[0] == 'default':
        return True     # checked through the default factories
    return False


def token_value_immutable(F, lm, tok: str) -> bool:
    """The semantic value of a token is a str, or a value built by str methods / a Decimal constructor."""
    rm = lm.rules.get(tok)
    if rm is None or rm.rule.func is None or not rm.value_changed:
        return True     # raw matched text
    for p in rm.paths:
        for e in p.events:
            if e.kind == 'store_attr' and e.attr == 'value':
                if not _scalar_expr(F, freeze(e.value)):
                    return False
    return True


def _is_compiled_regex(F, t) -> bool:
    """t is a module-level name assigned once, from re.compile(...) / regex.compile(...)."""
    if not (isinstance(t, tuple) and t[:2] == ('ref', 'modvar')):
        return False
    mod, _, name = t[2].rpartition('.')
    m = F.modules.get(mod)
    if m is None or len(m.assigns.get(name, [])) != 1 or not isinstance(m.assigns[name][0], ast.Call):
        return False
    return F.resolve_expr(m, m.assigns[name][0].func) in (('ext', 're.compile'), ('ext', 'regex.compile'))


def _scalar_expr(F, t) -> bool:
    if not isinstance(t, tuple) or not t:
        return False
    if t[0] == 'const':
        return True
    if t[0] == 'attr' and t[2] == 'value':
        return True
    if t[0] == 'sub':
        return _scalar_expr(F, t[1])
    if t[0] == 'call':
        f = t[2]
        if isinstance(f, tuple) and f[0] == 'attr' and f[2] in ('replace', 'strip', 'lower', 'upper', 'lstrip', 'rstrip',
                                                               'encode', 'decode', 'format', 'join', 'translate'):
            return _scalar_expr(F, f[1])
        if isinstance(f, tuple) and f[0] == 'attr' and f[2] in ('sub', 'subn') and _is_compiled_regex(F, f[1]):
            return True         # <compiled pattern>.sub(repl, s) returns a str whatever repl is
        if isinstance(f, tuple) and f[0] == 'ref':
            if f[1] == 'ext' and f[2] in ('re.sub', 'regex.sub', 're.escape'):
                return True
            if f[1] == 'builtin' and f[2] in ('str', 'int', 'float', 'bool'):
                return True
            if f[1] == 'ext' and f[2] in ('decimal.Decimal',):
                return True
        return False
    if t[0] == 'new':
        return 'decimal.Decimal' in F.ext_bases(t[1])
    if t[0] == 'fstr':
        return True
    if t[0] == 'binop' and len(t) == 4:
        return _scalar_expr(F, t[2]) and _scalar_expr(F, t[3])     # str + str, str * n, str % scalar: scalars again
    return False
