"""Shared numeric-domain helpers for C04 / C08 / C19."""
from __future__ import annotations

import ast
from typing import Any, List, Optional, Set, Tuple

from ..facts import Facts, AnalysisError, norm
from ..symexec import freeze, show, is_const

STDLIB_DECIMAL = 'decimal.Decimal'
UNBOUNDED_INT_FUNCS = {('builtin', 'int'), ('ext', 'math.floor'), ('ext', 'math.ceil'), ('ext', 'math.trunc'), ('ext', 'math.factorial'),
                       ('ext', 'math.comb'), ('ext', 'math.perm'), ('ext', 'math.isqrt'), ('ext', 'math.prod'), ('ext', 'math.gcd'),
                       ('ext', 'math.lcm')}
FLOAT_FUNCS_EXT = {'math.sqrt', 'math.fsum', 'math.pow', 'math.exp', 'math.log', 'math.log2', 'math.log10', 'math.fabs',
                   'math.sin', 'math.cos', 'math.tan', 'math.atan', 'math.hypot', 'math.fmod', 'math.ldexp', 'math.copysign',
                   'math.degrees', 'math.radians', 'random.random', 'random.uniform', 'random.gauss', 'statistics.mean',
                   'statistics.fmean', 'statistics.median', 'statistics.stdev', 'operator.truediv'}


def decimal_classes(F: Facts) -> Set[str]:
    """Package classes deriving from decimal.Decimal that do not override arithmetic or __new__."""
    out = set()
    for q, ci in F.classes.items():
        if STDLIB_DECIMAL in F.ext_bases(q):
            out.add(q)
    return out


def is_decimal_ctor(F: Facts, t) -> Optional[Any]:
    """If t is Decimal(x) (stdlib class or a package subclass): the argument term x."""
    t = freeze(t)
    if not isinstance(t, tuple) or not t:
        return None
    if t[0] == 'new' and t[1] in decimal_classes(F):
        args = [v for n, v in t[2] if n.startswith('arg')]
        return args[0] if len(args) == 1 else None
    if t[0] == 'call' and t[2] == ('ref', 'ext', STDLIB_DECIMAL) and len(t[3]) == 1:
        return t[3][0]
    return None


def numeric_type_tuple(F: Facts, t) -> Optional[List[Tuple[str, str]]]:
    """Resolve the class argument of an isinstance test to a list of class refs, following module-level tuples."""
    t = freeze(t)
    if isinstance(t, tuple) and t:
        if t[0] == 'tuple':
            out = []
            for x in t[1:]:
                r = numeric_type_tuple(F, x)
                if r is None:
                    return None
                out.extend(r)
            return out
        if t[0] == 'ref' and t[1] in ('builtin', 'ext', 'cls'):
            return [(t[1], t[2])]
        if t[0] == 'ref' and t[1] == 'modvar':
            mod, _, var = t[2].rpartition('.')
            m = F.modules.get(mod)
            if m and var in m.assigns and len(m.assigns[var]) == 1 and isinstance(m.assigns[var][0], (ast.Tuple, ast.List)):
                out = []
                for e in m.assigns[var][0].elts:
                    r = F.resolve_expr(m, e)
                    if r[0] not in ('builtin', 'ext', 'cls'):
                        return None
                    out.append((r[0], r[1]))
                return out
    return None


def all_numeric(F: Facts, refs: List[Tuple[str, str]]) -> bool:
    ok = {('builtin', 'int'), ('builtin', 'float'), ('builtin', 'bool'), ('ext', STDLIB_DECIMAL), ('ext', 'numbers.Number'),
          ('ext', 'numbers.Real'), ('ext', 'numbers.Integral'), ('ext', 'fractions.Fraction')}
    for r in refs:
        if r in ok:
            continue
        if r[0] == 'cls' and r[1] in decimal_classes(F):
            continue
        return False
    return bool(refs)


def numeric_guarded(F: Facts, operand, assumptions) -> bool:
    """Is there an assumption isinstance(operand, <numeric types>) == True on this path?"""
    operand = freeze(operand)
    for c, v, _ in assumptions:
        if v and isinstance(c, tuple) and c[:2] == ('pcall', 'isinstance') and len(c[2]) == 2 and c[2][0] == operand:
            refs = numeric_type_tuple(F, c[2][1])
            if refs is not None and all_numeric(F, refs):
                return True
    return False


def unbounded_int_source(t) -> Optional[str]:
    """If the term is (text of) a Python int of unbounded size: a description of its source."""
    t = freeze(t)
    if not isinstance(t, tuple) or not t:
        return None
    if t[0] == 'call':
        f = t[2]
        if isinstance(f, tuple) and f[0] == 'ref' and (f[1], f[2]) in UNBOUNDED_INT_FUNCS:
            return show(t)
        if f == ('ref', 'builtin', 'round') and (len(t[3]) == 1 or (len(t[3]) == 2 and t[3][1] == ('const', None))) and not t[4]:
            return show(t)
        if f == ('ref', 'builtin', 'round') and any(k == 'ndigits' and v == ('const', None) for k, v in t[4]):
            return show(t)
        if f in (('ref', 'builtin', 'str'), ('ref', 'builtin', 'repr'), ('ref', 'builtin', 'abs')) and len(t[3]) == 1:
            return unbounded_int_source(t[3][0])
        if f == ('ref', 'builtin', 'format') and len(t[3]) == 2 and not t[4]:
            why = _spec_writes_digits(t[3][1])
            if why:
                return '%s [%s]' % (show(t), why)
    if t[0] == 'fstr':
        for part in t[1:]:
            if isinstance(part, tuple) and part[:1] == ('fmt',):
                why = _spec_writes_digits(part[2])
                if why:
                    return '%s [%s]' % (show(t), why)
    return None


def source_kind(t) -> str:
    """The primitive behind an unbounded source, independent of how its operands are spelled (keys of findings use it)."""
    t = freeze(t)
    while isinstance(t, tuple) and t[:1] == ('call',) and t[2] in (('ref', 'builtin', 'str'), ('ref', 'builtin', 'repr'), ('ref', 'builtin', 'abs')) \
            and len(t[3]) == 1:
        t = t[3][0]
    if isinstance(t, tuple) and t[:1] == ('call',) and isinstance(t[2], tuple) and t[2][:1] == ('ref',):
        return t[2][2].rsplit('.', 1)[-1] + '()'
    if isinstance(t, tuple) and t[:1] == ('fstr',):
        return 'f-string'
    return 'value'


def _spec_writes_digits(spec) -> Optional[str]:
    """Why the text a number is formatted to under this format specification can have more digits than the number: fixed-point
    presentation writes a large exponent out in digits and pads to the requested precision; a precision that is not a small
    constant pads without bound.  The Decimal constructor takes all of them (it is exact)."""
    import re
    spec = freeze(spec)
    if not (isinstance(spec, tuple) and spec[:1] == ('const',) and isinstance(spec[1], str)):
        return 'the format specification is computed, so is the number of digits written'
    m = re.fullmatch(r'(?:.?[<>=^])?[-+ ]?z?#?0?(\d*)[_,]?(?:\.(\d+))?([a-zA-Z%]?)', spec[1])
    if m is None:
        return None
    prec, ty = m.group(2), m.group(3)
    if ty in ('f', 'F', '%'):
        return 'fixed-point presentation writes the exponent out in digits and pads to the precision'
    if prec and int(prec) > 27 and ty in ('e', 'E'):
        return 'precision above 28 digits pads with zeros the exact constructor keeps'
    return None


def float_sources(t) -> List[str]:
    """Binary floating-point values occurring in a term."""
    t = freeze(t)
    out: List[str] = []

    def walk(x):
        if isinstance(x, tuple):
            if x[:1] == ('const',) and len(x) == 2 and isinstance(x[1], float):
                out.append('float literal %r' % x[1])
                return
            if x[:1] == ('call',) and len(x) >= 4:
                f = x[2]
                if f == ('ref', 'builtin', 'float'):
                    out.append('float(...)')
                elif isinstance(f, tuple) and f[:2] == ('ref', 'ext') and f[2] in FLOAT_FUNCS_EXT:
                    out.append(f[2])
            if x[:1] == ('binop',) and x[1] == '%' and isinstance(x[2], tuple) and x[2][:1] == ('const',) and isinstance(x[2][1], str):
                import re as _re
                if _re.search(r'%[-+ #0]*(\*|\d+)?(\.(\*|\d+))?[eEfFgG]', x[2][1]):
                    out.append('printf-style %s formatting (converts a Decimal to a binary double first)' % _re.search(r'%[^%]*?[eEfFgG]', x[2][1]).group(0))
            # formatting with a precision / float presentation type writes fewer digits than the number has
            spec_ = None
            if x[:1] == ('call',) and len(x) >= 4 and x[2] == ('ref', 'builtin', 'format') and len(x[3]) == 2:
                spec_ = x[3][1]
            elif x[:1] == ('fmt',) and len(x) >= 3:
                spec_ = x[2]
            elif x[:1] == ('call',) and len(x) >= 4 and isinstance(x[2], tuple) and x[2][:1] == ('attr',) and x[2][2] == 'format' \
                    and isinstance(x[2][1], tuple) and x[2][1][:1] == ('const',) and isinstance(x[2][1][1], str):
                import re as _re
                m_ = _re.search(r'\{[^{}]*:[^{}]*(\.\d+|[eEfFgG%])[^{}]*\}', x[2][1][1])
                if m_:
                    out.append('str.format with the precision / float format %s (digits beyond it are dropped)' % m_.group(0))
            if spec_ is not None:
                if isinstance(spec_, tuple) and spec_[:1] == ('const',) and isinstance(spec_[1], str):
                    import re as _re
                    if _re.search(r'\.\d+|[eEfFgGn%]', spec_[1]):
                        out.append('format(..., %r): a precision / float presentation type keeps only that many digits' % spec_[1])
                else:
                    out.append('format(...) with a format specification that is not a constant')
            if x[:1] == ('binop',) and x[1] == '/':
                l, r = x[2], x[3]
                def pyint(y):
                    return isinstance(y, tuple) and ((y[:1] == ('call',) and y[2] in (('ref', 'builtin', 'int'), ('ref', 'builtin', 'len'))) or
                                                     (y[:1] == ('pcall',) and y[1] == 'len') or
                                                     (y[:1] == ('const',) and isinstance(y[1], int) and not isinstance(y[1], bool)))
                if pyint(l) and pyint(r):
                    out.append('true division of two Python ints')
            for y in x:
                walk(y)
    walk(t)
    return out


def context_touches(F: Facts, tree, m) -> List[Tuple[int, str]]:
    """Statements that read or change the decimal context."""
    out = []
    for n in ast.walk(tree):
        if isinstance(n, ast.Call):
            r = F.resolve_expr(m, n.func) if m is not None else None
            d = r[1] if r and r[0] == 'ext' else (norm(n.func) if m is None else '')
            if d in ('decimal.getcontext', 'decimal.setcontext', 'decimal.localcontext', 'decimal.Context',
                     'decimal.BasicContext', 'decimal.ExtendedContext', 'decimal.DefaultContext'):
                out.append((n.lineno, '`%s` touches the decimal context' % norm(n)))
        if isinstance(n, ast.Attribute) and isinstance(n.ctx, ast.Store) and n.attr in ('prec', 'Emax', 'Emin', 'rounding', 'traps', 'capitals', 'clamp'):
            out.append((n.lineno, '`%s` assigns a decimal-context field' % norm(n)))
        if isinstance(n, ast.Attribute) and m is not None:
            r = F.resolve_expr(m, n)
            if r[0] == 'ext' and r[1] in ('decimal.DefaultContext', 'decimal.BasicContext', 'decimal.ExtendedContext'):
                out.append((n.lineno, '`%s` refers to a shared decimal context' % norm(n)))
    return out


def context_untouched(chk, R: str) -> None:
    F = chk.facts
    ex = ast.parse("import decimal\ndecimal.getcontext().prec = 1000\nwith decimal.localcontext() as c:\n    c.prec = 5\n")
    hits = context_touches(F, ex, None)
    if len(hits) < 3:
        raise AnalysisError('%s self-test: the decimal-context detector found %d of >=3 example constructs' % (R, len(hits)))
    found = False
    for m in F.modules.values():
        if '.ply' in m.name or '/gen/' in m.rel:
            continue
        for line, det in context_touches(F, m.tree, m):
            found = True
            chk.bad(R, '%s :: decimal context' % m.name, '%s:%d' % (m.rel, line), det + ' (the statement relies on the default 28-digit, half-even context)')
    if not found:
        chk.ok(R, 'decimal context', 'smartquery/*.py', 'never read or changed anywhere in the package (detector self-test %d example hits)' % len(hits))


def number_constructor(chk, R: str) -> None:
    """Decimal(x) is read by every numeric rule as "the decimal value of x, exactly" (the stdlib constructor).  A number class of
    the package that defines __new__ keeps that reading only if every path of it returns super().__new__(cls, <its value
    argument>, ...): a path that answers from a table, a memo or a converted argument returns some other number."""
    from ..symexec import SymExec, show as _show
    F = chk.facts
    n = 0
    for cq in sorted(decimal_classes(F)):
        ci = F.classes.get(cq)
        if ci is None or '.ply' in ci.module.name:
            continue
        n += 1
        where = '%s:%d' % (ci.module.rel, ci.node.lineno)
        q = cq + '.__new__'
        if '__new__' not in ci.methods or q not in F.functions:
            chk.ok(R, '%s constructor' % cq, where, 'inherits the exact stdlib constructor')
            continue
        fi = F.func(q)
        a = fi.node.args.args
        problems = []
        if len(a) < 2:
            problems.append('__new__ takes no value argument')
        else:
            clsp, valp = ('param', a[0].arg), ('param', a[1].arg)
            for p in SymExec(F, fi).run():
                if not p.normal:
                    continue
                r = freeze(p.outcome[1])
                ok = isinstance(r, tuple) and r[:1] == ('call',) and isinstance(r[2], tuple) and r[2][:1] == ('attr',) and r[2][2] == '__new__' \
                    and isinstance(r[2][1], tuple) and r[2][1][:1] == ('super',) and len(r[3]) >= 2 and r[3][0] == clsp and r[3][1] == valp
                if not ok:
                    problems.append('a path returns %s instead of super().__new__(%s, %s, ...)' % (_show(r), a[0].arg, a[1].arg))
        chk.require(not problems, R, '%s constructor' % cq, fi.where,
                    '; '.join(sorted(set(problems))[:2]) + ': Decimal(x) no longer is the decimal value of x for every x (a negative int indexes a '
                    'table from its end, an equal key finds another spelling, ...)' if problems else
                    'every path builds the value through the stdlib constructor with the argument it was given')
    if n == 0:
        chk.ok(R, 'number class constructor', 'smartquery/custom_types.py', 'the package defines no subclass of decimal.Decimal')
