"""Rules shared by several properties."""
from __future__ import annotations

import ast
from typing import Any, Dict, List, Optional, Set, Tuple

from ..facts import AnalysisError, norm, FuncInfo
from ..report import Check
from ..symexec import SymExec, freeze, show, Closure, closure_paths, is_const, Path, Event
from .. import opmodel as om
from .. import ctx as C
from .. import actions as A


# ------------------------------------------------------------------ closures
def eval_closures(chk: Check) -> List[Tuple[str, Closure, Path]]:
    """(owner method, closure, creating path) for closures created by eval methods; one per closure node."""
    F = chk.facts
    out = []
    seen = set()
    for cls in om.op_classes(F):
        if not om.own_eval(F, cls):
            continue
        for p in om.eval_paths(F, cls):
            for c in p.closures:
                if id(c.node) in seen:
                    continue
                seen.add(id(c.node))
                out.append((cls + '.eval', c, p))
    return out


def free_names(node) -> Set[str]:
    """Names a lambda / nested def reads that it does not bind itself."""
    bound: Set[str] = set()
    a = node.args
    for x in a.posonlyargs + a.args + a.kwonlyargs:
        bound.add(x.arg)
    if a.vararg:
        bound.add(a.vararg.arg)
    if a.kwarg:
        bound.add(a.kwarg.arg)
    body = node.body if isinstance(node.body, list) else [node.body]
    loads: Set[str] = set()
    for st in body:
        for n in ast.walk(st):
            if isinstance(n, ast.Name):
                if isinstance(n.ctx, ast.Load):
                    loads.add(n.id)
                else:
                    bound.add(n.id)
            elif isinstance(n, ast.arg):
                bound.add(n.arg)
    return loads - bound


def escapes(c: Closure, p: Path) -> Optional[str]:
    """How a closure leaves the invocation that created it, if it does."""
    needle = ('closure', c.qual, c.cid)
    # parked on a longer-lived object: the more durable way out, reported even when the closure is returned as well
    for e in p.events:
        if e.kind in ('store_attr', 'store_sub', 'global_store') and om.mentions(freeze(e.value), needle):
            return 'stored by `%s`' % e.text()
    if om.mentions(p.outcome[1], needle):
        return 'returned'
    for e in p.events:
        if e.kind == 'call' and not e.d.get('inlined') and (
                om.mentions(freeze(e.args), needle) or om.mentions(freeze(e.kwargs), needle)):
            f = freeze(e.func)
            if isinstance(f, tuple) and f[:2] == ('ref', 'builtin') and f[2] in ('sorted', 'map', 'filter', 'min', 'max'):
                continue        # consumed within the call
            if isinstance(f, tuple) and f[:2] == ('ref', 'ext') and f[2] in ('functools.reduce',):
                continue
            return 'passed to `%s`' % show(f)
    return None


def run_in_place(c: Closure, p: Path) -> bool:
    """The closure is a thunk: it does not leave the invocation that created it and that invocation (a helper it was handed to,
    inlined) called it, so its body has been analysed where it ran - under the handlers that were active there."""
    if escapes(c, p) is not None:
        return False
    needle = ('closure', c.qual, c.cid)
    return any(e.kind == 'call' and (e.d.get('closure') is c or freeze(e.func) == needle) for e in p.events)


def lambda_bodies_charged(chk: Check, R: str) -> None:
    F = chk.facts
    for owner, c, p in eval_closures(chk):
        how = escapes(c, p)
        if how is None:
            continue
        fi = F.func(owner)
        selft = ('param', om.self_param(F, owner))
        stt = ('param', om.state_param(F, owner))
        kinds = om.op_field_kinds(F, owner.rsplit('.', 1)[0])
        cps = closure_paths(F, fi, c)
        problems = []
        n_normal = 0
        for cp in cps:
            if not cp.normal:
                continue
            n_normal += 1
            child = [e for e in cp.events if om.is_child_eval(e, selft, stt)]
            ops = [e for e in child if kinds.get(om.is_child_eval(e, selft, stt)[0]) == 'op']
            if not ops:
                problems.append('a path returns %s without evaluating an Op field of the node' % show(cp.outcome[1]))
                continue
            if len(ops) > 1:
                problems.append('the body is evaluated %d times in one invocation' % len(ops))
            e = ops[0]
            if e.in_ctx('loop') or e.in_ctx('comp'):
                problems.append('the body evaluation sits in a loop')
            if freeze(e.result) != cp.outcome[1]:
                problems.append('the closure returns %s, not the value of the body evaluation `%s`' % (
                    show(cp.outcome[1]), e.text()))
            if len(e.args) != 1:
                problems.append('body evaluated with %d arguments' % len(e.args))
            elif freeze(e.args[0]) != stt:
                problems.append('the body is evaluated with `%s`, not with the state the node itself was given: its operations are '
                                'counted on another object' % show(e.args[0]))
        if n_normal == 0:
            problems.append('the closure never returns normally')
        where = '%s:%d' % (c.module.rel, c.node.lineno)
        chk.require(not problems, R, c.qual, where,
                    '; '.join(sorted(set(problems))) or
                    'closure (%s) evaluates the Op-typed body through .eval(state) exactly once per invocation' % how)


def _scalar_state_fields(F) -> set:
    """Fields of the VM state that hold plain numbers (annotated int/float/bool/str): reading one of them hands out a number,
    not the state."""
    out = set()
    vm = 'smartquery.vm_state.VMState'
    if vm in F.classes:
        for n, ann, d, q in F.all_fields(vm):
            if isinstance(ann, ast.Name) and ann.id in ('int', 'float', 'bool', 'str'):
                out.add(n)
        init = F.cls(vm).methods.get('__init__')
        if init is not None:
            for a in init.args.args + init.args.kwonlyargs:
                if isinstance(a.annotation, ast.Name) and a.annotation.id in ('int', 'float', 'bool', 'str'):
                    out.add(a.arg)
    return out


def _without_scalar_fields(t, st, scalars):
    t = freeze(t)
    if isinstance(t, tuple):
        if len(t) == 3 and t[0] == 'attr' and t[1] == st and t[2] in scalars:
            return ('const', 0)
        return tuple(_without_scalar_fields(x, st, scalars) for x in t)
    return t


def state_does_not_escape(chk: Check, R: str) -> None:
    F = chk.facts
    scalars = _scalar_state_fields(F)
    for cls in om.op_classes(F):
        if not om.own_eval(F, cls) or cls == om.ROOT:
            continue
        q = cls + '.eval'
        fi = F.func(q)
        stname = om.state_param(F, q)
        st = ('param', stname)
        problems: List[Tuple[str, str, str]] = []     # (construct, where, detail)
        for p in om.eval_paths(F, cls):
            for e in p.events:
                where = '%s:%d' % (fi.module.rel, e.line)
                if e.kind in ('store_attr', 'store_sub', 'global_store') and om.carries(e.value, st):
                    problems.append(('%s :: `%s`' % (q, e.text()), where, 'the VM state is stored by `%s`' % e.text()))
                if e.kind == 'call' and not e.d.get('inlined') and not e.d.get('ctor'):
                    f = freeze(e.func)
                    allargs = tuple(freeze(e.args)) + tuple(v for _, v in freeze(e.kwargs))
                    if any(om.carries(_without_scalar_fields(a, st, scalars), st) for a in allargs):
                        if isinstance(f, tuple) and f and f[0] == 'attr' and f[2] == om.EVAL:
                            continue
                        if e.resolved:
                            continue          # package function that could not be inlined (recursion): analysed on its own
                        problems.append(('%s :: `%s`' % (q, e.text()), where,
                                         'the VM state is handed to `%s`' % show(f)))
            for c in p.closures:
                how = escapes(c, p)
                if how is None:
                    continue
                if how.startswith('stored'):
                    # a closure parked on a longer-lived object is a different construct from one that is merely returned
                    caps = [n for n in sorted(free_names(c.node)) if n in c.env and om.carries(c.env[n], st)]
                    if caps:
                        problems.append(('%s keeps a closure over %s (%s)' % (q, ','.join(caps), how), '%s:%d' % (c.module.rel, c.node.lineno),
                                         'closure %s captures `%s` and is %s: it outlives the eval call, so whoever finds it later '
                                         '(a cached tree evaluated again) runs its body against the first call\'s op counter, budget and names' % (
                                             c.qual, ', '.join(caps), how)))
                    continue
                cap = []
                for n in sorted(free_names(c.node)):
                    if n in c.env and om.carries(c.env[n], st):
                        cap.append(n)
                if cap:
                    problems.append(('%s captures %s' % (c.qual, ','.join(cap)),
                                     '%s:%d' % (c.module.rel, c.node.lineno),
                                     'closure %s is %s and captures `%s` of the eval call that created it: when a later '
                                     'eval call invokes it, its body is charged to (and resolves names in) the earlier '
                                     'call\'s state' % (c.qual, how, ', '.join(cap))))
        if problems:
            seen = set()
            for cons, where, det in problems:
                if cons in seen:
                    continue
                seen.add(cons)
                chk.bad(R, cons, where, det)
        else:
            chk.ok(R, q, fi.where, 'state is only passed down to .eval calls and used locally')


# ------------------------------------------------------------------ node kinds
def default_factory_nodes(chk: Check) -> List[Tuple[str, str, Any, int]]:
    """(class, field, resolved class ref of the node the default factory builds, line)."""
    F = chk.facts
    out = []
    for cls in om.op_classes(F):
        ci = F.cls(cls)
        for n, ann, d in ci.fields:
            if isinstance(d, ast.Call):
                r = F.resolve_expr(ci.module, d.func)
                if r == ('ext', 'dataclasses.field'):
                    for kw in d.keywords:
                        if kw.arg == 'default_factory':
                            v = kw.value
                            if isinstance(v, ast.Lambda) and isinstance(v.body, ast.Call):
                                out.append((cls, n, F.resolve_expr(ci.module, v.body.func), d.lineno, v.body))
                            elif isinstance(v, ast.Call) and F.resolve_expr(ci.module, v.func) == ('ext', 'functools.partial') and v.args:
                                # default_factory=partial(Cls, a, k=b) builds Cls(a, k=b)
                                built = ast.copy_location(ast.Call(func=v.args[0], args=list(v.args[1:]), keywords=list(v.keywords)), v)
                                ast.fix_missing_locations(built)
                                out.append((cls, n, F.resolve_expr(ci.module, v.args[0]), d.lineno, built))
                            else:
                                r_ = F.resolve_expr(ci.module, v)
                                fn_ = F.functions.get(r_[1]) if r_[0] == 'fn' else None
                                body_ = [st for st in fn_.node.body if not (isinstance(st, ast.Expr) and isinstance(st.value, ast.Constant))] \
                                    if fn_ is not None and isinstance(fn_.node, ast.FunctionDef) and not fn_.node.args.args else []
                                if len(body_) == 1 and isinstance(body_[0], ast.Return) and isinstance(body_[0].value, ast.Call):
                                    # default_factory=_omitted with `def _omitted(): return ValueOp(None)`: a named lambda
                                    out.append((cls, n, F.resolve_expr(fn_.module, body_[0].value.func), d.lineno, body_[0].value))
                                else:
                                    out.append((cls, n, r_, d.lineno, v))
    return out


def every_node_is_an_op(chk: Check, R: str) -> None:
    F = chk.facts
    T = C.templates(F)
    g = C.grammar(F)
    classes = set(om.op_classes(F))
    # 1. classes with an eval method in the node module
    for q, ci in sorted(F.classes.items()):
        if ci.module.name != om.AST_OPS and ci.module.name not in {F.cls(c_).module.name for c_ in classes}:
            continue
        has_eval = F.find_method(q, om.EVAL) is not None
        where = '%s:%d' % (ci.module.rel, ci.node.lineno)
        if q in classes:
            chk.ok(R, q, where, 'in the Op hierarchy (charge via %s)' % om.eval_method(F, q))
        elif has_eval:
            # a typing.Protocol / abstract stub describes the interface; nothing is ever an instance of it alone
            evn = F.functions[F.find_method(q, om.EVAL)].node
            stub = all(isinstance(st, (ast.Pass,)) or (isinstance(st, ast.Expr) and isinstance(st.value, ast.Constant)) for st in evn.body)
            if stub and any(b.split('.')[-1] == 'Protocol' for b in F.ext_bases(q)):
                chk.ok(R, q, where, 'a typing.Protocol with a stub eval: an interface description, never instantiated')
            else:
                chk.bad(R, q, where, 'class with an eval method outside the Op hierarchy: its evaluation is never charged')
    # 2. nodes built by the grammar actions
    for t in T.all():
        where = '%s:%d' % (g.module.rel, t.prod.line)
        terms = [t.result] if t.raises is None else []
        for e in t.events:
            if e.kind in ('store_attr', 'store_sub'):
                terms.append(freeze(e.value))
            if e.kind == 'call':
                terms.append(freeze(e.args))
        bad = []
        for term in terms:
            for cls, flds in A.new_nodes(term):
                if cls not in classes and not F.is_subclass(cls, 'smartquery.exceptions.ParserError'):
                    bad.append(cls)
        chk.require(not bad, R, 'template ' + t.key, where,
                    'builds %s, which is not an Op' % ', '.join(sorted(set(bad))) if bad else t.show()[:120])
    # 3. default factories
    for cls, fld, r, line, node in default_factory_nodes(chk):
        ok = r[0] == 'cls' and r[1] in classes
        chk.require(ok, R, '%s.%s default factory' % (cls, fld), '%s:%d' % (F.cls(cls).module.rel, line),
                    'default node `%s` %s' % (norm(node), 'is an Op' if ok else 'is not an Op'))


# ------------------------------------------------------------ grammar roles
def call_role(chk: Check) -> Tuple[str, str, str]:
    """(call node class, its name field, its args field), found through `NAME ( arglist )`."""
    F = chk.facts
    c = getattr(F, '_call_role', None)
    if c:
        return c
    g = C.grammar(F)
    T = C.templates(F)
    lm = C.lexmodel(F)
    from .. import lalr as _lalr
    short = _lalr.shortest_expansions(g)
    nts = set(g.nonterminals)
    for t in T.all():
        rhs = t.prod.rhs
        if len(rhs) < 2 or rhs[0] in nts or lm.token_texts.get(rhs[0]) is not None:
            continue        # must start with the identifier token (unbounded language)
        nxt = short.get(rhs[1], ()) if rhs[1] in nts else (rhs[1],)
        if not nxt or lm.token_texts.get(nxt[0]) != {'('}:
            continue
        if t.raises is None and isinstance(t.result, tuple) and t.result[0] == 'new':
            cls, flds = t.result[1], t.result[2]
            nf = [n for n, v in flds if isinstance(v, tuple) and v[:2] == ('tok', '1')]
            af = [n for n, v in flds if isinstance(v, tuple) and (v[:1] == ('symlist',) or (
                v[:1] == ('list',) and len(v) == 2 and isinstance(v[1], tuple) and v[1][:1] == ('star',)
                and isinstance(v[1][1], tuple) and v[1][1][:1] == ('symlist',)))]      # args=p[3] or args=[*p[3]] / list(args)
            if nf and af:
                F._call_role = (cls, nf[0], af[0])  # type: ignore
                return F._call_role
    raise AnalysisError('anchor vanished: no production `NAME ( arglist )` building a call node')


def lowered_calls(chk: Check) -> List[Tuple[Any, str, Tuple]]:
    """(template, constant function name, args tuple) for every call node a template builds with a constant name."""
    F = chk.facts
    T = C.templates(F)
    cls, nf, af = call_role(chk)
    out = []
    for t in T.all():
        if t.raises is not None:
            continue
        for c, flds in A.new_nodes(t.result):
            if c == cls:
                fd = dict(flds)
                n = fd.get(nf)
                a = fd.get(af)
                if isinstance(n, tuple) and n[0] == 'const' and isinstance(n[1], str):
                    out.append((t, n[1], a))
    return out


def assignment_forms(chk: Check, strict: bool = True) -> List[Dict[str, Any]]:
    """The assignment statements of the grammar and where each one lands.  With strict=False a form that cannot be classified
    is left out (for callers that only need the operator strings the other forms pass on)."""
    F = chk.facts
    g = C.grammar(F)
    T = C.templates(F)
    lm = C.lexmodel(F)
    from ..functab import table
    tab = table(F)
    ccls, nf, af = call_role(chk)
    forms = []
    for t in T.all():
        rhs = t.prod.rhs
        idx = None
        compound = False
        for i, s in enumerate(rhs, 1):
            texts = lm.token_texts.get(s)
            if s in g.nonterminals or texts is None:
                continue
            if texts == {'='}:
                idx, compound = i, False
            elif texts and all(len(x) == 2 and x.endswith('=') and x[0] in '+-*/%&|^' for x in texts):
                idx, compound = i, True
        if idx is None or t.raises is not None or idx == len(rhs):
            continue
        if not (isinstance(t.result, tuple) and t.result and t.result[0] == 'new'):
            continue
        cls, flds = t.result[1], dict(t.result[2])
        rpos = str(len(rhs))
        form: Dict[str, Any] = {'template': t, 'compound': compound, 'key': t.key,
                                'kind': 'name' if idx == 2 and rhs[0] == 'NAME' else 'index'}
        if cls == ccls and isinstance(flds.get(nf), tuple) and flds[nf][0] == 'const':
            name = flds[nf][1]
            args = flds.get(af)
            if not (isinstance(args, tuple) and args and args[0] == 'list'):
                raise AnalysisError('assignment template %s: args are not a list display' % t.key)
            if name not in tab or tab[name].kind != 'fn':
                raise AnalysisError('assignment template %s lowers to %r which is not a package function in FUNCTIONS' % (t.key, name))
            def argidx(pos):
                for i, a in enumerate(args[1:]):
                    if any(p == pos for p, _ in A.symbols_in(a)):
                        return i
                return None
            form.update(target='fn', fn=tab[name].target, fname=name, value_idx=argidx(rpos), container_idx=argidx('1'),
                        key_idx=argidx('3'), op_idx=argidx(str(idx)) if compound else None)
        else:
            vf = [n for n, v in flds.items() if isinstance(v, tuple) and v[:2] == ('sym', rpos)]
            namef = [n for n, v in flds.items() if isinstance(v, tuple) and v[:2] == ('tok', '1')]
            opf = [n for n, v in flds.items() if isinstance(v, tuple) and v[:2] == ('tok', str(idx))]
            if not vf:
                if not strict:
                    continue
                raise AnalysisError('assignment template %s: right-hand side not stored in a field' % t.key)
            form.update(target='op', cls=cls, value_field=vf[0], name_field=namef[0] if namef else None,
                        op_field=opf[0] if opf else None)
        forms.append(form)
    return forms


# ------------------------------------------------------- error conversion
PARSER_ERROR = 'smartquery.exceptions.ParserError'


def raised_class(F, t) -> Optional[Tuple[str, str]]:
    """('cls', qual) / ('builtin', name) of a raised term."""
    t = freeze(t)
    if isinstance(t, tuple) and t:
        if t[0] == 'new':
            return ('cls', t[1])
        if t[0] == 'call' and isinstance(t[2], tuple) and t[2][0] == 'ref' and t[2][1] in ('builtin', 'cls', 'ext'):
            return (t[2][1], t[2][2])
        if t[0] == 'ref' and t[1] in ('builtin', 'cls', 'ext'):
            return (t[1], t[2])
    return None


def is_parser_error(F, rc) -> bool:
    return rc is not None and rc[0] == 'cls' and F.is_subclass(rc[1], PARSER_ERROR)


def catches(F, types, exc_names: List[str]) -> bool:
    """Does an except clause with these resolved types catch every one of the builtin exceptions named?"""
    import builtins
    for en in exc_names:
        ec = getattr(builtins, en)
        ok = False
        for k, q in types:
            if k == 'builtin':
                c = getattr(builtins, q, None)
                if isinstance(c, type) and issubclass(ec, c):
                    ok = True
        if not ok:
            return False
    return True


def conversion_of(F, e: Event, paths: List[Path], exc_names: List[str]) -> Tuple[str, str]:
    """How a may-raise event's lookup failure is treated.

    -> ('converted', detail) | ('unguarded', detail) | ('swallowed', detail) | ('other', detail)
    """
    for ctx in reversed(e.d.get('handlers') or []):
        _, tnode, descr = ctx
        for types, h in descr:
            if catches(F, types, exc_names):
                outcomes = set()
                cont_returns = set()
                for p in paths:
                    for x in p.events:
                        if x.kind == 'exc_edge' and x.d.get('handler') is h:
                            rc = raised_class(F, p.outcome[1]) if p.outcome[0] == 'raise' else None
                            if p.outcome[0] != 'raise':
                                cont_returns.add(freeze(p.outcome[1]))
                            outcomes.add('ParserError' if (p.outcome[0] == 'raise' and is_parser_error(F, rc)) else
                                         ('raises %s' % show(p.outcome[1]) if p.outcome[0] == 'raise' else 'continues'))
                if outcomes == {'ParserError'}:
                    return ('converted', 'except %s -> ParserError' % '/'.join(q for _, q in types))
                if not outcomes:
                    return ('other', 'handler found but its paths were not enumerated')
                if outcomes == {'continues'} and e.fn in F.functions:
                    # get-with-default: the handler hands back the caller's default (a parameter that has one) and nothing else
                    a_ = F.functions[e.fn].node.args
                    defaulted = {x.arg for x in a_.args[len(a_.args) - len(a_.defaults):]} | {x.arg for x, d_ in zip(a_.kwonlyargs, a_.kw_defaults) if d_ is not None}
                    if cont_returns and all(isinstance(r_, tuple) and r_[:1] == ('param',) and r_[1] in defaulted for r_ in cont_returns):
                        return ('defaulted', 'except %s -> the caller\'s default' % '/'.join(q for _, q in types))
                return ('swallowed' if 'continues' in outcomes else 'other',
                        'handler for %s %s' % ('/'.join(q for _, q in types), ', '.join(sorted(outcomes))))
    return ('unguarded', 'no enclosing handler catches %s' % '/'.join(exc_names))


def scope_bindings(arg, events):
    """The (key term, value term) pairs of a scope dict handed to make_scope/push_scope, or None when the argument is not a
    dict that was built for the purpose (a fresh display / comprehension / dict(zip(...)) / an empty dict filled by stores)."""
    arg = freeze(arg)
    base = arg
    while isinstance(base, tuple) and base and base[0] == 'phi':
        base = base[3]
    if not (isinstance(base, tuple) and base):
        return None
    pairs = []
    if base[0] == 'comp' and base[1] == 'dict' and isinstance(base[2], tuple) and base[2][:1] == ('kv',):
        pairs.append((base[2][1], base[2][2]))
    elif base[0] == 'dict':
        for it in base[1:]:
            if isinstance(it, tuple) and it and it[0] == 'dstar':
                return None
            pairs.append((it[0], it[1]))
    elif base[0] == 'call' and base[2] == ('ref', 'builtin', 'dict') and len(base[3]) <= 1:
        if base[3]:
            z = base[3][0]
            if isinstance(z, tuple) and z[:1] == ('call',) and z[2] == ('ref', 'builtin', 'zip') and len(z[3]) == 2:
                pairs.append((('elem', z[3][0], 0), ('elem', z[3][1], 0)))
            elif isinstance(z, tuple) and z[:1] == ('comp',) and isinstance(z[2], tuple) and z[2][:1] == ('tuple',) and len(z[2]) == 3:
                pairs.append((z[2][1], z[2][2]))
            else:
                return None
    else:
        return None
    # entries added by subscript stores (a dict filled in a loop)
    for e in events:
        if e.kind == 'store_sub':
            o = freeze(e.obj)
            ob = o
            while isinstance(ob, tuple) and ob and ob[0] == 'phi':
                ob = ob[3]
            if o == arg or (arg != base and o == base) or (ob == base and base[0] in ('dict',) and o[:1] == ('phi',) and arg[:1] == ('phi',) and o[1:3] == arg[1:3]):
                pairs.append((freeze(e.index), freeze(e.value)))
    return pairs


_PLY_PATHS_CACHE: Dict[int, Tuple[list, list]] = {}
CURRENT_FACTS = [None]       # set by run.py: the fact base of the check in progress (for helpers that only get events)


def ply_paths(F):
    """Where the parser object keeps its PLY lexer and LR parser: attribute paths from a SqParser instance,
    e.g. ('lex',) / ('yacc',), or ('_frontend', 'lexer') when a helper object owns them.  Read off the assignments
    `self.<a> = lex.lex(...)` / `yacc.yacc(...)` and `self.<x> = <HelperClass>(...)` in the parser module."""
    key = id(F)
    if key in _PLY_PATHS_CACHE:
        return _PLY_PATHS_CACHE[key]
    pq = 'smartquery.sq_parser.SqParser'
    pm = F.cls(pq).module
    owners = {'lexer': [], 'parser': []}          # (class qual, attr)
    for cq, ci in F.classes.items():
        if ci.module is not pm:
            continue
        for mn, mnode in ci.methods.items():
            sp = mnode.args.args[0].arg if mnode.args.args else None
            for n in ast.walk(mnode):
                if isinstance(n, ast.Assign) and isinstance(n.value, ast.Call):
                    r = F.resolve_expr(pm, n.value.func)
                    kind = 'lexer' if r == ('ext', 'smartquery.ply.lex.lex') else ('parser' if r == ('ext', 'smartquery.ply.yacc.yacc') else None)
                    if kind:
                        for t in n.targets:
                            if isinstance(t, ast.Attribute) and isinstance(t.value, ast.Name) and t.value.id == sp:
                                owners[kind].append((cq, t.attr))
    out = {'lexer': [], 'parser': []}
    for kind, lst in owners.items():
        for cq, attr in lst:
            if cq == pq:
                out[kind].append((attr,))
                continue
            # the parser holds an instance of the owner class
            for mn, mnode in F.cls(pq).methods.items():
                sp = mnode.args.args[0].arg if mnode.args.args else None
                for n in ast.walk(mnode):
                    if isinstance(n, ast.Assign) and isinstance(n.value, ast.Call) and F.resolve_expr(pm, n.value.func) == ('cls', cq):
                        for t in n.targets:
                            if isinstance(t, ast.Attribute) and isinstance(t.value, ast.Name) and t.value.id == sp:
                                out[kind].append((t.attr, attr))
    if not out['lexer']:
        out['lexer'] = [('lex',)]
    if not out['parser']:
        out['parser'] = [('yacc',)]
    _PLY_PATHS_CACHE[key] = (out['lexer'], out['parser'])
    return _PLY_PATHS_CACHE[key]


def _path_term(selft, path):
    t = selft
    for a in path:
        t = ('attr', t, a)
    return t


def lexer_terms(F, selft):
    return [_path_term(selft, p) for p in ply_paths(F)[0]]


def parser_terms(F, selft):
    return [_path_term(selft, p) for p in ply_paths(F)[1]]


def lexer_term(F, selft):
    """The (first) term that denotes the shared lexer from inside a parser method."""
    return lexer_terms(F, selft)[0]


def builds_message(e) -> bool:
    """A call that only builds the text of an error message: str()/repr()/format() or a str method on a constant template."""
    if e.kind != 'call':
        return False
    f = freeze(e.func)
    if isinstance(f, tuple) and f[:2] == ('ref', 'builtin') and f[2] in ('str', 'repr', 'format', 'type', 'len', 'id'):
        return True         # (type(x) / len(x): what a message or a log line says about a value)
    if isinstance(f, tuple) and f and f[0] == 'attr' and f[2] in ('format', 'join', 'format_map') and isinstance(f[1], tuple) \
            and f[1][:1] == ('const',) and isinstance(f[1][1], str):
        return True
    return False



def memo_decorators(fnode) -> list:
    """The caching decorators (functools.lru_cache / cache and look-alikes) of a def, as source text."""
    import ast as _ast
    from ..facts import norm as _norm
    out = []
    for d in getattr(fnode, 'decorator_list', []) or []:
        name = _norm(d.func if isinstance(d, _ast.Call) else d).rsplit('.', 1)[-1]
        if name in ('lru_cache', 'cache', 'cached', 'memoize', 'memoized', 'cached_property'):
            out.append(_norm(d))
    return out



def default_factory_dicts(chk) -> list:
    """(label, where, text) for every function-table entry that hands out a collections.defaultdict / Counter: on such a dict
    a read of a missing key inserts the key instead of raising KeyError."""
    from .. import functab
    from ..symexec import SymExec as _SE, freeze as _fz, show as _show
    F = chk.facts
    cache = F.__dict__.setdefault('_default_factory_dicts', None)
    if cache is not None:
        return cache
    out = []

    def find(t):
        if isinstance(t, tuple):
            if t[:1] == ('call',) and len(t) > 2 and t[2] in (('ref', 'ext', 'collections.defaultdict'), ('ref', 'ext', 'collections.Counter')):
                return t
            for x in t:
                r = find(x)
                if r is not None:
                    return r
        return None
    for key, ent in sorted(functab.table(F).items()):
        fi = ent.funcinfo(F)
        if fi is None:
            if ent.kind == 'ext' and ent.target in ('collections.defaultdict', 'collections.Counter'):
                out.append((ent.label, '%s:%d' % (F.modules[functab.FUNCS_MOD].rel, ent.line), ent.target))
            continue
        try:
            paths = _SE(F, fi).run()
        except AnalysisError:
            continue
        for p in paths:
            if p.normal:
                hit = find(_fz(p.outcome[1]))
                if hit is not None:
                    out.append((ent.label, fi.where, _show(hit)))
                    break
    F.__dict__['_default_factory_dicts'] = out
    return out


def handlers_catching(chk, target: str):
    """Every (path, exc_edge) of the code that runs during an evaluation whose handler receives an exception of the package
    class `target` raised in the guarded body: the handler's types include it and no earlier handler of the same try does.
    Yields (key, event, path, unit, engine)."""
    from .c02 import entry_units
    from ..symexec import closure_paths, SymExec
    from .. import opmodel as om
    F = chk.facts
    for label, fi, _ in entry_units(chk):
        if fi.module.name.endswith(('.lexer', '.rules')) or label.endswith(('.parse', '.list_names')):
            continue          # lexing/parsing runs no program
        se = SymExec(F, fi)
        paths = se.run()
        allp = list(paths)
        for c in om.all_closures(paths):
            allp += closure_paths(F, fi, c)
        for p in allp:
            for e in p.events:
                if e.kind != 'exc_edge':
                    continue
                if not any(se.exc_subclass(('cls', target), t) is True for t in e.d['types']):
                    continue
                if any(se.exc_subclass(('cls', target), t) is True for t in e.d.get('earlier', ())):
                    continue        # an earlier clause of the same try takes it
                key = '%s :: except %s (line %d)' % (e.fn, '/'.join(q for _, q in e.d['types']), e.d['handler'].lineno)
                yield key, e, p, fi, se


def memo_wrapped(F, q: str):
    """For a module-level NAME = functools.lru_cache(...)(g) / functools.cache(g): the resolution of g, else None."""
    import ast as _ast
    from ..facts import norm as _norm
    mod_, _, var_ = q.rpartition('.')
    m_ = F.modules.get(mod_)
    vals_ = m_.assigns.get(var_, []) if m_ is not None else []
    if len(vals_) == 1 and isinstance(vals_[0], _ast.Call) and len(vals_[0].args) == 1:
        v_ = vals_[0]
        f_ = v_.func
        if (not isinstance(f_, _ast.Call) and _norm(f_).rsplit('.', 1)[-1] in ('lru_cache', 'cache')) or \
                (isinstance(f_, _ast.Call) and _norm(f_.func).rsplit('.', 1)[-1] in ('lru_cache', 'cache')):
            if isinstance(v_.args[0], _ast.Lambda):
                return ('fn', q + '.<lambda>')
            return F.resolve_expr(m_, v_.args[0])
    return None


def is_module_logger(F, q: str) -> bool:
    """NAME = logging.getLogger(...) at module level, assigned once."""
    import ast as _ast
    mod_, _, var_ = q.rpartition('.')
    m_ = F.modules.get(mod_)
    vals_ = m_.assigns.get(var_, []) if m_ is not None else []
    if len(vals_) == 1 and isinstance(vals_[0], _ast.Call):
        r_ = F.resolve_expr(m_, vals_[0].func)
        return r_ == ('ext', 'logging.getLogger')
    if m_ is not None and var_ in m_.imports:
        head, _, last = m_.imports[var_].rpartition('.')
        return head in F.modules and is_module_logger(F, m_.imports[var_])
    return False


LOGGER_METHODS = ('debug', 'info', 'isEnabledFor', 'getEffectiveLevel')      # not emitted under the stock configuration (root level WARNING)
LOUD_LOGGER_METHODS = ('warning', 'warn', 'error', 'exception', 'critical', 'fatal', 'log')


def logger_call_nodes(F):
    """Every AST node inside a call of a method of a module-level logging.Logger (the call itself and its arguments): what is
    read there goes to the host's diagnostic channel and nowhere else."""
    import ast as _ast
    cache = F.__dict__.get('_logger_call_nodes')
    if cache is not None:
        return cache
    out = set()
    for m in F.modules.values():
        if '.ply' in m.name:
            continue
        for n in _ast.walk(m.tree):
            if isinstance(n, _ast.Call) and isinstance(n.func, _ast.Attribute) and n.func.attr in LOGGER_METHODS \
                    and isinstance(n.func.value, (_ast.Name, _ast.Attribute)):
                try:
                    r = F.resolve_expr(m, n.func.value)
                except Exception:
                    continue
                if r[0] == 'modvar' and is_module_logger(F, r[1]):
                    out.update(_ast.walk(n))
    F.__dict__['_logger_call_nodes'] = out
    return out


def write_only_attrs(F):
    """Attribute names that code of the package only ever writes (x.a = ..., x.a += ...) and never reads - except where a value is
    shown to the host: property getters, __repr__, __getstate__, log lines.  Counters and statistics kept on the parser are of
    this kind: no parse / eval / list_names can depend on what earlier calls left in them."""
    import ast as _ast
    cache = F.__dict__.get('_write_only_attrs')
    if cache is not None:
        return cache
    stored, loaded = set(), set()
    lognodes = logger_call_nodes(F)
    for m in F.modules.values():
        if '.ply' in m.name or '.gen' in m.name:
            continue
        shown = set()       # nodes inside functions whose result only goes to the host
        for n in _ast.walk(m.tree):
            if isinstance(n, (_ast.FunctionDef, _ast.AsyncFunctionDef)):
                deco = {(_d.id if isinstance(_d, _ast.Name) else getattr(_d, 'attr', None)) for _d in n.decorator_list}
                if deco & {'property', 'cached_property'} or n.name in ('__repr__', '__str__', '__getstate__', '__reduce__'):
                    shown.update(_ast.walk(n))
        for n in _ast.walk(m.tree):
            if isinstance(n, _ast.Attribute):
                if isinstance(n.ctx, (_ast.Store, _ast.Del)):
                    stored.add(n.attr)
                elif n not in shown and n not in lognodes:
                    loaded.add(n.attr)
            elif isinstance(n, _ast.Call) and isinstance(n.func, _ast.Name) and n.func.id in ('getattr', 'hasattr', 'setattr') and len(n.args) >= 2 \
                    and isinstance(n.args[1], _ast.Constant) and isinstance(n.args[1].value, str):
                loaded.add(n.args[1].value)
    out = stored - loaded
    F.__dict__['_write_only_attrs'] = out
    return out


def statistics_objects(F):
    """Objects kept in an attribute of `self` that the package only ever writes into: every load of `self.A` (outside property
    getters / __repr__ / log lines) is the receiver of an attribute store (`self.A.n += 1`) or is bound to a local that is used as
    such a receiver and nothing else.  Returns {(class qual, A)} and the set of AST nodes that are stores into such objects
    (targets and the values assigned, so that what flows into a statistic can be recognised)."""
    import ast as _ast
    cache = F.__dict__.get('_statistics_objects')
    if cache is not None:
        return cache
    lognodes = logger_call_nodes(F)
    attrs = {}
    for cq, ci in F.classes.items():
        if '.ply' in ci.module.name:
            continue
        verdict = {}
        store_nodes = {}
        for mn, fn in ci.methods.items():
            deco = {(_d.id if isinstance(_d, _ast.Name) else getattr(_d, 'attr', None)) for _d in fn.decorator_list}
            shown = bool(deco & {'property', 'cached_property'}) or mn in ('__repr__', '__str__', '__getstate__', '__reduce__')
            if not fn.args.args:
                continue
            sp = fn.args.args[0].arg
            parents = {}
            for n in _ast.walk(fn):
                for c in _ast.iter_child_nodes(n):
                    parents[c] = n
            for n in _ast.walk(fn):
                if not (isinstance(n, _ast.Attribute) and isinstance(n.value, _ast.Name) and n.value.id == sp and isinstance(n.ctx, _ast.Load)):
                    continue
                a = n.attr
                if shown or n in lognodes or mn == '__init__':
                    continue
                par = parents.get(n)
                ok = False
                if isinstance(par, _ast.Attribute) and par.value is n and isinstance(par.ctx, _ast.Store):
                    ok = True
                    store_nodes.setdefault(a, set()).add(par)
                elif isinstance(par, _ast.Assign) and par.value is n and len(par.targets) == 1 and isinstance(par.targets[0], _ast.Name):
                    local = par.targets[0].id
                    uses = [x for x in _ast.walk(fn) if isinstance(x, _ast.Name) and x.id == local and x is not par.targets[0]]

                    def on_local(t):
                        return isinstance(t, _ast.Attribute) and isinstance(t.value, _ast.Name) and t.value.id == local

                    def stmt_ok(st):
                        # local.n += v / local.n = v, or `if <test>: <such statements>` (a high-water mark compares with its own field)
                        if isinstance(st, _ast.AugAssign):
                            return on_local(st.target)
                        if isinstance(st, _ast.Assign):
                            return all(on_local(t) for t in st.targets)
                        if isinstance(st, _ast.If):
                            return all(stmt_ok(b) for b in st.body + st.orelse)
                        return False

                    def stmt_of(x):
                        while x in parents and not isinstance(x, _ast.stmt):
                            x = parents[x]
                        # climb through if-statements that only update the statistic
                        while isinstance(parents.get(x), _ast.If) and stmt_ok(parents[x]):
                            x = parents[x]
                        return x
                    ok = bool(uses) and all(stmt_ok(stmt_of(x)) for x in uses)
                    if ok:
                        store_nodes.setdefault(a, set()).update(parents[x] for x in uses if isinstance(parents.get(x), _ast.Attribute)
                                                                and isinstance(parents[x].ctx, _ast.Store))
                verdict[a] = verdict.get(a, True) and ok
        for a, ok in verdict.items():
            if ok:
                attrs[(cq, a)] = store_nodes.get(a, set())
    F.__dict__['_statistics_objects'] = attrs
    return attrs


def suppressing_exits(F):
    """[(method qual, where, returned term text)] for every __exit__ of a package class that can return something other than None /
    False: a truthy result tells Python to drop the exception that is leaving the with-block."""
    from ..symexec import SymExec as _SE, freeze as _fz, show as _show
    cache = F.__dict__.get('_suppressing_exits')
    if cache is not None:
        return cache
    out = []
    for cq, ci in sorted(F.classes.items()):
        if '.ply' in ci.module.name or '__exit__' not in ci.methods:
            continue
        q = cq + '.__exit__'
        if q not in F.functions:
            continue
        fi = F.functions[q]
        try:
            paths = _SE(F, fi).run()
        except Exception:
            continue
        selfp = ('param', fi.node.args.args[0].arg) if fi.node.args.args else None
        etp = ('param', fi.node.args.args[1].arg) if len(fi.node.args.args) > 1 else None
        exv = ('param', fi.node.args.args[2].arg) if len(fi.node.args.args) > 2 else None
        for p in paths:
            if p.normal and _fz(p.outcome[1]) not in (('const', None), ('const', False)):
                # a manager that drops one class of exception only (`with _on(ValueError): ...`): which classes, at its use sites?
                narrow = None
                for c, v, _ in p.assumptions:
                    c = _fz(c)
                    if v and isinstance(c, tuple) and c[:1] == ('pcall',) and c[1] in ('issubclass', 'isinstance') and len(c[2]) == 2 \
                            and c[2][0] in (etp, exv):
                        narrow = c[2][1]
                if narrow is not None and _only_foreign_classes(F, cq, ci, selfp, narrow):
                    continue
                out.append((q, fi.where, _show(p.outcome[1])))
                break
    F.__dict__['_suppressing_exits'] = out
    return out


def _only_foreign_classes(F, cq, ci, selfp, t) -> bool:
    """The class test of a selective __exit__ can only ever name builtin exception classes that ParserError is not a subclass of:
    either a constant class, or an attribute of self that every constructor call in the package fills with such a class."""
    import ast as _ast
    import builtins as _b

    def foreign(r):
        if r[0] != 'builtin':
            return False
        c = getattr(_b, r[1], None)
        return isinstance(c, type) and issubclass(c, BaseException) and not issubclass(Exception, c)
    if isinstance(t, tuple) and t[:1] == ('ref',) and len(t) == 3:
        return foreign((t[1], t[2]))
    if not (isinstance(t, tuple) and t[:1] == ('attr',) and t[1] == selfp):
        return False
    init = ci.methods.get('__init__')
    if init is None:
        return False
    pname = None
    for st in _ast.walk(init):
        if isinstance(st, _ast.Assign) and len(st.targets) == 1 and isinstance(st.targets[0], _ast.Attribute) and st.targets[0].attr == t[2] \
                and isinstance(st.value, _ast.Name):
            pname = st.value.id
    names = [a.arg for a in init.args.args]
    if pname is None or pname not in names:
        return False
    pos = names.index(pname) - 1
    sites = 0
    for m in F.modules.values():
        if '.ply' in m.name:
            continue
        for n in _ast.walk(m.tree):
            if isinstance(n, _ast.Call) and isinstance(n.func, (_ast.Name, _ast.Attribute)) and F.resolve_expr(m, n.func) == ('cls', cq):
                arg = n.args[pos] if 0 <= pos < len(n.args) else next((k.value for k in n.keywords if k.arg == pname), None)
                if arg is None:
                    return False
                elts = arg.elts if isinstance(arg, _ast.Tuple) else [arg]
                if not all(isinstance(x, (_ast.Name, _ast.Attribute)) and foreign(F.resolve_expr(m, x)) for x in elts):
                    return False
                sites += 1
    return sites > 0
