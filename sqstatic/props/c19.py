"""C19 -- random builtins stay within their documented range."""
from __future__ import annotations

from typing import Any, Dict, List, Optional, Tuple

from ..facts import AnalysisError
from ..report import Check
from ..symexec import SymExec, freeze, show, Path, Event, is_const
from .. import functab
from .. import actions as A
from . import numeric as N
from .c13 import mutation_events

RANDOM = ('ref', 'ext', 'random.random')
CHOICE = ('ref', 'ext', 'random.choice')
RANDINT = ('ref', 'ext', 'random.randint')
RANDRANGE = ('ref', 'ext', 'random.randrange')
SHUFFLE = ('ref', 'ext', 'random.shuffle')
INT = ('ref', 'builtin', 'int')
COPIES = {('ref', 'ext', 'copy.copy'), ('ref', 'builtin', 'list')}


def unwrap_number(F, t):
    """Strip number constructors (Decimal(...), float(...)) around a term."""
    t = freeze(t)
    while True:
        a = N.is_decimal_ctor(F, t)
        if a is not None:
            t = a
            continue
        if isinstance(t, tuple) and t[:1] == ('call',) and t[2] in (('ref', 'builtin', 'float'), ('ref', 'builtin', 'str')) and len(t[3]) == 1:
            t = t[3][0]
            continue
        return t


def int_of(t, src) -> bool:
    t = freeze(t)
    return isinstance(t, tuple) and t[:1] == ('call',) and t[2] == INT and t[3] == (src,)


def check(chk: Check) -> None:
    F = chk.facts
    R1 = chk.rule('C19.R1', 'dispatch: rand() derives only from random.random(); rand(list) is random.choice of that list; '
                            'rand(a, b) is an inclusive-integer primitive on (a, b)', floor=3)
    R2 = chk.rule('C19.R2', 'the bounds reach the primitive intact and as ints: first bound from the first argument, second '
                            'from the second, through int(...) only (randint: no offset; randrange: exactly +1 on the upper bound)', floor=1)
    R3 = chk.rule('C19.R3', 'shuffle returns the shuffled fresh copy of its whole argument and leaves the argument unchanged', floor=1)
    chk.decided += ['which stdlib primitive is called with which arguments of which type, per arity']
    chk.not_decided += ['the distribution of draws (range conformance over many draws is the stdlib contract of random.random / randint / choice)']
    chk.trusted += ['random.random() in [0,1); random.randint(a,b) in [a,b]; random.choice returns an element (stdlib)',
                    'random.randint requires int arguments on the repository\'s interpreter (3.12): language numbers are Decimal']
    tab = functab.table(F)
    if 'rand' not in tab or tab['rand'].funcinfo(F) is None:
        raise AnalysisError('anchor vanished: FUNCTIONS[\'rand\'] is not a package function')
    ent = tab['rand']
    fi = ent.funcinfo(F)
    a = fi.node.args
    where = fi.where

    def paths_for(k: int) -> List[Path]:
        names = [x.arg for x in a.args]
        bind: Dict[str, Any] = {}
        actual = [('param', 'a%d' % i) for i in range(k)]
        rest = list(actual)
        for i, n in enumerate(names):
            if rest:
                bind[n] = rest.pop(0)
            else:
                d = a.defaults[i - (len(names) - len(a.defaults))] if i >= len(names) - len(a.defaults) else None
                if d is None:
                    raise AnalysisError('%s cannot be called with %d arguments' % (fi.qual, k))
                from ..facts import literal_const, _NOCONST
                c = literal_const(d)
                if c is _NOCONST:
                    raise AnalysisError('%s: non-literal default' % fi.qual)
                bind[n] = ('const', c)
        if a.vararg:
            bind[a.vararg.arg] = ('tuple',) + tuple(rest)
        elif rest:
            raise AnalysisError('%s cannot be called with %d arguments' % (fi.qual, k))
        return SymExec(F, fi, args=bind).run()

    # ---- k = 0
    problems = []
    ps = [p for p in paths_for(0) if p.normal]
    if not ps:
        problems.append('rand() never returns')
    for p in ps:
        core = unwrap_number(F, p.outcome[1])
        if not (isinstance(core, tuple) and core[:1] == ('call',) and core[2] == RANDOM and not core[3]):
            problems.append('rand() returns %s, not a number made from random.random()' % show(p.outcome[1]))
    chk.require(not problems, R1, "FUNCTIONS['rand'] with 0 arguments", where, '; '.join(sorted(set(problems))) or 'number(random.random()): range [0, 1) by the stdlib contract')

    # ---- k = 1 (list)
    problems = []
    a0 = ('param', 'a0')
    ps = [p for p in paths_for(1) if p.normal]
    listy = [p for p in ps if any(v and isinstance(c, tuple) and c[:2] == ('pcall', 'isinstance') and c[2][0] == a0 for c, v, _ in p.assumptions)]
    if not listy:
        problems.append('rand(list) has no returning path')
    for p in listy:
        r = p.outcome[1]
        ok = isinstance(r, tuple) and r[:1] == ('call',) and r[2] == CHOICE and r[3] == (a0,)
        if not ok and isinstance(r, tuple) and r[:1] == ('sub',) and r[1] == a0:
            i = r[2]
            ok = isinstance(i, tuple) and i[:1] == ('call',) and i[2] == RANDRANGE and i[3] == (('pcall', 'len', (a0,)),)
        if not ok:
            problems.append('rand(list) returns %s, not a random element of that list' % show(r))
    chk.require(not problems, R1, "FUNCTIONS['rand'] with a list", where, '; '.join(sorted(set(problems))) or 'random.choice(<the list>)')

    # ---- k = 2
    problems, problems2 = [], []
    a1 = ('param', 'a1')
    ps = [p for p in paths_for(2)]
    normal = [p for p in ps if p.normal]
    if not normal:
        problems.append('rand(a, b) has no returning path')
    for p in normal:
        core = unwrap_number(F, p.outcome[1])
        if not (isinstance(core, tuple) and core[:1] == ('call',) and core[2] in (RANDINT, RANDRANGE) and len(core[3]) == 2):
            problems.append('rand(a, b) returns %s, not an integer drawn by random.randint / randrange' % show(p.outcome[1]))
            continue
        lo, hi = core[3]
        if core[2] == RANDINT:
            want_lo, want_hi = a0, a1
            hi_core = hi
        else:
            hi_core = hi[2] if isinstance(hi, tuple) and hi[:2] == ('binop', '+') and hi[3] == ('const', 1) else None
            if hi_core is None:
                problems2.append('randrange upper bound %s is not <second argument> + 1 (the range must be inclusive)' % show(hi))
                continue
        for name, t, src in (('lower', lo, a0), ('upper', hi_core, a1)):
            if t == src:
                problems2.append('the %s bound reaches %s as the raw argument `%s`: language numbers are Decimal, which '
                                 'random.%s rejects with TypeError (rand(1, 10) fails)' % (name, show(core[2]), show(src), core[2][2].split('.')[1]))
            elif not int_of(t, src):
                problems2.append('the %s bound passed is %s, not int(<argument %d>)' % (name, show(t), 1 if src == a0 else 2))
    chk.require(not problems, R1, "FUNCTIONS['rand'] with 2 arguments", where, '; '.join(sorted(set(problems))) or 'number(randint(lo, hi))')
    chk.require(not problems2 and normal, R2, "FUNCTIONS['rand'] bounds", where, '; '.join(sorted(set(problems2))) or 'randint(int(a), int(b))')
    # the draw is handed back as number(draw): that is the drawn integer only if the number class's constructor is the exact one
    N.number_constructor(chk, R2)
    # ... and what rand / shuffle return is what the program gets: the call node hands the callee's result on as it is (= C07.R7;
    # a conversion of results there turns the chosen element into something that is not an element of the list)
    from .c07 import node_transparency
    node_transparency(chk, R1, kinds=('call',))

    # ---- shuffle
    if 'shuffle' not in tab or tab['shuffle'].funcinfo(F) is None:
        raise AnalysisError('anchor vanished: FUNCTIONS[\'shuffle\']')
    sf = tab['shuffle'].funcinfo(F)
    sp = SymExec(F, sf).run()
    arg = ('param', sf.node.args.args[0].arg)
    problems = []
    for e, r, d in mutation_events(F, sp):
        problems.append(d)
    for p in sp:
        if not p.normal:
            continue
        r = p.outcome[1]
        is_copy = isinstance(r, tuple) and ((r[:1] == ('call',) and r[2] in COPIES and r[3] == (arg,)) or
                                            (r[:1] == ('sub',) and r[1] == arg and r[2] == ('slice', ('const', None), ('const', None), ('const', None))))
        if not is_copy:
            problems.append('shuffle returns %s, not a fresh copy of the whole argument' % show(r))
            continue
        sh = [e for e in p.events if e.kind == 'call' and freeze(e.func) == SHUFFLE and freeze(e.args) == (r,)]
        if len(sh) != 1:
            problems.append('the returned copy is shuffled %d times' % len(sh))
    chk.require(not problems, R3, "FUNCTIONS['shuffle']", sf.where, '; '.join(sorted(set(problems))) or 'copy, random.shuffle(copy), return copy')
