"""C14 -- lists and dicts behave like their models (structural clauses only)."""
from __future__ import annotations

from typing import Any, Dict, List, Optional, Set, Tuple

import ast
from ..facts import AnalysisError, norm
from ..report import Check
from ..symexec import SymExec, freeze, show, Path, Event
from .. import opmodel as om
from .. import functab
from .. import actions as A
from .. import ctx as C
from . import common
from .c16 import lookup_sites

DICT = ('ref', 'builtin', 'dict')


def _subst(t, old, new):
    if t == old:
        return new
    if isinstance(t, tuple):
        return tuple(_subst(x, old, new) for x in t)
    return t


def key_uses(F, fi, cparam: str, kparam: str) -> List[Tuple[Optional[bool], Optional[bool], Any, Event]]:
    """(container-is-dict?, key-is-Decimal?, normal form of the key as used, event) for every keyed access."""
    Cn, Kn = ('param', cparam), ('param', kparam)
    out = []
    for p in SymExec(F, fi).run():
        isdict = isdec = None
        isslice = False
        for c, v, _ in p.assumptions:
            if isinstance(c, tuple) and c[:2] == ('pcall', 'isinstance') and c[2][0] == Cn and om.mentions(c[2][1], DICT):
                isdict = v
            if isinstance(c, tuple) and c[:2] == ('pcall', 'isinstance') and c[2][0] == Kn:
                if 'slice' in str(c[2][1]) and 'Decimal' not in str(c[2][1]):
                    isslice = isslice or v      # a slice object is a range of positions, not a key: nothing to cast
                else:
                    isdec = v
        if isslice:
            continue

        def nf(t):
            return _subst(A.strip_ids(freeze(t)), Kn, 'K')
        for e in p.events:
            if e.kind == 'call' and e.resolved in F.functions and om.mentions(freeze(tuple(e.args)), Kn):
                memo = [d for d in getattr(F.functions[e.resolved].node, 'decorator_list', [])
                        if norm(d.func if isinstance(d, ast.Call) else d).rsplit('.', 1)[-1] in ('lru_cache', 'cache', 'cached', 'memoize', 'memoized')]
                if memo:
                    # the evaluator looks through the decorator; the key that comes back is whatever the cache holds for an
                    # *equal* argument (1 == True == Decimal('1.0') share one entry), not the text of this one
                    out.append((isdict, isdec, ('memoised', e.resolved, norm(memo[0])), e))
            if e.kind in ('load_sub', 'store_sub', 'aug_sub', 'del_sub') and freeze(e.obj) == Cn:
                out.append((isdict, isdec, nf(e.index), e))
            elif e.kind == 'assume':
                c = freeze(e.cond)
                if isinstance(c, tuple) and c[:2] == ('cmp', 'in') and c[3] == Cn:
                    out.append((isdict, isdec, nf(c[2]), e))
                if isinstance(c, tuple) and c[0] == 'cmp' and c[1] in ('>', '>=', '<', '<=') and \
                        ('pcall', 'len', (Cn,)) in (c[2], c[3]):
                    other = c[3] if c[2] == ('pcall', 'len', (Cn,)) else c[2]
                    if om.mentions(other, Kn):
                        out.append((isdict, isdec, nf(other), e))
            elif e.kind == 'call':
                f = freeze(e.func)
                if isinstance(f, tuple) and f and f[0] == 'attr' and f[1] == Cn and f[2] in ('get', 'pop', 'setdefault', '__contains__', '__getitem__') and e.args:
                    out.append((isdict, isdec, nf(e.args[0]), e))
    return out


def key_cast_agreement(chk: Check, R1: str):
    """One key cast on every keyed path (shared with C07, whose reference semantics name the key-to-string cast)."""
    F = chk.facts
    tab = functab.table(F)
    # the keyed accessors: lowered index forms (from the grammar) + get
    acc: Dict[str, Tuple[str, int, int]] = {}     # FUNCTIONS key -> (function, container idx, key idx)
    for t, name, args in common.lowered_calls(chk):
        if name.startswith('__') and name in tab and tab[name].kind == 'fn' and isinstance(args, tuple) and len(args) >= 3:
            acc[name] = (tab[name].target, 0, 1)
    if 'get' in tab and tab['get'].kind == 'fn':
        acc['get'] = (tab['get'].target, 0, 1)
    if len(acc) < 3:
        raise AnalysisError('expected the keyed accessors (get, index read/write/compound write/del), found only %s' % sorted(acc))
    per: Dict[str, Dict[str, Set[Any]]] = {}
    for name, (q, ci, ki) in sorted(acc.items()):
        fi = F.func(q)
        params = [a.arg for a in fi.node.args.args]
        if len(params) <= max(ci, ki):
            chk.bad(R1, 'FUNCTIONS[%r] -> %s' % (name, q), fi.where, 'takes %d parameter(s): there is no key parameter to cast' % len(params))
            per[name] = {'dict': set(), 'list+dec': set(), 'list': set()}
            continue
        uses = key_uses(F, fi, params[ci], params[ki])
        d: Dict[str, Set[Any]] = {'dict': set(), 'list+dec': set(), 'list': set()}
        for isdict, isdec, nf, e in uses:
            if isdict is True:
                d['dict'].add(nf)
            elif isdict is False:
                d['list+dec' if isdec else 'list'].add(nf)
            else:
                d['dict'].add(nf)
                d['list'].add(nf)
        per[name] = d
        if not uses:
            chk.bad(R1, 'FUNCTIONS[%r] -> %s' % (name, q), fi.where, 'no keyed access to the container found')
    # reference for dicts: what dict literals do
    lit = _literal_key_cast(chk)
    ref_dict = {lit} if lit is not None else None
    STR_K = ('call', 0, ('ref', 'builtin', 'str'), ('K',), ())
    INT_K = ('call', 0, ('ref', 'builtin', 'int'), ('K',), ())
    # majority for the list branch
    for name, d in sorted(per.items()):
        q = acc[name][0]
        fi = F.func(q)
        problems = []
        if d['dict'] != {STR_K}:
            problems.append('on dicts the key is used as %s (siblings and literals use str(key))' % ', '.join(sorted(show(x) for x in d['dict'])))
        others = [per[n]['list+dec'] for n in per if n != name and per[n]['list+dec']]
        if d['list+dec'] and others and any(d['list+dec'] != o for o in others):
            pass
        if d['list+dec'] and d['list+dec'] != {INT_K}:
            problems.append('on lists a Decimal index is used as %s' % ', '.join(sorted(show(x) for x in d['list+dec'])))
        if d['list'] and d['list'] != {'K'}:
            problems.append('on lists a non-Decimal key is used as %s' % ', '.join(sorted(show(x) for x in d['list'])))
        chk.require(not problems, R1, 'FUNCTIONS[%r] -> %s' % (name, q), fi.where,
                    '; '.join(problems) or 'dict: str(key); list: int(key) for Decimal, key otherwise')
    chk.require(lit == STR_K, R1, 'dict literal keys', F.func('smartquery.ast_ops.DictOp.eval').where if 'smartquery.ast_ops.DictOp.eval' in F.functions else '',
                'literal keys are cast as %s' % (show(lit) if lit is not None else 'nothing recognisable'))
    return acc, per


def check(chk: Check) -> None:
    F = chk.facts
    R1 = chk.rule('C14.R1', 'one key cast on every keyed path: get / read / del / write / compound write and dict '
                            'literals apply the same normalisation to the key before every use, per container kind', floor=5)
    R2 = chk.rule('C14.R2', 'indices truncate, never round: Decimal indices are converted with int(...) in the list '
                            'branch of the cast and in insert / pop', floor=3)
    R3 = chk.rule('C14.R3', 'failed reads raise ParserError and change nothing: every keyed read of an argument container '
                            'and every pop converts the lookup error and no mutation of the container precedes it', floor=3)
    R4 = chk.rule('C14.R4', 'explicit bounds tests in front of a list access admit every valid position: a comparison between the '
                            'position and len(container) that guards the access holds for all -len <= k <= len-1 (linear check at both ends)', floor=1)
    R5 = chk.rule('C14.R5', 'membership looks at the element itself: the `in` / `not in` operators test the evaluated left operand as '
                            'it is - a position or key cast applied to the needle tests for a different element (2.5 in [1, 2] '
                            'would find 2)', floor=1)
    chk.decided += ['membership needles are not cast (R5)',
                    'bounds tests never turn away a valid (incl. negative) position (R4)',
                    'sibling agreement of the key normalisation across the five keyed accessors and dict literals (R1)',
                    'truncating index conversion (R2)', 'lookup-error conversion without prior mutation (R3)']
    chk.not_decided += ['model equivalence under operation sequences, negative-index arithmetic beyond explicit bounds tests, keys/values/items/len/in '
                        'consistency: run-time container semantics of Python lists and dicts (no code shape to check)']
    acc, per = key_cast_agreement(chk, R1)
    INT_K = ('call', 0, ('ref', 'builtin', 'int'), ('K',), ())
    STR_K = ('call', 0, ('ref', 'builtin', 'str'), ('K',), ())
    tab = functab.table(F)

    # --------------------------------------------------------------------- R2
    n2 = 0
    for name, d in sorted(per.items()):
        if d['list+dec']:
            n2 += 1
    chk.require(all(per[n]['list+dec'] in (set(), {INT_K}) for n in per) and n2 > 0, R2, 'list branch of the key cast',
                'smartquery/functions.py', 'Decimal indices are converted with int() (truncation toward zero) in %d accessors' % n2)
    for key, meth in (('insert', 'insert'), ('pop', 'pop')):
        if key not in tab or tab[key].kind != 'fn':
            continue
        fi = tab[key].funcinfo(F)
        problems = []
        n = 0
        for p in SymExec(F, fi).run():
            for e in p.events:
                if e.kind == 'call':
                    f = freeze(e.func)
                    if isinstance(f, tuple) and f and f[0] == 'attr' and f[2] == meth and isinstance(f[1], tuple) and f[1][0] == 'param' and e.args:
                        n += 1
                        a0 = A.strip_ids(freeze(e.args[0]))
                        if not (isinstance(a0, tuple) and a0[0] == 'call' and a0[2] == ('ref', 'builtin', 'int')):
                            problems.append('`%s` passes %s as position (Decimal positions must be truncated with int())' % (e.text(), show(a0)))
        chk.require(not problems and n, R2, 'FUNCTIONS[%r]' % key, fi.where, '; '.join(sorted(set(problems))) or 'position converted with int()')

    index_guards(chk, R4, acc)
    _membership(chk, R5)
    _fresh_literals(chk)
    _one_slot(chk)
    _none_is_a_value(chk, R3, acc)
    _views(chk)

    # --------------------------------------------------------------------- R3
    sites = lookup_sites(chk)
    for key, ok, where, det in sites:
        chk.require(ok, R3, key, where, det)
    # no mutation before the guarded read in the pure readers
    for name in ('get', '__getitem__'):
        if name not in acc:
            continue
        q = acc[name][0]
        fi = F.func(q)
        from .c13 import mutation_events
        muts = mutation_events(F, SymExec(F, fi).run())
        chk.require(not muts, R3, 'FUNCTIONS[%r] reads without writing' % name, fi.where,
                    '; '.join(sorted({m[2] for m in muts})) or 'no mutation of the container in the reader')


def _fresh_literals(chk: Check) -> None:
    """`[]`, `[a, b]`, `{}` and `{k: v}` denote a new container each time they are evaluated (x => [] is a factory of empty lists).
    That holds when the production builds a call of the list/dict builtin or a node whose eval builds the container; it fails
    when the container itself is put into the tree as a constant: every evaluation then hands out that one object."""
    F = chk.facts
    R6 = chk.rule('C14.R6', 'a container literal is a new container on every evaluation: no production of a bracket or brace literal '
                            'stores a list / dict / set display in a value field of a node (the node would return the same object '
                            'each time, so what one use pushes the next use finds)', floor=4)
    g = C.grammar(F)
    lm = C.lexmodel(F)
    T = C.templates(F)
    opening = {s for s, tx in lm.token_texts.items() if tx is not None and tx and tx <= {'[', '{'}}
    n = 0
    for t in T.all():
        rhs = t.prod.rhs
        if not rhs or rhs[0] not in opening or t.raises is not None:
            continue
        n += 1
        bad = []
        for cls, flds in A.new_nodes(t.result):
            kinds = om.op_field_kinds(F, cls) if cls in F.classes else {}
            for fn_, fv in flds:
                if kinds.get(fn_) in ('oplist', 'pairlist', 'op', 'str'):
                    continue
                if isinstance(fv, tuple) and fv[:1] in (('list',), ('dict',), ('set',)) or (
                        isinstance(fv, tuple) and fv[:1] == ('call',) and fv[2] in (('ref', 'builtin', 'list'), ('ref', 'builtin', 'dict'), ('ref', 'builtin', 'set'))):
                    bad.append('%s.%s = %s' % (cls.rsplit('.', 1)[-1], fn_, show(fv)))
        chk.require(not bad, R6, t.key, '%s:%d' % (g.module.rel, getattr(t.prod, 'line', 0)),
                    'the container %s is built once, by the parser, and kept in the tree: every evaluation of the literal returns that '
                    'same object' % ', '.join(bad) if bad else 'builds a node that makes the container when it is evaluated')
    if n == 0:
        raise AnalysisError('anchor vanished: no production starts with an opening bracket or brace')
    # ... holding exactly the elements written: the table function the list literal is lowered to returns its arguments as a list
    # whatever they are (a builder that converts a single container flattens [[1, 2]] and [pair])
    from .c07 import list_literal_builder
    list_literal_builder(chk, R6, functab.table(F))


def _none_is_a_value(chk: Check, R3: str, acc) -> None:
    """None is a value a dict can hold (`d["x"] = None`).  A keyed accessor that decides "absent" by comparing what the container
    returned with None - get(key) is None -> default - answers differently from d[k], values() and items() for such an entry."""
    F = chk.facts
    for name, (q, ci, ki) in sorted(acc.items()):
        fi = F.func(q)
        params = [a.arg for a in fi.node.args.args]
        if len(params) <= max(ci, ki):
            continue
        cont = ('param', params[ci])
        problems = []
        for p in SymExec(F, fi).run():
            if not p.normal:
                continue
            for c, v, _ in p.assumptions:
                c = freeze(c)
                if isinstance(c, tuple) and c[:2] == ('cmp', 'is') and c[3] == ('const', None) and v and isinstance(c[2], tuple):
                    got = c[2]
                    looked_up = (got[:1] == ('call',) and isinstance(got[2], tuple) and got[2][:1] == ('attr',) and got[2][1] == cont
                                 and got[2][2] in ('get', 'pop', '__getitem__')) or (got[:1] == ('sub',) and got[1] == cont)
                    if looked_up and not om.mentions(p.outcome[1], got):
                        problems.append('when `%s` is None the function returns %s: an entry whose value is None is treated as absent' % (
                            show(got), show(p.outcome[1])))
        if problems:
            chk.bad(R3, 'FUNCTIONS[%r] -> %s :: None as the absent marker' % (name, q), fi.where, '; '.join(sorted(set(problems))[:2]))


def _views(chk: Check) -> None:
    """keys / values / items show what the dict holds: each is built from the container's own view of the same name."""
    F = chk.facts
    R8 = chk.rule('C14.R8', 'keys / values / items observe the container: each returns, on every path, a value built from the view of the '
                            'same name of its argument (`list(value.keys())`), not nothing and not another view', floor=3)
    tab = functab.table(F)
    n = 0
    for name in ('keys', 'values', 'items'):
        ent = tab.get(name)
        if ent is None:
            continue
        n += 1
        fi = ent.funcinfo(F)
        where = '%s:%d' % (F.modules[functab.FUNCS_MOD].rel, ent.line)
        if fi is None:
            ok = ent.kind in ('ext', 'builtin') and ent.target.endswith('.' + name)
            chk.require(ok, R8, ent.label, where, 'the dict method itself' if ok else '%s is %s, not a view of the container' % (name, ent.target))
            continue
        params = [a.arg for a in fi.node.args.args]
        problems = []
        for p in SymExec(F, fi).run():
            if not p.normal:
                continue

            def has_view(t):
                if isinstance(t, tuple):
                    if t[:1] == ('call',) and isinstance(t[2], tuple) and t[2][:1] == ('attr',) and t[2][2] == name and params \
                            and t[2][1] == ('param', params[0]):
                        return True
                    return any(has_view(x) for x in t)
                return False
            if not has_view(freeze(p.outcome[1])):
                problems.append('a path returns %s' % show(p.outcome[1]))
        chk.require(not problems, R8, ent.label, where, '; '.join(sorted(set(problems))[:2]) + ': not built from `%s.%s()`' % (params[0] if params else '?', name)
                    if problems else 'built from the %s() view of its argument' % name)
    if n == 0:
        raise AnalysisError('anchor vanished: none of keys / values / items is in the function table')


def _one_slot(chk: Check) -> None:
    """`c[k] = v`, `c[k] op= v`, `c[k]` and `del c[k]` address one slot of one container.  That is the case when the tree built for
    the statement holds the container expression and the key expression once each: a desugaring that mentions them twice (read
    through one copy, write through the other) evaluates them twice, and with `hits[todo.pop()] += 1` the read and the write land
    in different slots."""
    F = chk.facts
    R7 = chk.rule('C14.R7', 'one slot per keyed statement: the tree of every index form (read, write, compound write, del) contains the '
                            'container sub-expression and the key sub-expression exactly once', floor=3)
    g = C.grammar(F)
    lm = C.lexmodel(F)
    T = C.templates(F)
    n = 0
    for t in T.all():
        rhs = t.prod.rhs
        if t.raises is not None or not any(lm.token_texts.get(s_) == {'['} and i_ > 0 for i_, s_ in enumerate(rhs)):
            continue        # index forms: a bracket that follows something
        syms = A.symbols_in(t.result)
        seen = {}
        for pos, sym in syms:
            if sym in g.nonterminals:       # (a token value is a constant: mentioning it twice evaluates nothing twice)
                seen[pos] = seen.get(pos, 0) + 1
        twice = sorted('$%s (%s)' % (pos, rhs[int(pos.split('.')[0]) - 1] if pos.split('.')[0].isdigit() and int(pos.split('.')[0]) <= len(rhs) else '?')
                       for pos, k in seen.items() if k > 1)
        n += 1
        chk.require(not twice, R7, t.key, '%s:%d' % (g.module.rel, t.prod.line),
                    'the tree mentions %s more than once: that sub-expression is evaluated once per mention, so its side effects are repeated and '
                    'the read and the write of a compound index assignment can address different slots' % ', '.join(twice) if twice else
                    'every part of the statement occurs once in the tree')
    if n == 0:
        raise AnalysisError('anchor vanished: no production with an index bracket builds a tree')


def _membership(chk: Check, R5: str) -> None:
    F = chk.facts
    from .c07 import grammar_ops, child_events
    for cls in om.op_classes(F):
        q = cls + '.eval'
        if cls == om.ROOT or q not in F.functions:
            continue
        kinds = om.op_field_kinds(F, cls)
        if kinds.get('op') != 'str':
            continue
        opfields = [f for f, k in kinds.items() if k == 'op']
        if len(opfields) != 2:
            continue
        selft, stt = ('param', om.self_param(F, q)), ('param', om.state_param(F, q))
        for op in grammar_ops(F, cls):
            if op not in ('in', 'not in'):
                continue
            problems = []
            n = 0
            for p in om.eval_paths(F, cls, op):
                if not p.normal:
                    continue
                ce = child_events(F, p, selft, stt)
                res = {c[0]: freeze(c[2].result) for c in ce if c[2].kind == 'call'}
                a, b = res.get(opfields[0]), res.get(opfields[1])
                tests = []

                def scan(t):
                    if isinstance(t, tuple):
                        if t[:2] == ('cmp', 'in') and len(t) == 4:
                            tests.append(t)
                        for x in t:
                            scan(x)
                scan(freeze(p.outcome[1]))
                for c, _, _ in p.assumptions:
                    scan(freeze(c))
                for t in tests:
                    if b is not None and om.mentions(t[3], b) or t[3] == b:
                        n += 1
                        if t[2] != a:
                            problems.append('the membership test is `%s in %s`: the needle is not the left operand itself' % (show(t[2]), show(t[3])))
            chk.require(not problems and n, R5, '%s [op=%r]' % (q, op), F.func(q).where,
                        '; '.join(sorted(set(problems))) or ('tests the evaluated left operand itself' if n else 'no membership test on the right operand found'))


def _lin(t, V, N):
    """t as (a, b, c) meaning a*V + b*N + c, or None."""
    t = A.strip_ids(freeze(t))
    if t == V:
        return (1, 0, 0)
    if t == N:
        return (0, 1, 0)
    if isinstance(t, tuple) and t:
        if t[0] == 'const' and isinstance(t[1], int) and not isinstance(t[1], bool):
            return (0, 0, t[1])
        if t[0] == 'unop' and t[1] in ('-', 'neg', 'USub') and len(t) == 3:
            x = _lin(t[2], V, N)
            return None if x is None else (-x[0], -x[1], -x[2])
        if t[0] == 'binop' and t[1] in ('+', '-'):
            x, y = _lin(t[2], V, N), _lin(t[3], V, N)
            if x is None or y is None:
                return None
            sg = 1 if t[1] == '+' else -1
            return (x[0] + sg * y[0], x[1] + sg * y[1], x[2] + sg * y[2])
    return None


def _admits_all_valid(a, b, c, strict: bool) -> bool:
    """Does  a*K + b*n + c >= 0  (> 0 when strict) hold for every n >= 1 and every valid list index -n <= K <= n-1 ?
    A linear function of K over an interval is minimal at an end point; each end point gives a linear function p*n + q of n,
    which is >= 0 for all n >= 1 iff p >= 0 and p + q >= 0."""
    for p_, q_ in (((b - a), c), ((a + b), (c - a))):      # K = -n ;  K = n - 1
        lo = p_ + q_
        if p_ < 0 or (lo <= 0 if strict else lo < 0):
            return False
    return True


def index_guards(chk: Check, R4: str, acc) -> None:
    """Explicit bounds tests in front of a list access must not turn away a valid position (-len <= k < len)."""
    F = chk.facts
    n_guards = 0
    for name, (q, ci, ki) in sorted(acc.items()):
        fi = F.func(q)
        params = [a.arg for a in fi.node.args.args]
        Cn = ('param', params[ci])
        N = ('pcall', 'len', (Cn,))
        access_paths = []
        for p in SymExec(F, fi).run():
            isdict = None
            for c, v, _ in p.assumptions:
                if isinstance(c, tuple) and c[:2] == ('pcall', 'isinstance') and c[2][0] == Cn and om.mentions(c[2][1], DICT):
                    isdict = v
            if isdict is True:
                continue
            idx = None
            for e in p.events:
                if e.kind in ('load_sub', 'store_sub', 'aug_sub', 'del_sub') and freeze(e.obj) == Cn:
                    idx = A.strip_ids(freeze(e.index))
                elif e.kind == 'call':
                    f = freeze(e.func)
                    if isinstance(f, tuple) and f and f[0] == 'attr' and f[1] == Cn and f[2] == 'pop' and e.args:
                        idx = A.strip_ids(freeze(e.args[0]))
            if idx is None:
                continue
            cons = []
            for c, v, _ in p.assumptions:
                cc = c
                vv = v
                while isinstance(cc, tuple) and cc and cc[0] == 'not':
                    cc, vv = cc[1], not vv
                if not (isinstance(cc, tuple) and cc and cc[0] == 'cmp' and cc[1] in ('<', '<=', '>', '>=', '==', '!=')):
                    continue
                L, R_ = _lin(cc[2], idx, N), _lin(cc[3], idx, N)
                if L is None or R_ is None:
                    continue
                a, b, c0 = L[0] - R_[0], L[1] - R_[1], L[2] - R_[2]
                if a == 0:
                    continue            # does not constrain the position
                op = cc[1]
                if not vv:
                    op = {'<': '>=', '<=': '>', '>': '<=', '>=': '<', '==': '!=', '!=': '=='}[op]
                if op in ('<', '<='):
                    a, b, c0, op = -a, -b, -c0, {'<': '>', '<=': '>='}[op]
                cons.append((a, b, c0, op, show(c), v))
            access_paths.append((p, cons))
        guarded = [x for x in access_paths if x[1]]
        if not guarded:
            continue
        n_guards += 1
        shapes = {tuple((a, b, c0, op) for a, b, c0, op, _, _ in cons) for _, cons in access_paths}
        if len(shapes) > 1:
            chk.ok(R4, 'FUNCTIONS[%r] -> %s' % (name, q), fi.where, 'the access is reached under %d different sets of bounds tests: their union '
                                                                 'is not analysed' % len(shapes))
            continue
        problems = []
        for a, b, c0, op, text, v in guarded[0][1]:
            if op in ('==',):
                problems.append('`%s` admits a single position only' % text)
            elif op == '!=':
                continue
            elif not _admits_all_valid(a, b, c0, strict=(op == '>')):
                problems.append('the access is only reached when `%s` is %s: that turns away a valid position (a list of n elements '
                                'has the positions -n .. n-1; check k = -n and k = n-1)' % (text, v))
        chk.require(not problems, R4, 'FUNCTIONS[%r] -> %s' % (name, q), fi.where, '; '.join(sorted(set(problems))) or
                    'bounds test(s) in front of the access admit every position -n .. n-1')
    if n_guards == 0:
        chk.ok(R4, 'keyed accessors', 'smartquery/functions.py', 'no accessor tests the position explicitly (lookup errors are converted instead, R3)')


def _literal_key_cast(chk: Check):
    """Normal form of the cast applied to a dict literal key (from the node class built by `{ k : v }`)."""
    F = chk.facts
    from .. import ctx as C
    T = C.templates(F)
    lm = C.lexmodel(F)
    cls = None
    for t in T.all():
        if t.raises is None and isinstance(t.result, tuple) and t.result[0] == 'new' and len(t.prod.rhs) == 3 \
                and lm.token_texts.get(t.prod.rhs[0]) == {'{'} and t.prod.rhs[1] not in lm.token_texts:
            cls = t.result[1]
    if cls is None:
        raise AnalysisError('anchor vanished: no production `{ dict_item }` building a node')
    q = cls + '.eval'
    selft, stt = ('param', om.self_param(F, q)), ('param', om.state_param(F, q))
    for p in om.eval_paths(F, cls):
        if not p.normal:
            continue
        r = p.outcome[1]
        keyterm = None
        if isinstance(r, tuple) and r[0] == 'comp' and r[1] == 'dict':
            keyterm = r[2][1]
        else:
            for e in p.events:
                if e.kind == 'store_sub' and om.is_child_eval is not None:
                    keyterm = freeze(e.index)
        if keyterm is None:
            continue
        # replace the evaluated key by K
        for e in p.events:
            rr = om.is_child_eval(e, selft, stt)
            if rr and om.mentions(keyterm, freeze(e.result)):
                return _subst(A.strip_ids(keyterm), A.strip_ids(freeze(e.result)), 'K')
    return None
