"""C06 -- the parser accepts exactly the grammar and groups by the operator table."""
from __future__ import annotations

from typing import Any, Dict, List, Optional, Set, Tuple

from ..facts import AnalysisError
from ..report import Check
from ..symexec import freeze, show, SymExec
from .. import lexmodel as LM
from .. import opmodel as om
from .. import ctx as C
from .. import lalr
from .. import actions as A
from ..grammar import Production

# ------------------------------------------------------------------ the oracle
# binding levels of the *surface* operators, from the property statement (higher binds tighter)
LEVELS: Dict[str, Tuple[int, str]] = {
    'or': (1, 'left'), 'and': (2, 'left'),
    '==': (3, 'nonassoc'), '!=': (3, 'nonassoc'), '>': (3, 'nonassoc'), '<': (3, 'nonassoc'), '>=': (3, 'nonassoc'),
    '<=': (3, 'nonassoc'), 'in': (3, 'nonassoc'), 'not in': (3, 'nonassoc'),
    '+': (4, 'left'), '-': (4, 'left'), '*': (5, 'left'), '/': (5, 'left'), '**': (6, 'right'),
    '.': (7, 'left'), '|': (7, 'left'),
    'unary -': (8, 'right'), 'unary not': (8, 'right'),
    '[': (9, 'left'),
    'if': (0, 'right'),
}


def _spaced_words(parsed) -> Optional[str]:
    """Canonical text of a token made of fixed words separated by runs of white space (`not\\s+in` -> 'not in')."""
    import re._constants as K
    out = []
    try:
        items = list(parsed)
    except TypeError:
        return None
    for op, av in items:
        if op is K.LITERAL:
            out.append(chr(av))
        elif op in (K.MAX_REPEAT, K.MIN_REPEAT) and av[0] >= 1:
            sub = list(av[2])
            ok = len(sub) == 1 and ((sub[0][0] is K.IN and all(x == (K.CATEGORY, K.CATEGORY_SPACE) or (x[0] is K.LITERAL and chr(x[1]) in ' \t')
                                                               for x in sub[0][1]))
                                    or (sub[0][0] is K.LITERAL and chr(sub[0][1]) in ' \t'))
            if not ok:
                return None
            out.append(' ')
        else:
            return None
    txt = ''.join(out)
    return txt if txt.strip() and ' ' in txt.strip() else None


class Surface:
    def __init__(self, F):
        self.F = F
        self.g = C.grammar(F)
        self.lm = C.lexmodel(F)
        self.nts = set(self.g.nonterminals)
        self.levels: Dict[str, Tuple[float, str]] = dict(LEVELS)
        self.declared_operators: Dict[str, str] = {}
        self._declared_rows()

    def _declared_rows(self) -> None:
        """A binary operator the published table does not know (`expression TOK expression` with a fixed spelling and a
        precedence row of its own) is defined by its declaration: the level of the known operators of its row, or a level
        strictly between the known rows around it, and the associativity the row declares."""
        rows = list(self.g.precedence)
        fict = {'UMINUS': 'unary -', 'UNOT': 'unary not'}

        def known_level(row):
            ls = set()
            for t in row[1:]:
                tx = fict.get(t) or self.text(t)
                if tx == 'not':
                    tx = 'not in'
                if tx in LEVELS:
                    ls.add(LEVELS[tx][0])
            return ls
        known = [known_level(r) for r in rows]
        for p in self.g.productions[1:]:
            r = p.rhs
            if not (len(r) == 3 and r[0] == r[2] == 'expression' and r[1] not in self.nts):
                continue
            tx = self.text(r[1])
            if tx is None or tx in LEVELS or tx in self.levels:
                continue
            at = [i for i, row in enumerate(rows) if r[1] in row[1:]]
            if len(at) != 1:
                continue
            i = at[0]
            if known[i]:
                if len(known[i]) != 1:
                    continue
                lvl = float(next(iter(known[i])))
            else:
                below = [max(k) for k in known[:i] if k]
                above = [min(k) for k in known[i + 1:] if k]
                lo = max(below) if below else -1.0
                hi = min(above) if above else 10.0
                if not lo < hi:
                    continue
                lvl = (lo + hi) / 2.0
            self.levels[tx] = (lvl, rows[i][0])
            self.declared_operators[tx] = 'row %d of the precedence declaration (%s, level %s of the published scale)' % (i + 1, rows[i][0], lvl)

    def text(self, tok: str) -> Optional[str]:
        t = self.lm.token_texts.get(tok)
        if t is not None and len(t) == 1:
            return next(iter(t))
        if t is None and tok in self.lm.rules:
            w = _spaced_words(self.lm.rules[tok].parsed)
            if w is None and isinstance(self.lm.const_value.get(tok), str):
                return self.lm.const_value[tok]     # the rule rewrites every match to one spelling
            return w
        return None

    def is_expr(self, s: str) -> bool:
        return s == 'expression'

    def token_operator(self, tok: str) -> Optional[str]:
        """The surface operator a lookahead token starts when it follows a complete expression."""
        tx = self.text(tok)
        if tx is None:
            return None
        if tx == 'not':
            return 'not in'
        if tx in self.levels:
            return tx
        return None

    def classify(self, p: Production) -> Tuple[str, Any]:
        rhs = p.rhs
        tx = [self.text(s) if s not in self.nts else None for s in rhs]
        n = len(rhs)
        if n == 3 and self.is_expr(rhs[0]) and self.is_expr(rhs[2]) and tx[1] in self.levels and tx[1] not in ('.', '|', '[', 'if'):
            return ('binary', tx[1])
        if n == 4 and self.is_expr(rhs[0]) and self.is_expr(rhs[3]) and tx[1] == 'not' and tx[2] == 'in':
            return ('binary', 'not in')
        if n == 2 and self.is_expr(rhs[1]) and tx[0] in ('-', 'not'):
            return ('prefix', 'unary ' + tx[0])
        if n >= 3 and tx[-2] == '=>' and self.is_expr(rhs[-1]):
            return ('tail', 'lambda body')
        if n == 5 and self.is_expr(rhs[0]) and tx[1] == 'if' and tx[3] == 'else' and self.is_expr(rhs[4]):
            return ('tail', 'conditional')
        if n == 3 and self.is_expr(rhs[0]) and tx[1] in ('|', '.') and rhs[2] not in self.nts:
            return ('suffix-name', tx[1])
        if n == 1 and self.is_expr(rhs[0]) and p.lhs != 'expression' and p.lhs not in ('statement', 'line'):
            return ('unit', p.lhs)
        if n == 3 and rhs[0] == rhs[2] == p.lhs and tx[1] == ',':
            return ('separator', p.lhs)
        return ('other', None)


def expected_action(sf: Surface, p: Production, tok: str) -> Tuple[Optional[str], str]:
    kind, what = sf.classify(p)
    op = sf.token_operator(tok)
    tx = sf.text(tok)
    if kind in ('binary', 'prefix'):
        if op is None:
            return (None, 'lookahead %s is not an operator' % tok)
        lp, assoc = sf.levels[what]
        lt, _ = sf.levels[op]
        if lp > lt:
            return ('reduce', '%s binds tighter than %s' % (what, op))
        if lp < lt:
            return ('shift', '%s binds tighter than %s' % (op, what))
        if kind == 'prefix':
            return ('reduce', 'a complete prefix operand is not extended by a suffix of the same level')
        return ({'left': 'reduce', 'right': 'shift', 'nonassoc': 'error'}[assoc], '%s is %s-associative' % (what, assoc))
    if kind == 'tail':
        if op is not None or tx in ('(',):
            return ('shift', '%s extends as far to the right as possible' % what)
        return (None, 'lookahead %s cannot continue an expression' % tok)
    if kind == 'suffix-name':
        if tx == '(':
            return ('shift', 'x %s f followed by ( is a call with arguments' % what)
        if op is not None:
            lp = sf.levels[what][0]
            lt = sf.levels[op][0]
            return ('reduce' if lp >= lt else 'shift', 'suffix level versus %s' % op)
        return (None, '')
    if kind == 'unit' and tx == ']':
        return ('shift', 'e[ i ] with a single expression is an index, not a slice')
    return (None, 'no rule of the operator table applies to `%s` before %s' % (p, tok))


def check(chk: Check) -> None:
    F = chk.facts
    R1 = chk.rule('C06.R1', 'resolution matrix conforms: every shift/reduce decision the automaton made (by precedence or by '
                            'default, in every state) equals what the published operator table prescribes for that '
                            '(completed production, lookahead) pair', floor=100)
    R2 = chk.rule('C06.R2', 'nothing derivable is silently cut off: no reduce/reduce conflict, no production that is never '
                            'reduced unless its sentences are derived by a sibling, every default resolution belongs to '
                            'a justified family (greedy tail, index-vs-slice)', floor=2)
    R3 = chk.rule('C06.R3', 'lexer and grammar agree on the alphabet: every terminal is producible by the lexer, keyword '
                            'terminals are in the keyword table, tokens and precedence rows are consistent', floor=25)
    R4 = chk.rule('C06.R4', 'templates are well-kinded: fields receive values of the declared kind, no p[i] beyond the '
                            'production, binary productions build op(text of the operator tokens, $1, $last)', floor=40)
    R5 = chk.rule('C06.R5', 'the analysed tables are PLY\'s tables: own LALR(1) + yacc resolution equals the output of '
                            'ply/yacc.py\'s generator on the same grammar, state by state', floor=1)
    chk.decided += ['grouping: an LR parser\'s only freedom is how conflicts were resolved; every resolved cell is compared with the operator table (R1)',
                    'structural necessary conditions of "accepted iff derivable": r/r conflicts, dead productions, unjustified default resolutions (R2)',
                    'alphabet agreement (R3)', 'tree-building actions are well-kinded and build the operator the tokens spell (R4)']
    chk.not_decided += ['full language equality of the CFG and the conflict-resolved automaton (undecidable in general); whether PLY\'s run time follows its own tables (trusted)']
    chk.trusted += ['smartquery/ply/yacc.py run time (LRParser) follows the generated tables']
    g = C.grammar(F)
    lm = C.lexmodel(F)
    T = C.tables(F)
    TP = C.templates(F)
    sf = Surface(F)
    if sf.declared_operators:
        chk.extra['operators_defined_by_their_declaration'] = sf.declared_operators
    chk.extra['automaton'] = {'states': len(T.kernels), 'productions': len(g.productions), 'sr_conflicts_counted': T.sr_count,
                              'rr_conflicts': T.rr_count, 'decisions': len(T.decisions)}

    # --------------------------------------------------------------------- R5
    cmp_ = lalr.compare_with_ply(F, T)
    chk.extra['ply_comparison'] = {k: v for k, v in cmp_.items() if k != 'diffs'}
    ok = not cmp_['diffs'] and cmp_['own_states'] == cmp_['ply_states'] == cmp_['mapped'] and \
        cmp_['own_sr'] == cmp_['ply_sr'] and cmp_['own_rr'] == cmp_['ply_rr']
    chk.require(ok, R5, 'LALR tables', g.module.rel,
                '%d states, %d s/r + %d r/r conflicts on both sides, 0 differing cells' % (cmp_['own_states'], cmp_['own_sr'], cmp_['own_rr']) if ok
                else 'PLY\'s generator disagrees with yacc resolution: %s' % '; '.join(cmp_['diffs'][:3] or ['state/conflict counts differ: %r' % {k: v for k, v in cmp_.items() if k != 'diffs'}]))

    # --------------------------------------------------------------------- R1
    cells: Dict[Tuple[int, str], Dict[str, Any]] = {}
    for d in T.decisions:
        if d.kind != 'sr':
            continue
        c = cells.setdefault((d.prod, d.token), {'results': set(), 'states': [], 'by': set()})
        c['results'].add(d.result)
        c['states'].append(d.state)
        c['by'].add(d.by)
    unjustified_defaults = []
    for (pi, tok), c in sorted(cells.items()):
        p = g.productions[pi]
        exp, why = expected_action(sf, p, tok)
        cons = 'cell (`%s`, lookahead %s)' % (p, tok)
        where = '%s:%d' % (g.module.rel, p.line)
        got = '/'.join(sorted(c['results']))
        if exp is None:
            if 'default' in c['by']:
                unjustified_defaults.append((p, tok, c, why))
            else:
                chk.unrec(R1, cons, where, 'precedence-resolved conflict the operator table does not cover: %s' % why)
            continue
        if c['results'] == {exp}:
            chk.ok(R1, cons, where, '%s in %d state(s): %s' % (exp, len(c['states']), why))
        else:
            chk.bad(R1, cons, where, 'the automaton does `%s` in state(s) %s, the operator table prescribes `%s` (%s)' % (
                got, ','.join(map(str, sorted(set(c['states']))[:4])), exp, why))

    # --------------------------------------------------------------------- R2
    n2 = 0
    for d in T.decisions:
        if d.kind == 'rr':
            n2 += 1
            win, lose = g.productions[d.prod], g.productions[d.other]
            chk.bad(R2, 'reduce/reduce `%s` vs `%s` on %s' % (win, lose, d.token), '%s:%d' % (g.module.rel, lose.line),
                    'decided by definition order for `%s`: sentences that need `%s` here are rejected' % (win, lose))
    if not any(d.kind == 'rr' for d in T.decisions):
        chk.ok(R2, 'reduce/reduce conflicts', g.module.rel, 'none')
    if not T.never_reduced:
        chk.ok(R2, 'productions never reduced', g.module.rel, 'none')
    for pi in T.never_reduced:
        n2 += 1
        p = g.productions[pi]
        harmless = _sibling_inlined(g, p)
        chk.require(harmless, R2, 'never reduced: `%s`' % p, '%s:%d' % (g.module.rel, p.line),
                    'every use of %s has a sibling production with `%s` spelled out, so no sentence is lost' % (p.lhs, ' '.join(p.rhs)) if harmless
                    else 'the automaton never reduces by this production: sentences that need it are rejected although the grammar derives them')
    for p, tok, c, why in unjustified_defaults:
        n2 += 1
        kind, what = sf.classify(p)
        chk.bad(R2, 'default resolution (`%s`, lookahead %s)' % (p, tok), '%s:%d' % (g.module.rel, p.line),
                'shift/reduce conflict resolved by the default (shift) with no justification in the grammar: after `%s` the parser '
                'commits to a longer %s and rejects texts in which %s ends here' % (p, p.lhs, p.lhs))
    fam = {}
    for (pi, tok), c in cells.items():
        if 'default' in c['by']:
            kind, what = sf.classify(g.productions[pi])
            fam.setdefault(kind if kind != 'unit' else 'index-vs-slice', 0)
            fam[kind if kind != 'unit' else 'index-vs-slice'] += len(c['states'])
    chk.extra['default_resolution_families'] = fam
    chk.ok(R2, 'justified default resolutions', g.module.rel, ', '.join('%s: %d' % kv for kv in sorted(fam.items())) or 'none')

    _r3(chk, R3, g, lm)
    _r4(chk, R4, g, lm, TP, sf)
    _r6(chk, g, T, sf)
    _r7_r8(chk, sf)


def _r6(chk: Check, g, T, sf) -> None:
    """Bounded decision of `derivable => accepted`: every token string the grammar derives up to a length bound is
    driven through the automaton (a query on two static artefacts; nothing is lexed, no action runs)."""
    R6 = chk.rule('C06.R6', 'derivable implies accepted, exhaustively up to a length bound: every token string the grammar '
                            'derives (quick: length <= 5 over the full alphabet; thorough: also length <= 6 over one '
                            'representative per class of interchangeable terminals) is accepted by the automaton, or rejected '
                            'only through precedence entries of the operator table (never through a default or definition-order resolution)', floor=1)
    runs = [('full alphabet, length <= 5', 5, None)]
    if chk.tier == 'thorough':
        rep = lalr.terminal_classes(g)
        only = set(rep.values())
        runs.append(('%d representative terminals of %d, length <= 6' % (len(only), len(rep)), 6, only))
    stats = []
    groups: Dict[Tuple, Tuple[Tuple[str, ...], str]] = {}
    for label, L, only in runs:
        S = lalr.sentences(g, L, only)
        n_acc = n_na = 0
        for sent in S:
            ok, seen = lalr.run_decisions(T, list(sent))
            if ok:
                n_acc += 1
                continue
            # a rejection is dictated by the operator table when the run consulted only precedence-resolved decisions
            # (which R1 has compared with the table) and at least one of them; a default- or order-resolved decision on
            # the way means the grammar's sentence was cut off by PLY's tie-breaking, not by the published table
            def dictated(d):
                if d.by == 'precedence':
                    return True
                if d.by == 'default' and d.kind == 'sr':
                    exp, _ = expected_action(sf, g.productions[d.prod], d.token)
                    return exp is not None and exp == d.result      # greedy tail / index-vs-slice: the statement prescribes them
                return False
            if any(d.by == 'precedence' for d in seen) and all(dictated(d) for d in seen):
                n_na += 1
            else:
                why = lalr.simulate(T, list(sent))[1]
                st, la = lalr.stuck_state(T, list(sent))
                kernel = tuple(sorted('%s -> %s . %s' % (g.productions[pi].lhs, ' '.join(g.productions[pi].rhs[:d]), ' '.join(g.productions[pi].rhs[d:]))
                                      for pi, d in T.kernels[st]))
                key = (kernel, la)
                cur = groups.get(key)
                if cur is None or (len(sent), sent) < (len(cur[0]), cur[0]):
                    groups[key] = (sent, why)
        stats.append({'run': label, 'sentences': len(S), 'accepted': n_acc, 'rejected_by_precedence': n_na})
        chk.ok(R6, 'sentences: ' + label, g.module.rel, '%d derivable token strings: %d accepted, %d rejected because a precedence entry '
               'of the operator table (checked by R1) decided against the only derivation - e.g. a < b < c, del -x[i]' % (len(S), n_acc, n_na))
    chk.extra['bounded_language_check'] = stats
    for (kernel, la), (sent, why) in sorted(groups.items(), key=lambda kv: kv[1][0]):
        chk.bad(R6, 'derivable but rejected: after `%s` on lookahead %s' % (' ; '.join(kernel), la), g.module.rel,
                'the grammar derives `%s` (and every sentence of this shape) but the automaton stops: %s' % (' '.join(sent), why))


def _sibling_inlined(g, p: Production) -> bool:
    """A -> beta is never reduced; harmless iff for every B -> alpha A gamma there is B -> alpha beta gamma."""
    uses = [q for q in g.productions[1:] if p.lhs in q.rhs]
    if not uses:
        return False
    have = {(q.lhs, q.rhs) for q in g.productions[1:]}
    for q in uses:
        for i, s in enumerate(q.rhs):
            if s == p.lhs:
                if (q.lhs, q.rhs[:i] + p.rhs + q.rhs[i + 1:]) not in have:
                    return False
    return True


def _r3(chk: Check, R3: str, g, lm) -> None:
    producible = set()
    for name, rm in lm.rules.items():
        if rm.returns_token != 'never':
            producible.add(name)
    producible |= set(lm.reserved.values())
    nts = set(g.nonterminals)
    where = g.lexmodule.rel
    for t in g.terminals:
        if t == 'error':
            continue
        ok = t in producible
        silent = (t in lm.rules and lm.rules[t].returns_token == 'never') or ('ignore_' + t) in lm.rules
        if silent:
            # dead but harmless: no source text maps to this token, so no text is accepted or rejected because of it
            chk.ok(R3, 'terminal %s' % t, where, 'the lexer rule for %s drops its match (returns no token): the productions using it are '
                                                 'dead code, no text is affected' % t)
            continue
        chk.require(ok, R3, 'terminal %s' % t, where,
                    'produced by the lexer' if ok else 'no lexer rule or keyword produces %s: the text it stood for is lexed as something else or rejected, '
                    'and every production that uses it is unreachable' % t)
    for t in g.terminals:
        if t not in g.tokens:
            chk.bad(R3, 'terminal %s declared' % t, where, 'used in a production but missing from `tokens`')
    for kwtok in set(lm.reserved.values()):
        if kwtok not in g.tokens:
            chk.bad(R3, 'keyword token %s declared' % kwtok, where, 'keyword table maps to %s, which is not in `tokens`: PLY rejects the token at run time' % kwtok)
    used_prec = {p.explicit_prec for p in g.productions if p.explicit_prec}
    for row in g.precedence:
        for t in row[1:]:
            ok = t in g.tokens or t in used_prec
            chk.require(ok, R3, 'precedence entry %s' % t, where, 'declared token or used %prec name' if ok else 'precedence given for %s, which is neither a token nor a %%prec name in use' % t)


def _r4(chk: Check, R4: str, g, lm, TP, sf: Surface) -> None:
    F = chk.facts
    for t in TP.all():
        where = '%s:%d' % (g.module.rel, t.prod.line)
        problems = []
        for e in t.events:
            if e.kind == 'prod_oob':
                problems.append('`%s` reads p[%s], beyond the %d symbols of this alternative (IndexError at parse time)' % (
                    e.text(), show(e.index), len(t.prod.rhs)))
            if e.kind == 'bad_ctor':
                problems.append('constructor call does not fit %s: %s' % (e.cls.rsplit('.', 1)[-1], e.why))
        if t.raises is not None and not any(e.kind == 'prod_oob' for e in t.events):
            rc = t.raises
            if isinstance(rc, tuple) and rc[:1] == ('call',) and rc[2] == ('ref', 'builtin', 'IndexError'):
                problems.append('the action raises IndexError')
        if t.raises is None:
            for cls, flds in A.new_nodes(t.result):
                if cls not in F.classes:
                    continue
                ann = {n: om.annotation_kind(F, F.cls(q).module, a) for n, a, d, q in F.all_fields(cls)}
                for fn, v in flds:
                    want = ann.get(fn, 'any')
                    got = _vkind(F, TP, v)
                    if want == 'op' and got not in ('op', 'any'):
                        problems.append('%s.%s is declared an Op but receives %s (%s)' % (cls.rsplit('.', 1)[-1], fn, got, show(v)))
                    if want == 'str' and got not in ('text', 'any'):
                        problems.append('%s.%s is declared str but receives %s (%s)' % (cls.rsplit('.', 1)[-1], fn, got, show(v)))
                    if want in ('oplist', 'pairlist', 'list') and got not in ('list', 'any'):
                        problems.append('%s.%s is declared a list but receives %s (%s)' % (cls.rsplit('.', 1)[-1], fn, got, show(v)))
            kind, what = sf.classify(t.prod)
            if kind in ('binary', 'prefix') and isinstance(t.result, tuple) and t.result[:1] == ('new',):
                fd = dict(t.result[2])
                opv = fd.get('op')
                want_op = what.replace('unary ', '')
                if opv != ('const', want_op):
                    problems.append('the node\'s operator field is %s, the tokens spell %r' % (show(opv) if opv else 'missing', want_op))
                n = len(t.prod.rhs)
                operands = [v for fn, v in t.result[2] if isinstance(v, tuple) and v[:1] == ('sym',)]
                pos = [v[1] for v in operands]
                want_pos = ['1', str(n)] if kind == 'binary' else [str(n)]
                if pos != want_pos:
                    problems.append('operands are taken from positions %s, expected %s' % (pos, want_pos))
            if not t.result_set and t.prod.rhs and t.prod.lhs == 'expression':
                problems.append('the action never assigns p[0]: the expression evaluates to None in the tree')
        chk.require(not problems, R4, 'template ' + t.key, where, '; '.join(sorted(set(problems))) or t.show()[:100])


def _vkind(F, TP, v) -> str:
    if not isinstance(v, tuple) or not v:
        return 'any'
    if v[0] == 'sym':
        ks = set(v[4]) if len(v) > 4 else {'op'}
        if ks <= {'op', 'none'}:
            return 'op'
        if ks == {'list'}:
            return 'list'
        return 'any'
    if v[0] == 'new':
        return 'op' if F.is_subclass(v[1], om.ROOT) else 'object'
    if v[0] in ('symlist', 'list'):
        return 'list'
    if v[0] == 'tok':
        return 'text'
    if v[0] == 'const':
        return 'text' if isinstance(v[1], str) else ('none' if v[1] is None else 'scalar')
    if v[0] == 'default':
        return 'any'
    return 'any'


def _r7_r8(chk: Check, sf: Surface) -> None:
    """The grammar speaks about tokens; "a text is accepted iff the grammar derives it" also needs the text to be cut into the
    tokens the grammar means, and every tree to come out of the parser."""
    F = chk.facts
    lm = sf.lm
    R7 = chk.rule('C06.R7', 'token boundaries: no rule tried before the identifier rule can match the beginning of a longer '
                            'identifier, and no operator / keyword rule can match across a line break', floor=1)
    R8 = chk.rule('C06.R8', 'every tree comes out of the LALR parser: each returning path of SqParser.parse returns the cached '
                            'tree for this text or the tree the yacc run on this text left behind - nothing is parsed by other means', floor=1)
    R9 = chk.rule('C06.R9', 'the tree is a function of the derivation: the action of a production builds the same tree whatever its '
                            'children contain (no comparison of child subtrees, no position found by equality with a child)', floor=40)
    chk.decided += ['tokenisation cannot split identifiers or glue lines (R7)', 'no parsing shortcut outside the tables (R8)',
                    'actions do not look into their children (R9)']
    from .c09 import _r3 as content_independent
    content_independent(chk, R9)
    from .c18 import identifier_prefix_thieves, ident_token
    from . import lexfacts as LF
    IDENT = ident_token(lm)
    thieves = identifier_prefix_thieves(lm, IDENT)
    chk.require(not thieves, R7, 'rules tried before t_%s' % IDENT, lm.spec.module.rel, '; '.join(thieves) or
                '%d earlier rules: none can stop inside an identifier' % lm.order.index(IDENT))
    NL = LF.newline_rule(lm)
    for name in lm.order:
        rm = lm.rules[name]
        if not rm.newline or name == NL:
            continue
        stringish = any(LM.first_chars_can(rm.parsed, q) for q in '"\'') and not any(LM.first_chars_can(rm.parsed, c) for c in 'az_')
        if stringish or rm.returns_token == 'never':
            continue            # string literals carry their line breaks as data; comments are C15's business
        chk.bad(R7, 't_%s spans lines' % name, '%s:%d' % (lm.spec.module.rel, rm.rule.line),
                'the rule can match across a line break: at top level the line break is a statement separator the grammar '
                'never sees, so two lines are glued into one expression')
    # what is a separator and where: the same judgement C15 makes, because dropping or keeping one changes which texts parse
    from .c15 import separator_obligations
    separator_obligations(chk, R7, F, lm, lm.spec.module.rel)
    # R8
    from .c17 import PARSER, cache_accesses, is_yacc_parse
    q = PARSER + '.parse'
    fi = F.func(q)
    selft = ('param', om.self_param(F, q))
    src = ('param', fi.node.args.args[1].arg)
    cache = ('attr', selft, 'parse_cache')
    problems = []
    n = 0
    for p in SymExec(F, fi).run():
        # what a hit hands out is what an earlier call stored: only the tree of a parser run that came back may go in
        runs = [e for e in p.events if e.kind == 'call' and is_yacc_parse(e, selft)]
        for k_, _key, e_ in cache_accesses(p, cache):
            if k_ in ('store_sub', 'call.__setitem__', 'call.setdefault', 'call.update'):
                if e_.in_ctx('handler') or e_.in_ctx('finally') or not p.normal:
                    problems.append('`%s` (line %d) also runs while the error of a rejected text propagates: the second submission of '
                                    'that text is a cache hit and is accepted' % (e_.text(), e_.line))
                elif not runs or p.events.index(e_) < p.events.index(runs[0]):
                    problems.append('`%s` (line %d) fills the cache before the parser has accepted the text' % (e_.text(), e_.line))
        if not p.normal:
            continue
        n += 1
        ret = p.outcome[1]
        from_cache = isinstance(ret, tuple) and ret[:1] == ('sub',) and om.carries(ret[1], cache)
        from_cache = from_cache or (isinstance(ret, tuple) and ret[:1] == ('call',) and isinstance(ret[2], tuple) and ret[2][:1] == ('attr',)
                                    and om.carries(ret[2][1], cache) and ret[2][2] in ('get', '__getitem__'))
        if from_cache:
            continue
        if not runs:
            problems.append('a path returns %s without running the parser' % show(ret))
            continue
        # the value returned must be what the actions left on the lexer: an attribute of the lexer object handed to yacc
        kw = dict(freeze(runs[-1].kwargs))
        lx = kw.get('lexer', freeze(runs[-1].args)[1] if len(runs[-1].args) > 1 else None)
        core = ret
        while isinstance(core, tuple) and core[:1] == ('call',) and isinstance(core[2], tuple) and core[2][:2] == ('ref', 'ext') \
                and core[2][2] in ('typing.cast',) and len(core[3]) == 2:
            core = core[3][1]
        if not (isinstance(core, tuple) and core[:1] == ('attr',) and lx is not None and core[1] == lx):
            problems.append('a path that ran the parser returns %s, not the tree the grammar actions left on the lexer' % show(ret))
    # ... and the LALR run is never derailed: yacc.py wraps every action call in `except SyntaxError`, and on catching one it
    # enters error recovery *without* calling p_error (and keeps it muted for the next three tokens); with no `error`
    # productions in the grammar the recovery throws the stack away and resumes on the rest of the text.  A SyntaxError raised
    # by an action - or by a node constructor it calls - therefore parses a *part* of the text instead of rejecting it.
    import ast as _ast
    raisers = []
    for m_ in F.modules.values():
        if '.ply' in m_.name:
            continue
        for n_ in _ast.walk(m_.tree):
            if isinstance(n_, _ast.Raise) and n_.exc is not None:
                tgt_ = n_.exc.func if isinstance(n_.exc, _ast.Call) else n_.exc
                r_ = F.resolve_expr(m_, tgt_)
                syn = r_[0] == 'builtin' and r_[1] in ('SyntaxError', 'IndentationError', 'TabError')
                if r_[0] == 'cls' and r_[1] in F.classes:
                    syn = any(b in ('SyntaxError', 'IndentationError', 'TabError') for b in F.ext_bases(r_[1]))
                if syn:
                    raisers.append('%s:%d' % (m_.rel, n_.lineno))
    chk.require(not raisers, R8, 'no SyntaxError inside the parser run', raisers[0] if raisers else sf.g.module.rel,
                'raise SyntaxError at %s: PLY catches SyntaxError around every grammar action and enters silent error recovery (no p_error, '
                'stack discarded), so the text is neither rejected nor parsed to its tree' % ', '.join(raisers) if raisers else
                'no code of the package raises SyntaxError (PLY would treat it as a request for error recovery)')
    chk.require(not problems and n, R8, q, fi.where, '; '.join(sorted(set(problems))[:3]) or
                '%d returning path(s): cached tree or the result of the yacc run' % n)
