"""Specialised behaviour of the lexer's function rules (shared by C15 and C20)."""
from __future__ import annotations

from typing import Any, Dict, List, Optional, Set, Tuple

from ..facts import AnalysisError, FuncInfo
from ..symexec import SymExec, freeze, show, Path, Event, is_const
from .. import ctx as C


def newline_rule(lm) -> str:
    c = [n for n, rm in lm.rules.items() if rm.newline and '\n' in (rm.texts if rm.texts is not None else (rm.samples or ()))]
    if len(c) != 1:
        raise AnalysisError('lexer: expected exactly one separator rule matching a bare line break, found %r' % c)
    return c[0]


def depth_attr(F, lm) -> str:
    """The lexer attribute the newline rule consults to know whether it is inside brackets."""
    import ast
    rm = lm.rules[newline_rule(lm)]
    if rm.rule.func is None:
        raise AnalysisError('lexer: the line-break rule is a plain string rule (no bracket sensitivity)')
    t = rm.rule.func.args.args[0].arg
    loads = set()
    stores = set()
    # what the rule's decisions depend on, read off its paths (helpers it calls are inlined there)
    lex = ('attr', ('param', t), 'lexer')

    def scan(x):
        if isinstance(x, tuple):
            if len(x) == 3 and x[0] == 'attr' and x[1] == lex and isinstance(x[2], str):
                loads.add(x[2])
            for y in x:
                scan(y)
    from ..symexec import freeze as _fz
    for p in rm.paths:
        for c, _, _ in p.assumptions:
            scan(c)
        for e in p.events:
            if e.kind in ('store_attr', 'aug_attr') and _fz(e.obj) == lex:
                stores.add(e.attr)
    cands = loads - stores - {'lineno'}
    if len(cands) != 1:
        raise AnalysisError('lexer: cannot identify the bracket-depth attribute read by the line-break rule (candidates %r)' % sorted(cands))
    return next(iter(cands))


def specialise(F, lm, rule: str, text: str, depth: Optional[int], depth_name: Optional[str]) -> List[Path]:
    rm = lm.rules[rule]
    fn = rm.rule.func
    fi = FuncInfo('%s.t_%s' % (lm.spec.module.name, rule), lm.spec.module, fn, captured=rm.rule.closure)
    t = ('param', fn.args.args[0].arg)
    ov = {('attr', t, 'value'): ('const', text)}
    import ast as _ast
    if not any(isinstance(n_, _ast.Attribute) and n_.attr == 'type' and isinstance(n_.ctx, _ast.Store) for n_ in _ast.walk(fn)):
        ov[('attr', t, 'type')] = ('const', rule)       # as PLY sets it before the rule runs
    if depth is not None and depth_name:
        ov[('attr', ('attr', t, 'lexer'), depth_name)] = ('const', depth)
    return SymExec(F, fi, overrides=ov).run()


def lineno_delta(paths: List[Path], tparam) -> Set[Any]:
    """Net change of t.lexer.lineno on each path ('?' when not a constant step)."""
    out = set()
    lex = ('attr', tparam, 'lexer')
    for p in paths:
        d: Any = 0
        for e in p.events:
            if e.kind == 'aug_attr' and e.attr == 'lineno' and freeze(e.obj) == lex:
                v = freeze(e.value)
                if d != '?' and is_const(v) and isinstance(v[1], int) and e.op in ('+', '-'):
                    d += v[1] if e.op == '+' else -v[1]
                else:
                    d = '?'
            elif e.kind == 'store_attr' and e.attr == 'lineno' and freeze(e.obj) == lex:
                v = freeze(e.value)
                cur = ('attr', lex, 'lineno')
                if d != '?' and isinstance(v, tuple) and v[:2] == ('binop', '+') and v[2] == cur and is_const(v[3]) and isinstance(v[3][1], int):
                    d += v[3][1]
                else:
                    d = '?'
        out.add(d)
    return out


def returns(paths: List[Path], tparam) -> Set[str]:
    out = set()
    for p in paths:
        if p.outcome[0] == 'return':
            out.add('token' if p.outcome[1] == tparam else ('nothing' if p.outcome[1] == ('const', None) else 'other'))
        else:
            out.add('raises')
    return out
