"""C02 -- sandbox confinement: programs only touch plain data and do no I/O."""
from __future__ import annotations

import ast
from typing import Any, Dict, List, Optional, Set, Tuple

from ..facts import AnalysisError, FuncInfo, norm
from ..report import Check
from ..symexec import SymExec, freeze, show, Path, Event, closure_paths, is_const
from .. import opmodel as om
from .. import functab
from .. import ctx as C
from .. import actions as A
from . import common
from . import numeric as N
from . import tables as TB

P_KINDS = {'plain', 'list', 'dict', 'tuple', 'slice', 'element', 'P', 'callback-result', 'lambda', 'same'}
LOGGER_METHODS = {'debug', 'info', 'isEnabledFor', 'getEffectiveLevel'}
DATA_METHODS = TB.STR_METHODS | TB.LIST_METHODS | TB.DICT_METHODS | {
    'group', 'groups', 'groupdict', 'start', 'end', 'span', 'quantize', 'to_integral_value', 'normalize', 'as_tuple',
    'is_nan', 'is_finite', 'is_infinite', 'copy_abs', 'copy_negate', 'sqrt', 'ln', 'log10', 'exp', 'adjusted',
    '__str__', '__repr__', '__format__',
    # bytes / bytearray data methods
    'decode', 'hex',
    # set algebra (new sets; the in-place forms are not listed)
    'union', 'intersection', 'difference', 'symmetric_difference', 'issubset', 'issuperset', 'isdisjoint',
    # methods of compiled regular expressions (pure computation; their timeout discipline is C05's business)
    'search', 'match', 'fullmatch', 'findall', 'finditer', 'sub', 'subn',
    'create_decimal', 'create_decimal_from_float', 'to_integral', 'to_integral_exact'}


class Kinds:
    def __init__(self, F, params: Set[str], selft=None, stt=None, in_eval=False):
        self.F = F
        self.params = params
        self.selft = selft
        self.stt = stt
        self.in_eval = in_eval
        self.unknown: List[str] = []
        self.param_defaults: Dict[str, Any] = {}      # parameter -> term of a default that is not a plain constant
        self.assumptions: List[Tuple[Any, bool]] = []  # of the path being classified

    def _join(self, *kinds: str) -> str:
        for k in kinds:
            if k not in P_KINDS:
                return k
        return kinds[0] if kinds else 'plain'

    def kind(self, t) -> str:
        F = self.F
        t = freeze(t)
        if not isinstance(t, tuple) or not t:
            return 'unknown'
        k = t[0]
        if k == 'const':
            v = t[1]
            if v is None or isinstance(v, (bool, int, float, str)):
                return 'plain'
            if v is Ellipsis:
                return 'other-object'
            return 'bytes' if isinstance(v, bytes) else 'other-object'
        if k in ('fstr', 'binop', 'unop', 'cmp', 'not', 'pcall'):
            if k == 'pcall' and t[1] == 'type':
                return 'type'
            if k == 'binop' and t[1] == '+' and any(isinstance(x, tuple) and x and x[0] in ('list', 'tuple') for x in t[2:4]):
                # concatenation with a list/tuple display: the elements of the display are elements of the result
                for x in t[2:4]:
                    if isinstance(x, tuple) and x and x[0] in ('list', 'tuple'):
                        kk = self.kind(x)
                        if kk not in P_KINDS:
                            return kk
                return 'list'
            return 'plain'
        if k == 'param':
            d = self.param_defaults.get(t[1])
            if d is not None:
                # the caller may have left the argument out: the parameter then holds its default, unless the path has
                # established that it does not
                excluded = any((not v) and isinstance(c, tuple) and c[:1] == ('cmp',) and c[1] in ('is', '==') and {c[2], c[3]} == {t, d}
                               for c, v in self.assumptions)
                if not excluded:
                    return self._join(self.kind(d), 'P')
            return 'P'
        if k in ('elem', 'unpack', 'unpack*', 'star'):
            inner = self.kind(t[1])
            return 'P' if inner in P_KINDS or inner in ('iterator', 'view') else inner
        if k == 'sub':
            if self.stt is not None and t[1] == ('attr', self.stt, 'names'):
                return 'P'                      # values held by the scoped names satisfy the invariant
            inner = self.kind(t[1])
            return 'P' if inner in P_KINDS else inner
        if k == 'phi':
            return self.kind(t[3]) if self.kind(t[3]) in P_KINDS else 'P'
        if k in ('list', 'tuple'):
            for x in t[1:]:
                kk = self.kind(x)
                if kk not in P_KINDS:
                    return kk
            return k
        if k == 'set':
            return 'set'
        if k == 'dict':
            for it in t[1:]:
                for x in (it[1:] if it and it[0] == 'dstar' else it):
                    kk = self.kind(x)
                    if kk not in P_KINDS:
                        return kk
            return 'dict'
        if k == 'slice':
            return 'slice'
        if k == 'comp':
            if t[1] == 'gen':
                return 'iterator'
            if t[1] == 'set':
                return 'set'
            elt = t[2]
            parts = elt[1:] if isinstance(elt, tuple) and elt and elt[0] == 'kv' else [elt]
            for x in parts:
                kk = self.kind(x)
                if kk not in P_KINDS:
                    return kk
            return 'dict' if t[1] == 'dict' else 'list'
        if k == 'closure':
            return 'lambda' if self.in_eval else 'python-closure'
        if k == 'new':
            if t[1] in N.decimal_classes(F):
                return 'plain'
            return 'other-object'
        if k == 'ref':
            if t[1] in ('extmod', 'pkgmod'):
                return 'module'
            if t[1] in ('cls',):
                return 'type'
            if t[1] == 'builtin':
                return 'type' if isinstance(getattr(__import__('builtins'), t[2], None), type) else 'python-function'
            if t[1] in ('fn', 'ext'):
                return 'python-function'
            return 'other-object'
        if k == 'attr':
            if self.selft is not None and t[1] == self.selft:
                return 'P'                      # a tree field returned as a value: scalar by C17.R5
            if isinstance(t[1], tuple) and t[1][:1] == ('exc',):
                # the arguments of a caught exception are whatever the raiser put there (decimal's signals carry a list of classes)
                return 'other-object' if t[2] in ('args', '__dict__', '__traceback__', '__cause__', '__context__', 'with_traceback') else 'plain'
            return 'bound-method/attribute'
        if k == 'exc':
            return 'other-object'
        if k == 'call':
            f, args = t[2], t[3]
            if isinstance(f, tuple) and f[:2] == ('ref', 'modvar') and len(f) == 3:
                mw_ = common.memo_wrapped(F, f[2])
                if mw_ is not None and mw_[0] in ('builtin', 'ext'):
                    f = ('ref', mw_[0], mw_[1])         # a memo around a library function returns what that function returns
            if isinstance(f, tuple) and f:
                if f[0] == 'ref' and f[1] == 'builtin':
                    name = f[2]
                    kk = TB.KIND_OF_BUILTIN.get(name)
                    if kk is None:
                        self.unknown.append('builtin %s' % name)
                        return 'unknown'
                    # calls that hand back one of their arguments when there is nothing else to return
                    if name == 'next' and len(args) == 2:
                        return self._join(self.kind(args[1]), kk)
                    if name in ('min', 'max') and any(kw == 'default' for kw, _ in t[4]):
                        return self._join(self.kind(dict(t[4])['default']), kk)
                    return kk
                if f[0] == 'ref' and f[1] == 'ext':
                    if f[2].startswith(('str.', 'list.', 'dict.')):
                        return TB.KIND_OF_METHOD.get(f[2].split('.', 1)[1], 'plain')
                    kk = TB.KIND_OF_EXT.get(f[2])
                    if kk is None:
                        if f[2].startswith('math.'):
                            return 'plain'
                        if f[2].startswith('itertools.'):
                            return 'iterator'       # every itertools function hands back a lazy iterator
                        self.unknown.append('library call %s' % f[2])
                        return 'unknown'
                    if kk == 'same':
                        return self.kind(args[0]) if args else 'unknown'
                    if f[2] == 'functools.reduce' and len(args) == 3:
                        return self._join(self.kind(args[2]), kk)       # the initial value is the result for an empty input
                    return kk
                if f[0] == 'ref' and f[1] in ('fn',):
                    self.unknown.append('package function %s (not inlined)' % f[2])
                    return 'unknown'
                if f[0] == 'param':
                    return 'callback-result'
                if f[0] == 'attr':
                    if f[2] == om.EVAL:
                        return 'P'
                    kk = TB.KIND_OF_METHOD.get(f[2])
                    if kk is None:
                        self.unknown.append('method .%s' % f[2])
                        return 'unknown'
                    if kk == 'same':
                        return self.kind(f[1])
                    if f[2] in ('get', 'pop', 'setdefault') and len(args) == 2:
                        return self._join(self.kind(args[1]), kk)       # the default is the result for a missing key
                    return kk
                if f[0] == 'sub':
                    return 'P'                  # the one dynamic call: a callable from the scoped names
                if f[0] in ('call', 'elem', 'unpack'):
                    return 'callback-result'
                if f[0] == 'closure':
                    return 'P'
            return 'unknown'
        if k == 'unknown':
            if isinstance(t[1], str) and t[1].startswith('maybe-assigned-in-try'):
                return 'P'
            if t[1] == 'after-extend' and len(t) == 3:
                inner = self.kind(t[2])         # the elements came out of that iterable
                return 'P' if inner in P_KINDS or inner in ('iterator', 'view') else inner
            self.unknown.append(show(t))
            return 'unknown'
        if k == 'withas':
            return 'other-object'
        return 'unknown'


def check(chk: Check) -> None:
    F = chk.facts
    R1 = chk.rule('C02.R1', 'no attribute access in the grammar: `.` exists only as method-call sugar f(receiver, ...); '
                            'no eval method uses reflective builtins', floor=5)
    R2 = chk.rule('C02.R2', 'call targets come from the scoped names only: the single dynamic call of the evaluator takes '
                            'its callee from state.names[self.<name>]', floor=1)
    R3 = chk.rule('C02.R3', 'return kinds: every function-table entry and every eval method returns plain data, a table '
                            'builtin or a lambda the program defined - never a view, iterator, match object, bound '
                            'method, module, type, set/bytes/range or class instance', floor=30)
    R4 = chk.rule('C02.R4', 'no I/O or dynamic code reachable from parse / eval / list_names, any eval method, any table '
                            'entry or any lexer/grammar rule: every external callee is classified pure; no open/eval/exec/'
                            'compile/__import__/print/input, no os/sys/subprocess/socket/importlib/pickle/ctypes, no '
                            'import statement inside a reachable function', floor=60)
    chk.decided += ['closed-world capability argument: grammar has no attribute access (R1), one dynamic call fed from the scoped names (R2), '
                    'every value a builtin or node evaluation returns is of a plain kind given plain inputs (R3), no reachable API does I/O, '
                    'imports or runs dynamic code (R4)']
    chk.trusted += ['PLY run time (yacc.LRParser.parseopt_notrack, lex.Lexer.token/input) called with debug/tracking off',
                    'the third-party regex engine has no code-execution syntax',
                    'classification tables of sqstatic/props/tables.py (listed in evidence under coverage.tables)']
    chk.extra['tables'] = {'reflective_builtins': sorted(TB.REFLECTIVE_BUILTINS), 'forbidden_builtins': sorted(TB.FORBIDDEN_BUILTINS),
                           'forbidden_prefixes': list(TB.FORBIDDEN_EXT_PREFIXES), 'pure_prefixes': list(TB.PURE_EXT_PREFIXES)}
    g = C.grammar(F)
    lm = C.lexmodel(F)
    T = C.templates(F)
    tab = functab.table(F)
    ccls, nf, af = common.call_role(chk)

    # --------------------------------------------------------------------- R1
    dots = [tok for tok, texts in lm.token_texts.items() if texts == {'.'}]
    for t in T.all():
        if not any(s in dots for s in t.prod.rhs):
            continue
        where = '%s:%d' % (g.module.rel, t.prod.line)
        i = [k for k, s in enumerate(t.prod.rhs, 1) if s in dots][0]
        ok = False
        det = 'builds %s' % t.show()
        if t.raises is None and isinstance(t.result, tuple) and t.result[0] == 'new' and t.result[1] == ccls:
            fd = dict(t.result[2])
            name, args = fd.get(nf), fd.get(af)
            if isinstance(name, tuple) and name[:2] == ('tok', str(i + 1)) and isinstance(args, tuple) and args[:1] == ('list',) \
                    and len(args) >= 2 and isinstance(args[1], tuple) and args[1][:2] == ('sym', str(i - 1)):
                ok = True
                det = 'method-call sugar: %s' % t.show()
        chk.require(ok, R1, 'template ' + t.key, where, det if ok else 'a production with `.` that is not f(receiver, ...) sugar: ' + det)
    for cls in om.op_classes(F):
        if not om.own_eval(F, cls):
            continue
        q = cls + '.eval'
        fi = F.func(q)
        bad = []
        for n in ast.walk(fi.node):
            if n in common.logger_call_nodes(F):
                continue            # type(self).__name__ in a log line
            if isinstance(n, ast.Call) and isinstance(n.func, ast.Name) and n.func.id in TB.REFLECTIVE_BUILTINS \
                    and F.resolve_name(fi.module, n.func.id)[0] == 'builtin' and n.func.id not in ('super', 'iter', 'next', 'id'):
                bad.append('`%s`' % norm(n))
            if isinstance(n, ast.Attribute) and n.attr in ('__dict__', '__class__', '__globals__', '__code__', '__subclasses__', '__mro__', '__bases__', '__builtins__'):
                bad.append('`%s`' % norm(n))
        chk.require(not bad, R1, q, fi.where, 'reflective access in an eval method: %s' % ', '.join(bad) if bad else 'no getattr/type/vars/__dict__ ...')

    # --------------------------------------------------------------------- R2
    n_dyn = 0
    for cls in om.op_classes(F):
        if not om.own_eval(F, cls) or cls == om.ROOT:
            continue
        q = cls + '.eval'
        fi = F.func(q)
        selft, stt = ('param', om.self_param(F, q)), ('param', om.state_param(F, q))
        seen = {}
        specs = om.op_specs(F, cls)
        plists = [om.eval_paths(F, cls, op) for op in specs] if specs else [om.eval_paths(F, cls)]
        for owner, c, p in common.eval_closures(chk):
            if owner == q:
                plists.append(closure_paths(F, fi, c))
        for paths in plists:
            for p in paths:
                for e in p.events:
                    if e.kind != 'call' or e.d.get('inlined') or e.d.get('ctor') or e.resolved:
                        continue
                    f = freeze(e.func)
                    if not isinstance(f, tuple) or f[0] in ('ref',):
                        continue
                    if f[0] == 'attr':
                        continue          # method call: classified by R4
                    key = '%s :: `%s`' % (q, e.text())
                    ok = f[0] == 'sub' and f[1] == ('attr', stt, 'names') and isinstance(f[2], tuple) and f[2][:2] == ('attr', selft)
                    if key not in seen or not ok:          # one bad path is enough: a later good path must not hide it
                        seen[key] = (ok, e.line, show(f))
        for key, (ok, line, fs) in sorted(seen.items()):
            n_dyn += 1
            chk.require(ok, R2, key, '%s:%d' % (fi.module.rel, line),
                        'callee = %s' % fs if ok else 'a dynamic call whose callee `%s` does not come from the scoped names' % fs)

    # --------------------------------------------------------------------- R3
    for key in sorted(tab):
        ent = tab[key]
        where = '%s:%d' % (F.modules[functab.FUNCS_MOD].rel, ent.line)
        if ent.kind in ('builtin', 'ext', 'cls', 'other'):
            name = ent.target
            if ent.kind == 'builtin':
                if name in TB.REFLECTIVE_BUILTINS:
                    chk.bad(R3, ent.label, where, 'exposes the reflective builtin %s to programs' % name)
                    continue
                kk = TB.KIND_OF_BUILTIN.get(name)
                if kk is None:
                    chk.unrec(R3, ent.label, where, 'builtin %s has no return-kind classification' % name)
                elif kk in P_KINDS:
                    chk.ok(R3, ent.label, where, 'raw builtin %s returns %s' % (name, kk))
                else:
                    chk.bad(R3, ent.label, where, 'raw builtin %s returns a %s, which is not plain data' % (name, kk))
            elif ent.kind == 'ext' and name.startswith(('str.', 'list.', 'dict.')):
                kk = TB.KIND_OF_METHOD.get(name.split('.', 1)[1], None)
                if kk is None:
                    chk.unrec(R3, ent.label, where, 'descriptor %s has no return-kind classification' % name)
                elif kk in P_KINDS:
                    chk.ok(R3, ent.label, where, 'descriptor %s returns %s' % (name, kk))
                else:
                    chk.bad(R3, ent.label, where, 'descriptor %s returns a %s, which is not plain data' % (name, kk))
            elif ent.kind == 'ext':
                kk = TB.KIND_OF_EXT.get(name)
                forbidden = name.startswith(TB.FORBIDDEN_EXT_PREFIXES)
                if forbidden or kk not in P_KINDS:
                    chk.bad(R3, ent.label, where, 'exposes %s to programs (%s)' % (name, 'I/O / reflection capable' if forbidden else 'returns %s' % kk))
                else:
                    chk.ok(R3, ent.label, where, 'library function %s returns %s' % (name, kk))
            else:
                chk.bad(R3, ent.label, where, 'table value `%s` is a %s, not a function returning plain data' % (name, ent.kind))
            continue
        fi = ent.funcinfo(F)
        params = {a.arg for a in fi.node.args.args + fi.node.args.kwonlyargs}
        ks = Kinds(F, params)
        a_ = fi.node.args
        pos = a_.posonlyargs + a_.args
        for prm, dnode in list(zip(pos[len(pos) - len(a_.defaults):], a_.defaults)) + [
                (x, d) for x, d in zip(a_.kwonlyargs, a_.kw_defaults) if d is not None]:
            from ..facts import literal_const, _NOCONST
            if literal_const(dnode) is _NOCONST:
                r = F.resolve_expr(fi.module, dnode)
                dt = ('const', r[1]) if r[0] == 'const' else (('ref', r[0], r[1]) if r[0] != 'unbound' else ('unknown', norm(dnode)))
                if ks.kind(dt) not in P_KINDS:
                    ks.param_defaults[prm.arg] = dt
        bad = {}
        n_ret = 0
        for p in SymExec(F, fi).run():
            if not p.normal:
                continue
            n_ret += 1
            ks.assumptions = [(c, v) for c, v, _ in p.assumptions]
            kk = ks.kind(p.outcome[1])
            if kk not in P_KINDS:
                bad[show(p.outcome[1])] = kk
        unk = {b: k for b, k in bad.items() if k == 'unknown'}
        realbad = {b: k for b, k in bad.items() if k != 'unknown'}
        if realbad:
            chk.bad(R3, ent.label, where, '; '.join('returns `%s`, a %s' % (b[:80], k) for b, k in sorted(realbad.items())))
        elif unk:
            chk.unrec(R3, ent.label, where, 'cannot classify the value `%s` (%s)' % (sorted(unk)[0][:80], ', '.join(sorted(set(ks.unknown))[:3])))
        else:
            chk.ok(R3, ent.label, where, '%s: plain on %d returning path(s)' % (ent.descr(), n_ret))
    for cls in om.op_classes(F):
        if not om.own_eval(F, cls) or cls == om.ROOT:
            continue
        q = cls + '.eval'
        fi = F.func(q)
        selft, stt = ('param', om.self_param(F, q)), ('param', om.state_param(F, q))
        ks = Kinds(F, set(), selft, stt, in_eval=True)
        bad = {}
        kinds = om.op_field_kinds(F, cls)
        strs = om.op_specs(F, cls)
        for op in (strs or [None]):
            for p in om.eval_paths(F, cls, op):
                vals = []
                if p.normal:
                    vals.append(p.outcome[1])
                for e in p.events:
                    if e.kind in ('store_sub', 'aug_sub') and om.carries(e.obj, stt):
                        vals.append(e.value)
                    if e.kind == 'call' and isinstance(freeze(e.func), tuple) and freeze(e.func)[:1] == ('attr',) \
                            and freeze(e.func)[2] in ('make_scope', 'push_scope') and om.carries(freeze(e.func)[1], stt):
                        vals.extend(e.args)         # what a pushed scope binds is as visible to the program as a stored name
                for v in vals:
                    kk = ks.kind(v)
                    if kk not in P_KINDS:
                        bad[show(v)] = kk
        for owner, c, p in common.eval_closures(chk):
            if owner != q:
                continue
            for cp in closure_paths(F, fi, c):
                if cp.normal:
                    kk = ks.kind(cp.outcome[1])
                    if kk not in P_KINDS:
                        bad[show(cp.outcome[1])] = kk
        unk = {b: k for b, k in bad.items() if k == 'unknown'}
        realbad = {b: k for b, k in bad.items() if k != 'unknown'}
        if realbad:
            chk.bad(R3, q, fi.where, '; '.join('yields `%s`, a %s' % (b[:80], k) for b, k in sorted(realbad.items())))
        elif unk:
            chk.unrec(R3, q, fi.where, 'cannot classify `%s` (%s)' % (sorted(unk)[0][:80], ', '.join(sorted(set(ks.unknown))[:3])))
        else:
            chk.ok(R3, q, fi.where, 'every returned / stored value is plain, a child value, a scoped-names callable result or a program lambda')
    # the scope stack holds the program's namespace: whatever its own methods put into a scope (a record for diagnostics, a
    # back-reference) the program can read by name - any identifier the lexer accepts, dunder names included
    from .c10 import SD as _SD
    if _SD in F.classes:
        for mn, mnode in sorted(F.cls(_SD).methods.items()):
            fq = _SD + '.' + mn
            if fq not in F.functions or not mnode.args.args:
                continue
            fi2 = F.func(fq)
            ks2 = Kinds(F, {a.arg for a in mnode.args.args}, None, None, in_eval=False)
            bad2 = {}
            try:
                paths2 = SymExec(F, fi2).run()
            except AnalysisError:
                continue
            for p in paths2:
                for e in p.events:
                    if e.kind in ('store_sub', 'aug_sub') and (param_root_name(e.obj) is not None):
                        kk = ks2.kind(e.value)
                        if kk not in P_KINDS and kk != 'unknown':
                            bad2['`%s`' % e.text()] = kk
            if bad2:
                chk.bad(R3, fq + ' fills a scope', fi2.where, '; '.join('%s stores a %s under a name programs can read' % (b, k) for b, k in sorted(bad2.items())))

    # --------------------------------------------------------------------- R5
    R5 = chk.rule('C02.R5', 'values a program can hold stay inert under every language operation: no table entry is a '
                            'subscriptable type object (the language subscripts any value), and program-supplied callbacks '
                            'are only ever called with plain arguments', floor=20)
    GENERIC_TYPES = {'dict', 'list', 'tuple', 'set', 'frozenset', 'type'}
    for key in sorted(tab):
        ent = tab[key]
        where = '%s:%d' % (F.modules[functab.FUNCS_MOD].rel, ent.line)
        if ent.kind == 'builtin':
            import builtins as _b
            obj = getattr(_b, ent.target, None)
            if isinstance(obj, type) and ent.target in GENERIC_TYPES:
                chk.bad(R5, ent.label + ' is the type object ' + ent.target, where,
                        'the table binds the class %s itself; the language can subscript any value it holds '
                        '(`%s["x"]` lowers to container[key]), and subscripting this class yields a types.GenericAlias - '
                        'not plain data' % (ent.target, key))
            else:
                chk.ok(R5, ent.label, where, 'raw %s %s is not subscriptable' % ('class' if isinstance(obj, type) else 'function', ent.target))
            continue
        fi = ent.funcinfo(F)
        if fi is None:
            chk.ok(R5, ent.label, where, '%s %s' % (ent.kind, ent.target))
            continue
        problems = []
        ks = Kinds(F, set())
        for p in SymExec(F, fi).run():
            for e in p.events:
                if e.kind != 'call':
                    continue
                f = freeze(e.func)
                # a program value used as a callback by a library function that passes it non-plain objects
                if isinstance(f, tuple) and f[:2] == ('ref', 'ext') and f[2] in ('regex.sub', 'regex.subn', 're.sub', 're.subn'):
                    kw = dict(freeze(e.kwargs))
                    repl = kw.get('repl', freeze(e.args)[1] if len(e.args) > 1 else None)
                    if repl is not None and not _is_text(repl):
                        problems.append('`%s`: the replacement `%s` comes from the program and may be a lambda; %s calls it with a '
                                        'regex Match object, which the lambda can store or return' % (e.text(), show(repl), f[2]))
                # flag words of the regex engine are bit sets: combined with + (or sum) a repeated letter carries into the next bit,
                # and the bits next to the ordinary flags include DEBUG (prints the parsed pattern to stdout)
                if isinstance(f, tuple) and f[:2] == ('ref', 'ext') and f[2].startswith(('regex.', 're.')):
                    fl = dict(freeze(e.kwargs)).get('flags')

                    def arithmetic(t):
                        if isinstance(t, tuple) and t:
                            if t[:2] == ('binop', '+') or (t[:1] == ('call',) and t[2] in (('ref', 'builtin', 'sum'), ('ref', 'ext', 'math.fsum'), ('ref', 'ext', 'operator.add'))):
                                return True
                            return any(arithmetic(x) for x in t)
                        return False
                    if fl is not None and arithmetic(fl):
                        problems.append('`%s`: the flags argument is added up (`%s`), not or-ed: repeating a flag letter yields other flags, '
                                        'among them the engine\'s DEBUG flag, which prints to stdout' % (e.text()[:60], show(fl)[:80]))
                if isinstance(f, tuple) and f and f[0] == 'param':
                    for a in freeze(e.args):
                        kk = ks.kind(a)
                        if kk not in P_KINDS:
                            problems.append('`%s` calls the program-supplied function with a %s' % (e.text(), kk))
        chk.require(not problems, R5, ent.label, where, '; '.join(sorted(set(problems))) or 'callbacks receive plain values only')

    # --------------------------------------------------------------------- R4
    _r4(chk, R4)


def _is_text(t) -> bool:
    t = freeze(t)
    if is_const(t):
        return isinstance(t[1], str)
    if isinstance(t, tuple) and t[:1] == ('call',) and t[2] == ('ref', 'builtin', 'str'):
        return True
    if isinstance(t, tuple) and t[:1] == ('fstr',):
        return True
    return False


def entry_units(chk: Check) -> List[Tuple[str, FuncInfo, Any]]:
    F = chk.facts
    g = C.grammar(F)
    lm = C.lexmodel(F)
    tab = functab.table(F)
    out = []
    for mn in ('list_names', 'parse', 'eval'):      # construction (table generation) is not evaluation
        q = 'smartquery.sq_parser.SqParser.' + mn
        if q in F.functions:
            out.append((q, F.func(q), None))
    for cls in om.op_classes(F):
        if om.own_eval(F, cls):
            out.append((cls + '.eval', F.func(cls + '.eval'), None))
    for key, ent in tab.items():
        fi = ent.funcinfo(F)
        if fi is not None:
            out.append((ent.label, fi, None))
    for r in lm.spec.rules:
        if r.func is not None:
            out.append(('%s.t_%s' % (lm.spec.module.name, r.name), FuncInfo('%s.t_%s' % (lm.spec.module.name, r.name), lm.spec.module, r.func, captured=r.closure), None))
    if lm.spec.error_func is not None:
        out.append((lm.spec.module.name + '.t_error', FuncInfo(lm.spec.module.name + '.t_error', lm.spec.module, lm.spec.error_func), None))
    for name, node in g.funcs.items():
        out.append((g.module.name + '.' + name, FuncInfo(g.module.name + '.' + name, g.module, node), None))
    if g.error_func and g.error_func in g.module.defs:
        out.append((g.module.name + '.p_error', FuncInfo(g.module.name + '.p_error', g.module, g.module.defs[g.error_func]), None))
    for mn in F.cls('smartquery.scoped_dict.ScopedDict').methods:
        q = 'smartquery.scoped_dict.ScopedDict.' + mn
        out.append((q, F.func(q), None))
    return out


# encodings CPython converts without consulting the codec registry; any other name goes through encodings.search_function,
# which imports encodings.<name> the first time it is asked for (an import, a file read and an exec in the middle of eval)
DIRECT_CODECS = {'utf-8', 'utf8', 'utf_8', 'ascii', 'us-ascii', 'latin-1', 'latin1', 'latin_1', 'iso-8859-1', 'iso8859-1',
                 'utf-16', 'utf16', 'utf-32', 'utf32'}


def _codec_lookup(e: Event, f) -> Optional[str]:
    """The call converts between str and bytes with a codec that is found through the codec registry: description, else None."""
    enc = None
    args = [freeze(a) for a in (e.args or ())]
    kw = {k: freeze(v) for k, v in (e.kwargs or ())}
    if isinstance(f, tuple) and f[:1] == ('attr',) and f[2] in ('encode', 'decode'):
        enc = args[0] if args else kw.get('encoding')
        if enc is None:
            return None
    elif f in (('ref', 'builtin', 'str'), ('ref', 'builtin', 'bytes'), ('ref', 'builtin', 'bytearray')):
        enc = args[1] if len(args) > 1 else kw.get('encoding')
        if enc is None:
            return None
    elif isinstance(f, tuple) and f[:2] == ('ref', 'ext') and f[2] in ('codecs.encode', 'codecs.decode', 'codecs.lookup', 'codecs.getencoder',
                                                                        'codecs.getdecoder', 'codecs.getreader', 'codecs.getwriter',
                                                                        'codecs.iterencode', 'codecs.iterdecode', 'codecs.getincrementalencoder',
                                                                        'codecs.getincrementaldecoder'):
        enc = (args[1] if len(args) > 1 else kw.get('encoding')) if f[2] in ('codecs.encode', 'codecs.decode', 'codecs.iterencode', 'codecs.iterdecode') \
            else (args[0] if args else kw.get('encoding'))
        if enc is None:
            return None
    else:
        return None
    if is_const(enc) and isinstance(enc[1], str):
        if enc[1].lower() in DIRECT_CODECS:
            return None
        return 'codec %r is found through the codec registry: its first use imports encodings.%s (import, file read and exec ' \
               'while a program is evaluated)' % (enc[1], enc[1].lower().replace('-', '_'))
    return 'the codec name %s is not a constant: the codec registry imports encodings.<name> for whatever name arrives' % show(enc)


def _table_callees(F, f):
    """The callee is taken out of a module-level table of the package with a key that is not known (OPS.get(self.op),
    OPS[op], OPS.get(op).apply): every value the table holds (or that field of it), else None."""
    from ..symexec import exec_module_body, DictVal, ListVal, Closure
    field = None
    t = f
    if isinstance(t, tuple) and t[:1] == ('attr',) and isinstance(t[1], tuple) and t[1][:1] in (('call',), ('sub',)):
        field, t = t[2], t[1]
    q = None
    if isinstance(t, tuple) and t[:1] == ('call',) and len(t) > 2 and isinstance(t[2], tuple) and t[2][:1] == ('attr',) and t[2][2] == 'get' \
            and isinstance(t[2][1], tuple) and t[2][1][:2] == ('ref', 'modvar'):
        q = t[2][1][2]
    elif isinstance(t, tuple) and t[:1] == ('sub',) and isinstance(t[1], tuple) and t[1][:2] == ('ref', 'modvar'):
        q = t[1][2]
    if q is None:
        return None
    mod, _, var = q.rpartition('.')
    m = F.modules.get(mod)
    if m is None or var not in m.assigns or len(m.assigns[var]) != 1:
        return None
    v = exec_module_body(F, m).get(var)
    vals = None
    if isinstance(v, DictVal) and all(i[0] != 'dstar' for i in v.items):
        vals = [i[1] for i in v.items]
    elif isinstance(v, ListVal) and v.concrete():
        vals = list(v.elts)
    elif isinstance(v, tuple) and v[:1] == ('tuple',):
        vals = list(v[1:])
    if not vals:
        return None
    out = []
    for x in vals:
        if field is not None:
            if not (isinstance(x, tuple) and x[:1] == ('new',) and len(x) > 2 and field in dict(x[2])):
                return None
            x = dict(x[2])[field]
        out.append(x)
    return out


def param_root_name(t):
    """Name of the parameter an object term is rooted in (through attributes / subscripts / elements), else None."""
    t = freeze(t)
    while isinstance(t, tuple) and t and t[0] in ('attr', 'sub', 'elem', 'unpack', 'phi'):
        t = t[3] if t[0] == 'phi' else t[1]
    return t[1] if isinstance(t, tuple) and t[:1] == ('param',) else None


def classify_callee(F, e: Event) -> Tuple[str, str]:
    """('pure'|'forbidden'|'trusted'|'dynamic'|'package'|'unknown', description)"""
    f = freeze(e.func)
    cl = _codec_lookup(e, f)
    if cl is not None:
        return ('forbidden', cl)
    tc = _table_callees(F, f)
    if tc is not None:
        from ..symexec import Closure
        verdicts = []
        for x in tc:
            fx = freeze(x) if not isinstance(x, Closure) else None
            if isinstance(x, Closure):
                # a lambda / nested function kept in the table: its body must not name a forbidden builtin or import
                bad = [n.id for n in ast.walk(x.node) if isinstance(n, ast.Name) and n.id in TB.FORBIDDEN_BUILTINS and n.id not in ('type', 'super')]
                bad += ['import' for n in ast.walk(x.node) if isinstance(n, (ast.Import, ast.ImportFrom))]
                verdicts.append(('forbidden', 'table entry %s uses %s' % (x.qual, ', '.join(sorted(set(bad))))) if bad else ('package', x.qual))
            elif isinstance(fx, tuple) and fx[:1] == ('ref',) and len(fx) == 3:
                if fx[1] == 'builtin':
                    verdicts.append(('forbidden', 'builtin %s' % fx[2]) if fx[2] in TB.FORBIDDEN_BUILTINS else ('pure', fx[2]))
                elif fx[1] == 'ext':
                    verdicts.append(('forbidden', fx[2]) if fx[2].startswith(TB.FORBIDDEN_EXT_PREFIXES) else (
                        ('pure', fx[2]) if fx[2].startswith(TB.PURE_EXT_PREFIXES) else ('unknown', 'library call %s' % fx[2])))
                elif fx[1] in ('fn', 'fnraw', 'func', 'cls'):
                    verdicts.append(('package', fx[2]))
                else:
                    verdicts.append(('unknown', show(fx)))
            elif fx == ('const', None):
                continue
            else:
                verdicts.append(('unknown', show(fx) if fx is not None else 'closure'))
        for kind in ('forbidden', 'unknown'):
            hit = [d for k, d in verdicts if k == kind]
            if hit:
                return (kind, 'entry of a module-level table: %s' % hit[0])
        return ('package' if any(k == 'package' for k, _ in verdicts) else 'pure',
                'one of the %d entries of a module-level table (all pure or package functions)' % len(verdicts))
    if e.d.get('ctor'):
        return ('package', 'constructor %s' % e.resolved)
    if e.resolved:
        return ('package', e.resolved)
    if not isinstance(f, tuple) or not f:
        return ('unknown', show(f))
    if f[:2] == ('ref', 'modvar') and len(f) == 3:
        # NAME = functools.lru_cache(...)(g) / functools.cache(g): calling NAME calls g (or returns what g returned before)
        r_ = common.memo_wrapped(F, f[2])
        if r_ is not None:
            if r_[0] == 'builtin':
                return ('forbidden', 'builtin %s' % r_[1]) if r_[1] in TB.FORBIDDEN_BUILTINS else ('pure', 'memo around builtin %s' % r_[1])
            if r_[0] in ('fn', 'cls'):
                return ('package', r_[1])
            if r_[0] == 'ext':
                return ('forbidden', r_[1]) if r_[1].startswith(TB.FORBIDDEN_EXT_PREFIXES) else (
                    ('pure', r_[1]) if r_[1].startswith(TB.PURE_EXT_PREFIXES) else ('unknown', 'library call %s' % r_[1]))
    if f[:2] == ('ref', 'builtin') and f[2] in ('setattr', 'getattr', 'hasattr') and len(e.args or ()) >= 2 and e.fn in F.functions \
            and F.functions[e.fn].cls and F.functions[e.fn].node.args.args:
        # an object of the package working on what it owns: setattr(self.owner, self.attr, seconds) in a timer's __exit__.  Both the
        # target and the attribute name come from the object's own fields (filled where it is built), nothing from a program
        sp_ = ('param', F.functions[e.fn].node.args.args[0].arg)
        a_ = freeze(e.args)
        def own_(t):
            while isinstance(t, tuple) and t and t[0] in ('attr',):
                t = t[1]
            return t == sp_
        if own_(a_[0]) and (own_(a_[1]) or (isinstance(a_[1], tuple) and a_[1][:1] == ('const',)) or (
                isinstance(a_[1], tuple) and a_[1][:1] == ('fstr',) and all(own_(x) or (isinstance(x, tuple) and x[:1] == ('const',)) for x in a_[1][1:]))):
            return ('package', 'attribute of an object the method owns (%s on self.<field>)' % f[2])
    if f[0] == 'ref':
        if f[1] == 'builtin':
            if f[2] == 'type' and len(e.args or ()) == 1 and not (e.kwargs or ()):
                return ('pure', 'type(x): the class of a value (no class is created; what happens to the result is a matter of R3)')
            if f[2] in TB.FORBIDDEN_BUILTINS:
                return ('forbidden', 'builtin %s' % f[2])
            return ('pure', 'builtin %s' % f[2])
        if f[1] == 'ext':
            d = f[2]
            if d.startswith('smartquery.ply.'):
                return ('trusted', d)
            if d.startswith(TB.FORBIDDEN_EXT_PREFIXES):
                return ('forbidden', d)
            if d.startswith(TB.PURE_EXT_PREFIXES):
                return ('pure', d)
            return ('unknown', 'library call %s' % d)
        if f[1] in ('fn', 'cls'):
            return ('package', f[2])
        if f[1] in ('extmod', 'pkgmod'):
            return ('forbidden', 'module object %s called' % f[2])
        return ('unknown', show(f))
    if f[0] == 'attr':
        recv, m = f[1], f[2]
        root = recv
        while isinstance(root, tuple) and root and root[0] in ('attr', 'sub', 'elem', 'unpack', 'call', 'withas'):
            if root[0] == 'call':
                break
            root = root[1]
        if m == om.EVAL:
            return ('package', 'child evaluation')
        if isinstance(recv, tuple) and recv[:1] == ('super',):
            # not resolved to a package method: a method of a builtin/stdlib base (object, Exception, dict, Decimal)
            bases = F.ext_bases(recv[1]) if recv[1] in F.classes else []
            if all(not b.startswith(TB.FORBIDDEN_EXT_PREFIXES) for b in bases):
                return ('pure', 'method .%s of the non-package base class (%s)' % (m, ', '.join(bases) or 'object'))
        if isinstance(recv, tuple) and recv[:1] == ('attr',) and recv[2] in ('lex', 'yacc', 'lexer', 'parser') :
            return ('trusted', 'PLY object method .%s' % m)
        if isinstance(recv, tuple) and recv[:1] == ('ref',) and recv[1] == 'modvar':
            if m in LOGGER_METHODS and common.is_module_logger(F, recv[2]):
                return ('trusted', 'diagnostic channel of the host (logging.Logger.%s)' % m)
            if m in common.LOUD_LOGGER_METHODS and common.is_module_logger(F, recv[2]):
                return ('forbidden', 'logging.Logger.%s: with no handler configured (the stock state) records of level WARNING and above are written '
                                     'to stderr by logging.lastResort, and exc_info / stack_info make the formatter read source files' % m)
            return ('pure' if m in DATA_METHODS else 'unknown', 'method .%s on module-level %s' % (m, recv[2]))
        if m in ('add', 'discard', 'remove', 'clear', 'update', 'append', 'extend', 'insert', 'pop', 'setdefault', 'popitem', 'sort', 'reverse',
                 'difference_update', 'intersection_update', 'symmetric_difference_update') and isinstance(recv, tuple) and (
                recv[:1] in (('set',), ('list',), ('dict',)) or (recv[:1] == ('call',) and recv[2] in (
                    ('ref', 'builtin', 'set'), ('ref', 'builtin', 'list'), ('ref', 'builtin', 'dict'), ('ref', 'ext', 'collections.deque'),
                    ('ref', 'ext', 'collections.OrderedDict')))):
            return ('pure', 'update of a container built by this call (.%s)' % m)
        if m in DATA_METHODS:
            return ('pure', 'data method .%s' % m)
        if m in ('make_scope', 'push_scope', 'pop_scope'):
            return ('package', 'scope method .%s' % m)
        if isinstance(recv, tuple) and recv[:1] == ('param',) and e.fn in F.functions and F.functions[e.fn].cls:
            fcls = F.functions[e.fn].cls
            fnode = F.functions[e.fn].node
            if fnode.args.args and fnode.args.args[0].arg == recv[1] and F.find_method(fcls, m) is None:
                # self.<attr>(...) where <attr> is not a method: a callable that was stored on the object
                return ('dynamic', 'callable stored on the object (self.%s)' % m)
        owners = [cq for cq, ci in F.classes.items() if '.ply' not in ci.module.name and m in ci.methods]
        if owners and (m.startswith('_') or len(m) > 3):
            # receiver of unknown static type, but the name is a method of package classes only as far as this code base
            # goes: every such method is analysed as a unit of its own (see the worklist in _r4)
            return ('package', 'method .%s of %s (receiver type not resolved)' % (m, ', '.join(sorted(owners))))
        return ('unknown', 'method .%s on %s' % (m, show(recv)))
    if f[0] in ('param', 'sub', 'elem', 'unpack', 'call', 'closure'):
        return ('dynamic', 'program-supplied callable %s' % show(f))
    return ('unknown', show(f))


# methods Python calls without a call being written: construction, context management, container / callable protocol and the
# text of an exception.  (__repr__ / __eq__ / __hash__ of helper classes are debugging aids no evaluation step invokes.)
IMPLICIT_PROTOCOL = {'__init__', '__new__', '__post_init__', '__enter__', '__exit__', '__getitem__', '__setitem__', '__delitem__',
                     '__contains__', '__iter__', '__next__', '__len__', '__bool__', '__call__', '__str__', '__missing__', '__del__',
                     '__init_subclass__', '__set_name__', '__getattr__', '__getattribute__', '__setattr__'}


def _r4(chk: Check, R4: str) -> None:
    F = chk.facts
    # building the PLY lexer / LALR parser reads rules.py, imports or writes the table modules under gen/ and execs import
    # statements: it belongs to construction.  Outside a constructor it would run during some parse / eval / list_names call.
    n_build = 0
    for m in F.modules.values():
        if '.ply' in m.name:
            continue
        for q_, fi_ in F.functions.items():
            if fi_.module is not m:
                continue
            for n_ in ast.walk(fi_.node):
                if isinstance(n_, ast.Call) and F.resolve_expr(m, n_.func) in (('ext', 'smartquery.ply.lex.lex'), ('ext', 'smartquery.ply.yacc.yacc')):
                    # attribute the call to the innermost function that contains it
                    inner = [q2 for q2, f2 in F.functions.items() if f2.module is m and q2.startswith(q_ + '.') and any(x is n_ for x in ast.walk(f2.node))]
                    if inner:
                        continue
                    n_build += 1
                    def construction_only(q, seen=()):
                        if q.rsplit('.', 1)[-1] in ('__init__', '__new__', '__post_init__'):
                            return True
                        if q in seen:
                            return False
                        nm = q.rsplit('.', 1)[-1]
                        fnode = F.functions[q].node
                        if any(isinstance(d, ast.Name) and d.id in ('property', 'cached_property') or isinstance(d, ast.Attribute) and d.attr in (
                                'cached_property',) for d in getattr(fnode, 'decorator_list', [])):
                            return False        # evaluated on attribute access, wherever that happens
                        users = [q2 for q2, f2 in F.functions.items() if q2 != q and '.ply' not in f2.module.name and any(
                            (isinstance(x, ast.Attribute) and x.attr == nm) or (isinstance(x, ast.Name) and x.id == nm) for x in ast.walk(f2.node))]
                        return bool(users) and all(construction_only(u, seen + (q,)) for u in users)
                    ctor = construction_only(q_)
                    chk.require(ctor, R4, '%s :: `%s`' % (q_, norm(n_.func)), '%s:%d' % (m.rel, n_.lineno),
                                'PLY tables are built in a constructor' if ctor else
                                'the PLY lexer / parser is built in %s, not in a constructor: table generation (file reads and writes '
                                'under gen/, exec of import statements) then happens during a parse / eval / list_names call' % q_)
    todo = list(entry_units(chk))
    done = set()
    while todo:
        label, fi, _ = todo.pop(0)
        if fi.qual in done:
            continue
        done.add(fi.qual)
        try:
            paths = SymExec(F, fi).run()
        except AnalysisError as e:
            chk.unrec(R4, label, fi.where, str(e))
            continue
        # package code that is called but was not run through here: callees past the inlining bound, generators, and the
        # methods of objects that are only constructed (exception classes are never inlined)
        for p_ in paths:
            for e_ in p_.events:
                if e_.kind != 'call':
                    continue
                # package functions handed over as values (callbacks of re.sub / sorted / map ...): whoever receives them may call them
                for a_ in list(e_.args or ()) + [v_ for _, v_ in (e_.kwargs or ())]:
                    fa_ = freeze(a_)
                    stack_ = [fa_]
                    while stack_:
                        x_ = stack_.pop()
                        if isinstance(x_, tuple):
                            if x_[:1] == ('ref',) and len(x_) == 3 and x_[1] in ('fn', 'fnraw', 'func') and x_[2] in F.functions \
                                    and '.ply' not in F.functions[x_[2]].module.name and x_[2] not in done:
                                todo.append((x_[2], F.func(x_[2]), None))
                            elif x_[:1] in (('tuple',), ('list',), ('partial',)):
                                stack_.extend(y_ for y_ in x_[1:] if isinstance(y_, tuple))
                if e_.d.get('ctor') and e_.resolved in F.classes:
                    for cq in F.mro(e_.resolved):
                        if cq in F.classes:
                            for mn in F.cls(cq).methods:
                                if mn in IMPLICIT_PROTOCOL and (cq + '.' + mn) in F.functions and (cq + '.' + mn) not in done:
                                    todo.append((cq + '.' + mn, F.func(cq + '.' + mn), None))
                elif e_.resolved and e_.resolved in F.functions and not e_.d.get('inlined') and e_.resolved not in done:
                    todo.append((e_.resolved, F.func(e_.resolved), None))
                elif not e_.resolved and isinstance(freeze(e_.func), tuple) and freeze(e_.func)[:1] == ('attr',):
                    mname = freeze(e_.func)[2]
                    recv_ = freeze(e_.func)[1]
                    if mname.startswith('__') or (isinstance(recv_, tuple) and recv_[:1] == ('super',)):
                        continue        # constructors / protocol methods are reached through the objects that are built
                    for cq, ci in F.classes.items():
                        if '.ply' not in ci.module.name and mname in ci.methods and (cq + '.' + mname) in F.functions \
                                and (cq + '.' + mname) not in done and mname != om.EVAL:
                            todo.append((cq + '.' + mname, F.func(cq + '.' + mname), None))
        allp = list(paths)
        for c in om.all_closures(paths):
            if True:
                allp += closure_paths(F, fi, c)
        forbidden, unknown = {}, {}
        n_calls = 0
        for p in allp:
            for e in p.events:
                if e.kind == 'import':
                    forbidden['import %s' % ', '.join(e.names)] = (e.line, 'import statement executed inside a reachable function')
                if e.kind != 'call':
                    continue
                n_calls += 1
                verdict, d = classify_callee(F, e)
                if verdict == 'forbidden':
                    forbidden['`%s`' % e.text()] = (e.line, '%s: file/process/network/import/dynamic-code/reflection capability' % d)
                elif verdict == 'unknown':
                    unknown['`%s`' % e.text()] = (e.line, d)
        # imports hidden in nested scopes that the path engine does not enter (e.g. inside an unexecuted branch)
        for n in ast.walk(fi.node):
            if isinstance(n, (ast.Import, ast.ImportFrom)):
                forbidden.setdefault('import at line %d' % n.lineno, (n.lineno, 'import statement inside a reachable function body'))
            if isinstance(n, ast.Call) and isinstance(n.func, ast.Name) and n.func.id == 'setattr':
                rec_ = F.__dict__.get('_setattr_nodes', {}).get(id(n))
                if rec_ and rec_[0] is n and rec_[1] is True:
                    continue            # constant attribute names on every path: plain attribute stores
            if isinstance(n, ast.Call) and isinstance(n.func, ast.Name) and n.func.id == 'type' and len(n.args) == 1 and not n.keywords:
                continue            # one-argument type(x): inspection only
            if isinstance(n, ast.Call) and isinstance(n.func, ast.Name) and n.func.id in ('setattr', 'getattr', 'hasattr') and len(n.args) >= 2 \
                    and fi.cls and fi.node.args.args:
                sp_ = fi.node.args.args[0].arg

                def own_(x):
                    while isinstance(x, ast.Attribute):
                        x = x.value
                    return isinstance(x, ast.Name) and x.id == sp_
                a1_ = n.args[1]
                name_ok_ = own_(a1_) and isinstance(a1_, ast.Attribute) or isinstance(a1_, ast.Constant) or (
                    isinstance(a1_, ast.JoinedStr) and all(isinstance(v_, ast.Constant) or (isinstance(v_, ast.FormattedValue) and own_(v_.value)
                                                                                            and isinstance(v_.value, ast.Attribute)) for v_ in a1_.values))
                if isinstance(n.args[0], ast.Attribute) and own_(n.args[0]) and name_ok_:
                    continue            # an object of the package working on what it owns (a timer storing into its owner)
            if isinstance(n, ast.Call) and isinstance(n.func, ast.Name) and n.func.id in TB.FORBIDDEN_BUILTINS \
                    and F.resolve_name(fi.module, n.func.id)[0] == 'builtin' and n.func.id != 'super':
                forbidden.setdefault('`%s`' % norm(n), (n.lineno, 'builtin %s' % n.func.id))
        if forbidden:
            for cons, (line, det) in sorted(forbidden.items()):
                chk.bad(R4, '%s :: %s' % (label, cons), '%s:%d' % (fi.module.rel, line), det)
        elif unknown:
            cons, (line, det) = sorted(unknown.items())[0]
            chk.unrec(R4, '%s :: %s' % (label, cons), '%s:%d' % (fi.module.rel, line), 'callee not classified: %s' % det)
        else:
            chk.ok(R4, label, fi.where, '%d call(s) on %d path(s): all pure / package / trusted PLY / program callables' % (n_calls, len(allp)))
