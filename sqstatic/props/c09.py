"""C09 -- lazy and/or/if-else; everything else evaluated once, left to right."""
from __future__ import annotations

from typing import Any, Dict, List, Optional, Tuple

from ..facts import AnalysisError
from ..report import Check
from ..symexec import freeze, show, Path, Event, SymExec
from .. import opmodel as om
from .. import ctx as C
from .. import actions as A
from . import common


def child_events(F, p: Path, selft, stt) -> List[Tuple[str, Optional[int], Event, Any]]:
    """(field, pair index, event, receiver term) for every child evaluation on a path."""
    out = []
    for e in p.events:
        if e.kind == 'loop_skip':
            # explicit for-loop over a child list taken zero times: an (empty) element-wise traversal
            it = freeze(e.iter)
            if isinstance(it, tuple) and it[:2] == ('attr', selft):
                out.append((it[2], None, e, ('elem', it, 0)))
            continue
        r = om.is_child_eval(e, selft, stt)
        if r is None:
            continue
        fld, recv = r
        idx = None
        t = recv
        if isinstance(t, tuple) and t and t[0] == 'unpack':
            idx = t[2]
        out.append((fld, idx, e, recv))
    return out


def _truth_test(c, v):
    """Reduce an assumption (condition, value) to (tested term, truth): `bool(x) is True`, `(x is True) is False`, `not x`,
    `bool(x) == False` ... are all tests of the truth value of x."""
    c = freeze(c)
    for _ in range(8):
        if isinstance(c, tuple) and c[:1] == ('not',):
            c, v = c[1], not v
        elif isinstance(c, tuple) and c[:1] == ('cmp',) and c[1] in ('is', '==', 'is not', '!=') and \
                any(isinstance(x, tuple) and x[:1] == ('const',) and isinstance(x[1], bool) for x in c[2:4]):
            k, other = (c[3], c[2]) if (isinstance(c[3], tuple) and c[3][:1] == ('const',) and isinstance(c[3][1], bool)) else (c[2], c[3])
            inner_boolean = isinstance(other, tuple) and (other[:1] in (('cmp',), ('not',)) or (
                other[:1] == ('pcall',) and other[1] == 'bool') or (other[:1] == ('call',) and other[2] == ('ref', 'builtin', 'bool')))
            if not inner_boolean:
                break               # `x is True` on an arbitrary value is not a truth test
            same = (k[1] is True) == (c[1] in ('is', '=='))
            c, v = other, (v if same else not v)
        elif isinstance(c, tuple) and c[:1] == ('pcall',) and c[1] == 'bool' and len(c[2]) == 1:
            c = c[2][0]
        elif isinstance(c, tuple) and c[:1] == ('call',) and c[2] == ('ref', 'builtin', 'bool') and len(c[3]) == 1 and not c[4]:
            c = c[3][0]
        else:
            break
    return c, v


def roles(F) -> Dict[str, Any]:
    """Lazy constructs, identified through the grammar (not by class name)."""
    g = C.grammar(F)
    T = C.templates(F)
    lm = C.lexmodel(F)
    out: Dict[str, Any] = {'lazy': {}, 'cond': None, 'lambda': set()}
    kw = {v: k for k, v in lm.reserved.items()}
    for t in T.all():
        if t.raises is not None or not (isinstance(t.result, tuple) and t.result and t.result[0] == 'new'):
            continue
        cls, flds = t.result[1], dict(t.result[2])
        rhs = t.prod.rhs
        toks = [s for s in rhs if s not in g.nonterminals]
        texts = [kw.get(s) for s in toks]
        if len(rhs) == 3 and toks and texts[0] in ('and', 'or') and len(toks) == 1:
            opf = [n for n, v in flds.items() if v == ('const', texts[0])]
            if opf:
                first = [n for n, v in flds.items() if isinstance(v, tuple) and v[:2] == ('sym', '1')]
                second = [n for n, v in flds.items() if isinstance(v, tuple) and v[:2] == ('sym', '3')]
                if first and second:
                    out['lazy'][texts[0]] = (cls, opf[0], first[0], second[0])
        if 'if' in texts and 'else' in texts and len(rhs) == 5:
            i_if = rhs.index([s for s in toks if kw.get(s) == 'if'][0]) + 1
            i_else = rhs.index([s for s in toks if kw.get(s) == 'else'][0]) + 1
            def fld_at(pos):
                return [n for n, v in flds.items() if isinstance(v, tuple) and v[:2] == ('sym', str(pos))]
            c, a, b = fld_at(i_if + 1), fld_at(i_if - 1), fld_at(i_else + 1)
            if c and a and b:
                out['cond'] = (cls, c[0], a[0], b[0])
            else:
                out['cond'] = (cls, None, None, None)
        if any(lm.token_texts.get(s) == {'=>'} for s in toks):
            out['lambda'].add(cls)
    return out


def check(chk: Check) -> None:
    F = chk.facts
    R1 = chk.rule('C09.R1', 'child-evaluation sequences on every normally returning path of every node kind: and/or '
                            'evaluate op2 exactly when op1 is truthy/falsy and yield the deciding operand itself; '
                            'if-else evaluates cond then exactly one branch; every other child exactly once, in a fixed order',
                  floor=15)
    R2 = chk.rule('C09.R2', 'source order = evaluation order: in every template the grammar symbols sit in the fields '
                            'in the order the node evaluates them; list-valued non-terminals preserve order', floor=40)
    R3 = chk.rule('C09.R3', 'the tree built for a production does not depend on the content of its children: no grammar '
                            'action inspects a child subtree (other than the blank-statement test), so `x if c else y` is '
                            'always a conditional node, `a and b` always a lazy node, ...', floor=40)
    chk.decided += ['laziness and result identity of and/or', 'cond-then-one-branch of if-else',
                    'exactly-once, fixed-order evaluation of every other child (all 13 node kinds, all operator specialisations)',
                    'placement of source positions into fields (all templates)']
    chk.assumptions += ['Python evaluates call arguments, comprehension elements (dict: key before value) and statements left to right']
    rl = roles(F)
    for w in ('and', 'or'):
        if w not in rl['lazy']:
            raise AnalysisError('anchor vanished: no production `expression %s expression` building a node' % w.upper())
    if rl['cond'] is None:
        raise AnalysisError('anchor vanished: no conditional-expression production (… IF … ELSE …)')
    if not rl['lambda']:
        raise AnalysisError('anchor vanished: no lambda production')

    order_of: Dict[Tuple[str, Optional[str]], List[str]] = {}
    for cls in om.op_classes(F):
        if cls == om.ROOT or not om.own_eval(F, cls):
            continue
        q = cls + '.eval'
        fi = F.func(q)
        selft, stt = ('param', om.self_param(F, q)), ('param', om.state_param(F, q))
        kinds = om.op_field_kinds(F, cls)
        opfields = [n for n, k in kinds.items() if k in ('op', 'oplist', 'pairlist')]
        strs = om.op_specs(F, cls)
        # every op string the grammar can put into this class
        gram_ops = grammar_ops(F, cls)
        specs: List[Optional[str]] = sorted(set(strs) | set(gram_ops)) or [None]
        for op in specs:
            paths = [p for p in om.eval_paths(F, cls, op) if p.normal]
            cons = '%s.eval' % cls + (' [op=%r]' % op if op is not None else '')
            if not paths:
                if op in gram_ops or op is None:
                    chk.bad(R1, cons, fi.where, 'no path returns normally')
                continue
            problems: List[str] = []
            lazy = [w for w, v in rl['lazy'].items() if v[0] == cls and op == w]
            if lazy:
                _check_lazy(F, lazy[0], rl['lazy'][lazy[0]], paths, selft, stt, problems)
                order_of[(cls, op)] = [rl['lazy'][lazy[0]][2], rl['lazy'][lazy[0]][3]]
            elif rl['cond'][0] == cls:
                _check_cond(F, rl['cond'], paths, selft, stt, problems)
                order_of[(cls, op)] = [rl['cond'][1]]
            elif cls in rl['lambda']:
                for p in paths:
                    ce = child_events(F, p, selft, stt)
                    if ce:
                        problems.append('a lambda definition evaluates `%s` at definition time' % ce[0][2].text())
                order_of[(cls, op)] = []
            else:
                seqs = set()
                for p in paths:
                    ce = child_events(F, p, selft, stt)
                    seq = []
                    for fld, idx, e, recv in ce:
                        k = kinds.get(fld)
                        if k == 'op':
                            if e.in_ctx('loop') or e.in_ctx('comp'):
                                problems.append('`%s` is evaluated inside a loop' % e.text())
                            if freeze(recv) != ('attr', selft, fld):
                                problems.append('`%s` evaluates something derived from self.%s, not the child itself' % (e.text(), fld))
                        elif k in ('oplist', 'pairlist'):
                            loops = e.in_ctx('loop') + e.in_ctx('comp')
                            if e.kind == 'loop_skip':
                                pass
                            elif not loops:
                                problems.append('`%s`: element of self.%s evaluated outside an element-wise traversal' % (e.text(), fld))
                            else:
                                it = loops[-1][2]
                                if it != ('attr', selft, fld):
                                    problems.append('self.%s is traversed as `%s`, not in list order' % (fld, show(it)))
                        else:
                            continue
                        if e.kind == 'loop_skip' and k == 'pairlist':
                            seq.append((fld, 0))        # an empty traversal stands for both components
                            seq.append((fld, 1))
                            continue
                        seq.append((fld, idx))
                    # a list field the path found empty (`if not self.xs: return ...`, `len(self.xs) == 0`): nothing to evaluate -
                    # an empty traversal, as if the loop had been entered
                    for f in opfields:
                        if kinds.get(f) in ('oplist', 'pairlist') and not any(ff == f for ff, _ in seq):
                            at = ('attr', selft, f)
                            ln = ('pcall', 'len', (at,))
                            empty = any((freeze(c_) == at and v_ is False) or
                                        (freeze(c_) in (('cmp', '==', ln, ('const', 0)), ('cmp', '==', ('const', 0), ln)) and v_ is True) or
                                        (freeze(c_) in (('cmp', '>', ln, ('const', 0)), ('cmp', '!=', ln, ('const', 0))) and v_ is False)
                                        for c_, v_, _x in p.assumptions)
                            if empty:
                                seq += [(f, 0), (f, 1)] if kinds[f] == 'pairlist' else [(f, None)]
                    seqs.add(tuple(seq))
                    flds = [f for f, _ in seq]
                    for f in opfields:
                        n = flds.count(f)
                        want = 2 if kinds[f] == 'pairlist' else 1
                        if n == 0:
                            problems.append('self.%s is not evaluated on a path that returns normally%s' % (f, _pd(p)))
                        elif n != want:
                            problems.append('self.%s is evaluated %d times on one path' % (f, n))
                    for f in set(flds):
                        if kinds.get(f) == 'pairlist':
                            idxs = [i for ff, i in seq if ff == f]
                            if idxs != [0, 1]:
                                problems.append('pairs of self.%s are evaluated in component order %s, not key then value' % (f, idxs))
                            # key and value of one pair must be evaluated in the same traversal step
                            lids = []
                            for ff, idx, e, recv in ce:
                                if ff == f and e.kind == 'call':
                                    ls = e.in_ctx('loop') + e.in_ctx('comp')
                                    lids.append(ls[-1][1] if ls else None)
                            if len(set(lids)) > 1:
                                problems.append('keys and values of self.%s are evaluated in separate passes (all keys, then all values): '
                                                'not left to right pair by pair' % f)
                        if kinds.get(f) == 'oplist':
                            n_pass = len([1 for ff, idx, e, recv in ce if ff == f])
                            if n_pass > 1:
                                problems.append('the elements of self.%s are traversed %d times' % (f, n_pass))
                # ... and before the node's own complaint: an error the node itself raises about its operands (wrong types, bad
                # index) comes after every operand was evaluated - a test that stops at the first operand skips the effects of the others
                for p in om.eval_paths(F, cls, op):
                    if p.normal or p.outcome[0] != 'raise':
                        continue
                    own = [e for e in p.events if e.kind == 'raise' and not e.depth()]
                    if not own:
                        continue            # raised inside the charge step or a callee
                    ce = child_events(F, p, selft, stt)
                    done = {f_ for f_, _i, _e, _r in ce}
                    for f in opfields:
                        if kinds.get(f) == 'op' and f not in done:
                            problems.append('`%s` (line %d) is raised before self.%s was evaluated: its effects are skipped on this error path' % (
                                own[-1].text()[:60], own[-1].line, f))
                if len(seqs) > 1:
                    problems.append('children are evaluated in different orders on different paths: %s' % sorted(seqs, key=str))
                if seqs:
                    order_of[(cls, op)] = [f for f, i in sorted(seqs, key=str)[0] if not i]
            chk.require(not problems, R1, cons, fi.where,
                        '; '.join(sorted(set(problems))) or 'order %s on %d normal path(s)' % (order_of.get((cls, op)), len(paths)))

    _r2(chk, R2, order_of, rl)
    _r3(chk, R3)
    _r4(chk)


def _r4(chk: Check) -> None:
    """Exactly once starts at the root: the entry point walks the program's tree once.  A walk that is started again after the
    first one failed (a retry, a fallback) evaluates everything up to the failure twice."""
    import ast
    F = chk.facts
    R4 = chk.rule('C09.R4', 'the tree is walked once per call: on every path of SqParser.eval the program\'s tree is evaluated at most '
                            'once, and no tree evaluation sits in an except/finally block (a retry after a failed walk repeats '
                            'every operand evaluated before the failure)', floor=1)
    q = 'smartquery.sq_parser.SqParser.eval'
    fi = F.func(q)
    problems = []
    n = 0
    for p in SymExec(F, fi).run():
        evs = [e for e in p.events if e.kind == 'call' and e.resolved is None and isinstance(freeze(e.func), tuple)
               and freeze(e.func)[:1] == ('attr',) and freeze(e.func)[2] == om.EVAL]
        main = [e for e in evs if not e.in_ctx('loop')]
        n += bool(main)
        for e in evs:
            if e.in_ctx('handler') or e.in_ctx('finally'):
                problems.append('`%s` (line %d) runs inside an except/finally block: after a failed walk the tree is evaluated again, so '
                                'every operand, argument and element evaluated before the failure is evaluated twice' % (e.text(), e.line))
        recv = {}
        for e in main:
            recv.setdefault(freeze(freeze(e.func)[1]), []).append(e)
        for r, es in recv.items():
            if len(es) > 1:
                problems.append('`%s` is evaluated %d times on one path' % (es[0].text(), len(es)))
    chk.require(not problems and n, R4, q, fi.where, '; '.join(sorted(set(problems))[:3]) or
                '%d path(s) evaluate the tree, each of them once and outside any handler' % n)


def _pd(p: Path) -> str:
    a = ['%s is %s' % (show(c), v) for c, v, _ in p.assumptions if 'ops_evaluated' not in show(c)]
    return ' [' + ', '.join(a[:3]) + ']' if a else ''


def grammar_ops(F, cls: str) -> List[str]:
    """Operator strings the grammar can store in field `op` of class cls."""
    return om.grammar_op_strings(F, cls)


def _check_lazy(F, word, role, paths, selft, stt, problems) -> None:
    cls, opf, f1, f2 = role
    for p in paths:
        ce = child_events(F, p, selft, stt)
        flds = [c[0] for c in ce]
        if not ce or ce[0][0] != f1 or freeze(ce[0][3]) != ('attr', selft, f1):
            problems.append('`%s`: the left operand is not evaluated first' % word)
            continue
        if flds.count(f1) != 1:
            problems.append('`%s`: the left operand is evaluated %d times' % (word, flds.count(f1)))
        left = freeze(ce[0][2].result)
        truth = None
        for c, v, _ in p.assumptions:
            c, v = _truth_test(c, v)
            if c == left:
                truth = v
        n2 = flds.count(f2)
        ret = p.outcome[1]
        if truth is None:
            import os
            if os.environ.get('SQ_DEBUG'):
                print('DEBUG left', left, [(freeze(c), v) for c, v, _ in p.assumptions])
            problems.append('`%s`: a path returns without ever testing the left operand (right operand evaluated %d time(s))' % (word, n2))
            continue
        need_right = truth if word == 'and' else not truth
        if need_right:
            if n2 != 1:
                problems.append('`%s`: left operand %s but the right operand is evaluated %d times' % (
                    word, 'truthy' if truth else 'falsy', n2))
            else:
                r = [c for c in ce if c[0] == f2][0]
                if freeze(r[2].result) != ret:
                    problems.append('`%s`: when the right operand decides, the result is %s, not that operand\'s value' % (word, show(ret)))
        else:
            if n2 != 0:
                problems.append('`%s`: the right operand is evaluated although the left one is %s (not lazy)' % (
                    word, 'truthy' if truth else 'falsy'))
            if ret != left:
                problems.append('`%s`: when the left operand decides, the result is %s, not the operand itself' % (word, show(ret)))


def _check_cond(F, role, paths, selft, stt, problems) -> None:
    cls, fc, fa, fb = role
    if fc is None:
        problems.append('the conditional template does not place cond/then/else symbols into fields')
        return
    for p in paths:
        ce = child_events(F, p, selft, stt)
        flds = [c[0] for c in ce]
        if not ce or ce[0][0] != fc:
            problems.append('the condition (self.%s) is not evaluated first' % fc)
            continue
        if flds.count(fc) != 1:
            problems.append('the condition is evaluated %d times' % flds.count(fc))
        cv = freeze(ce[0][2].result)
        truth = None
        for c, v, _ in p.assumptions:
            c, v = _truth_test(c, v)
            if c == cv:
                truth = v
        na, nb = flds.count(fa), flds.count(fb)
        if truth is None:
            problems.append('a path returns without testing the condition (then-branch evaluated %d, else-branch %d time(s))' % (na, nb))
            continue
        want, other, nw, no = (fa, fb, na, nb) if truth else (fb, fa, nb, na)
        if nw != 1 or no != 0:
            problems.append('condition %s: self.%s evaluated %d time(s), self.%s %d time(s); exactly the selected branch '
                            'must be evaluated' % ('truthy' if truth else 'falsy', want, nw, other, no))
        else:
            r = [c for c in ce if c[0] == want][0]
            if freeze(r[2].result) != p.outcome[1]:
                problems.append('the conditional returns %s, not the value of the selected branch' % show(p.outcome[1]))


# ------------------------------------------------------------------------ R2
def _positions(term) -> List[Tuple[int, ...]]:
    return [A.pos_key(pos) for pos, sym in A.symbols_in(term)]


def _r2(chk: Check, R2: str, order_of, rl) -> None:
    F = chk.facts
    g = C.grammar(F)
    T = C.templates(F)
    for t in T.all():
        where = '%s:%d' % (g.module.rel, t.prod.line)
        if t.raises is not None:
            continue
        problems: List[str] = []
        terms = [t.result] + [freeze(e.value) for e in t.events if e.kind == 'store_attr'] + \
                [x for e in t.events if e.kind == 'call' and not e.d.get('ctor') for x in freeze(e.args)]
        nodes_seen = 0
        for term in terms:
            # list-valued results must list their symbols in source order
            if isinstance(term, tuple) and term and term[0] == 'list':
                ps = _positions(term)
                if ps != sorted(ps):
                    problems.append('list value %s is not in source order' % show(term))
            for cls, flds in A.new_nodes(term):
                nodes_seen += 1
                fd = dict(flds)
                opv = fd.get('op')
                ops: List[Optional[str]] = [None]
                if opv is not None and opv[0] == 'const':
                    ops = [opv[1]]
                elif opv is not None and opv[0] == 'tok':
                    ops = sorted(C.lexmodel(F).token_texts.get(opv[2]) or [None])
                for op in ops:
                    order = order_of.get((cls, op))
                    if order is None:
                        order = order_of.get((cls, None))
                    if order is None:
                        continue
                    if rl['cond'][0] == cls:
                        continue     # the statement prescribes cond first; checked through roles()
                    last = None
                    lastf = None
                    for f in order:
                        v = fd.get(f)
                        if v is None:
                            continue
                        ps = _positions(v)
                        if ps != sorted(ps):
                            problems.append('%s.%s = %s lists its parts out of source order' % (cls.rsplit('.', 1)[-1], f, show(v)))
                        if ps:
                            if last is not None and min(ps) < last:
                                problems.append('%s evaluates %s before %s, but the template puts a later source position '
                                                'into %s (%s)' % (cls.rsplit('.', 1)[-1], lastf, f, lastf, t.show()))
                            last = max(ps)
                            lastf = f
        # statements are appended in source order
        for e in t.events:
            if e.kind == 'call' and not e.d.get('ctor') and isinstance(freeze(e.func), tuple) and freeze(e.func)[0] == 'attr':
                f = freeze(e.func)
                if om.mentions(f, 'lines') and f[2] != 'append':
                    problems.append('statement list modified by `%s` (not an append at the end)' % e.text())
        chk.require(not problems, R2, 'template ' + t.key, where,
                    '; '.join(sorted(set(problems))) or t.show()[:100])
    # conditional roles
    cls, fc, fa, fb = rl['cond']
    chk.require(fc is not None, R2, 'conditional template roles', '',
                'cond/then/else symbols sit in fields %s/%s/%s of %s' % (fc, fa, fb, cls))


def _r3(chk: Check, R3: str) -> None:
    F = chk.facts
    g = C.grammar(F)
    T = C.templates(F)
    by_key = {}
    for t in T.all():
        by_key.setdefault((t.prod.index, t.inlined), []).append(t)
    for (pi, inl), ts in sorted(by_key.items(), key=lambda kv: (kv[0][0], str(kv[0][1]))):
        p = g.productions[pi]
        where = '%s:%d' % (g.module.rel, p.line)
        problems = []
        for t in ts:
            for c, v in t.assumptions:
                syms = A.symbols_in(c)
                if not syms:
                    continue
                blank_test = isinstance(c, tuple) and c[:2] == ('cmp', 'is') and c[3] == ('const', None) and \
                    isinstance(c[2], tuple) and c[2][:1] == ('sym',) and 'none' in (c[2][4] if len(c[2]) > 4 else ())
                if not blank_test:
                    problems.append('the action branches on `%s`: the tree it builds depends on what the child subtrees contain' % show(c))
        for t in ts:
            for e in t.events:
                if e.kind == 'call' and e.resolved in F.functions and common.memo_decorators(F.functions[e.resolved].node):
                    problems.append('the action calls the memoised function %s (%s): the cache answers with what was built for an earlier '
                                    'argument that compares equal (1, 1.0 and True are one key), so the tree depends on what was parsed before'
                                    % (e.resolved, common.memo_decorators(F.functions[e.resolved].node)[0]))
        shapes = {A.strip_ids(t.result) if t.raises is None else ('raises',) for t in ts}
        if len(ts) > 1 and not problems and len(shapes) > 1:
            # several templates are fine only for the blank-statement test
            pass
        chk.require(not problems, R3, 'action of `%s`%s' % (p, (' ' + str(list(inl))) if inl else ''), where,
                    '; '.join(sorted(set(problems))) or '%d template(s), content-independent' % len(ts))
