"""C15 -- insignificant surface syntax never changes the parsed program."""
from __future__ import annotations

from typing import Any, Dict, List, Optional, Set, Tuple

from ..facts import AnalysisError, FuncInfo
from ..report import Check
from ..symexec import SymExec, freeze, show, Path, Event, is_const
from .. import opmodel as om
from .. import ctx as C
from .. import lalr
from .. import actions as A
from .. import lexmodel as LM
from . import common
from . import lexfacts as LF

OPEN = {'(': ')', '[': ']', '{': '}'}


def separator_obligations(chk, R1, F, lm, lexrel):
    """Which separators reach the parser: CR LF / LF / `;` at statement level always, `;` also inside brackets, a bare line
    break inside brackets never.  Returns (rule name, rule model, position, depth attribute) or None."""
    NL = LF.newline_rule(lm)
    rm = lm.rules[NL]
    where = '%s:%d' % (lexrel, rm.rule.line)
    texts = rm.texts
    unbounded = texts is None and rm.samples is not None
    if unbounded:
        # a rule that takes a whole run of separators: judged on the members of its language with every loop taken at most
        # twice (each is a text the rule really matches; shortest first, at most 40 of them)
        texts = set(sorted(rm.samples, key=lambda x: (len(x), x))[:40])
    need = {'\r\n', '\n', ';'}
    chk.require(texts is not None and need <= texts, R1, 't_%s alternatives' % NL, where,
                'matches exactly %s' % sorted(texts) if texts is not None and need <= texts else
                'the separator rule matches %s; CRLF, LF and `;` must all be separators' % (sorted(texts) if texts else 'an unbounded language'))
    try:
        depth = LF.depth_attr(F, lm)
    except AnalysisError:
        depth = None          # the rule consults no bracket depth: the expectations below then fail for depth > 0 or depth 0
    if rm.rule.func is None:
        chk.bad(R1, 't_%s' % NL, where, 'the separator rule is a plain string rule: line breaks inside brackets separate statements')
        return None
    tparam = ('param', rm.rule.func.args.args[0].arg)
    for text in sorted(texts or []):
        for d in (0, 1, 3):
            ps = LF.specialise(F, lm, NL, text, d, depth)
            ret = LF.returns(ps, tparam)
            want = {'token'} if (';' in text or d == 0) else {'nothing'}
            ok = ret == want
            chk.require(ok, R1, 't_%s [%r at depth %s]' % (NL, text, '0' if d == 0 else '>0 (%d)' % d), where,
                        'returns %s' % '/'.join(sorted(ret)) + ('' if ok else '; expected %s: %s' % (
                            '/'.join(want), 'a line break inside brackets must not separate statements' if want == {'nothing'} else
                            ('a separator at statement level must reach the parser' if d == 0 else
                             'a `;` is a separator wherever it stands: inside brackets it has to reach the parser (which rejects it there)'))))
    return NL, rm, where, depth


def check(chk: Check) -> None:
    F = chk.facts
    R1 = chk.rule('C15.R1', 'layout tokens vanish: space and tab are ignored, comments emit nothing and end at the line break, '
                            'the line-break rule returns a separator iff the text is `;` or the bracket depth is 0, every '
                            'bracket rule moves the depth by exactly one and returns its token', floor=8)
    R2 = chk.rule('C15.R2', '`;`, newline, CRLF and blank statements: one separator terminal, one sequencing production, an '
                            'empty statement alternative, and empty lines contribute nothing to the statement list', floor=3)
    R3 = chk.rule('C15.R3', 'trailing comma: sibling alternatives agree - `... X , CLOSE` builds the same tree as `... X CLOSE`', floor=2)
    R4 = chk.rule('C15.R4', 'trailing comma: accepted for every arity - the token skeleton OPEN item (, item)* , CLOSE reaches '
                            'accept in the LALR automaton for each bracketed-list construct', floor=6)
    R5 = chk.rule('C15.R5', 'redundant parentheses: the group production returns the inner tree itself and is never part of a conflict', floor=1)
    R6 = chk.rule('C15.R6', 'three spellings of one call: r.f(args), r | f(args) and f(r, args) build the same call node', floor=2)
    chk.decided += ['every clause, on the three artefacts that determine it: lexer specification, grammar alternatives/automaton, action templates']
    chk.trusted += ['PLY builds its master regex as documented (function rules in definition order, string rules by decreasing length, re.VERBOSE)']
    g = C.grammar(F)
    lm = C.lexmodel(F)
    T = C.tables(F)
    TP = C.templates(F)
    lexrel = lm.spec.module.rel
    _r7(chk)

    # --------------------------------------------------------------------- R1
    chk.require(' ' in lm.spec.ignore and '\t' in lm.spec.ignore and '\n' not in lm.spec.ignore, R1, 't_ignore', lexrel,
                't_ignore = %r' % lm.spec.ignore + ('' if ' ' in lm.spec.ignore and '\t' in lm.spec.ignore else ': space and tab must both be ignored')
                + (' - a line break in t_ignore would erase statement boundaries' if '\n' in lm.spec.ignore else ''))
    silent = [n for n, r in lm.rules.items() if r.returns_token == 'never']
    if not silent:
        chk.bad(R1, 'comment rule', lexrel, 'no lexer rule drops its match: comments reach the parser')
    for n in silent:
        r = lm.rules[n]
        eats = r.newline and LM.last_char_can(r.parsed, '\n')
        chk.require(not eats, R1, 't_%s (comment)' % n, '%s:%d' % (lexrel, r.rule.line),
                    'emits no token; a match cannot end in a line break' if not eats else
                    'the comment regex can match a line break: it swallows the statement separator that follows')
        # what the rule drops is not program text: cut into tokens by the other rules, no sample of the comment language is
        # a run of tokens that can stand next to each other in a sentence (`--` is MINUS MINUS: `x--y` would lose its tail)
        others = [o for o in lm.order if o != n]
        hijacked = []
        for w in sorted(r.texts or LM.samples(r.parsed, unroll=2, cap=200, alphabet='x-*') or (), key=lambda x: (len(x), x))[:80]:
            toks = _tokenise_with(lm, others, w)
            if not toks:
                continue
            if all(_adjacent(T, a, b) for a, b in zip(toks, toks[1:])) and any(tk in T.action[st] for st in range(len(T.action)) for tk in toks[:1]):
                hijacked.append('%r is also %s' % (w, ' '.join(toks)))
        chk.require(not hijacked, R1, 't_%s drops only text that is no program text' % n, '%s:%d' % (lexrel, r.rule.line),
                    'no sample of the comment language can be cut into tokens that stand next to each other in a sentence' if not hijacked else
                    'the rule is tried before the string rules and drops text that is program text today: %s' % '; '.join(hijacked[:3]))
    for n, r in lm.rules.items():
        if LM.first_chars_can(r.parsed, '#') and r.returns_token != 'never':
            chk.bad(R1, 't_%s at #' % n, lexrel, 'rule %s matches at the comment character and returns a token' % n)
    # blanks between tokens: a rule whose match can contain an ignored character must not start where other tokens would have
    # ended - otherwise `x<blank>y` and `xy` (both cut into tokens between x and y) give different token streams.  Decided on
    # the rule regexes by a bounded search: every start u of up to 2 (thorough: 3) characters, one blank, one more character.
    _token_gaps(chk, R1, lm, lexrel)
    sep = separator_obligations(chk, R1, F, lm, lexrel)
    if sep is None:
        return
    NL, rm, where, depth = sep
    # the token type stays the separator terminal
    if rm.type_expr is not None:
        chk.bad(R1, 't_%s type' % NL, where, 'the separator rule re-types its token')
    for n, r in lm.rules.items():
        if r.texts is None or len(r.texts) != 1:
            continue
        tx = next(iter(r.texts))
        if (tx in OPEN or tx in OPEN.values()) and depth is not None:
            if r.rule.func is None:
                chk.bad(R1, 't_%s (bracket)' % n, lexrel, 'bracket %r is a plain string rule: the depth counter is not maintained' % tx)
                continue
            t2 = ('param', r.rule.func.args.args[0].arg)
            deltas = set()
            for p in r.paths:
                dd: Any = 0
                for e in p.events:
                    if e.kind == 'aug_attr' and e.attr == depth and freeze(e.obj) == ('attr', t2, 'lexer'):
                        v = freeze(e.value)
                        dd = dd + (v[1] if e.op == '+' else -v[1]) if (dd != '?' and is_const(v) and isinstance(v[1], int) and e.op in '+-') else '?'
                    elif e.kind == 'store_attr' and e.attr == depth and freeze(e.obj) == ('attr', t2, 'lexer'):
                        v = freeze(e.value)
                        cur = ('attr', ('attr', t2, 'lexer'), depth)
                        # depth = depth + 1 / depth - 1 / 1 + depth
                        if dd != '?' and isinstance(v, tuple) and v[:1] == ('binop',) and v[1] in ('+', '-') and (
                                (v[2] == cur and is_const(v[3]) and isinstance(v[3][1], int)) or
                                (v[1] == '+' and v[3] == cur and is_const(v[2]) and isinstance(v[2][1], int))):
                            k_ = v[3][1] if v[2] == cur else v[2][1]
                            dd = dd + (k_ if v[1] == '+' else -k_)
                        else:
                            dd = '?'
                deltas.add(dd)
            want = 1 if tx in OPEN else -1
            ok = deltas == {want} and r.returns_token == 'always'
            chk.require(ok, R1, 't_%s (bracket %s)' % (n, tx), '%s:%d' % (lexrel, r.rule.line),
                        'depth %+d, token returned' % want if ok else 'changes %s by %s and returns its token %s; expected exactly %+d and always' % (
                            depth, sorted(map(str, deltas)), r.returns_token, want))

    # the depth the line-break rule consults must be 0 when the first token of a text is read: every entry point that lexes
    # assigns 0 before it asks PLY for a token (a text that stopped inside a bracket - a syntax error, a half-typed call handed
    # to list_names - otherwise leaves later texts with their top-level line breaks ignored)
    if depth is not None:
        from .c11 import _is_ply_call, PARSER
        for mn in ('parse', 'list_names'):
            q = PARSER + '.' + mn
            if q not in F.functions:
                continue
            fi_ = F.func(q)
            selft = ('param', om.self_param(F, q))
            lex = common.lexer_term(F, selft)
            bad = []
            n_runs = 0
            for p in SymExec(F, fi_).run():
                runs = [e for e in p.events if e.kind == 'call' and _is_ply_call(e, selft) and freeze(e.func)[2] in ('token', 'parse')]
                if not runs:
                    continue
                n_runs += 1
                first = p.events.index(runs[0])
                val = None
                for e in p.events[:first]:
                    if e.kind == 'store_attr' and e.attr == depth and freeze(e.obj) == lex:
                        val = freeze(e.value)
                if val != ('const', 0):
                    bad.append('lexer.%s is %s when `%s` starts reading' % (depth, 'whatever the previous text left' if val is None else show(val), runs[0].text()))
            chk.require(not bad and n_runs, R1, '%s starts at bracket depth 0' % q, fi_.where, '; '.join(sorted(set(bad))) or
                        'lexer.%s = 0 before the first token on all %d lexing path(s)' % (depth, n_runs))

    # --------------------------------------------------------------------- R2
    sep_prods = [p for p in g.productions[1:] if NL in p.rhs]
    ok = len(sep_prods) == 1 and len(sep_prods[0].rhs) == 3 and sep_prods[0].rhs[0] == sep_prods[0].lhs and sep_prods[0].rhs[1] == NL
    chk.require(ok, R2, 'sequencing production', g.module.rel,
                '`%s` is the only production that uses the separator' % sep_prods[0] if ok else
                'the separator terminal %s is used by %s' % (NL, [str(p) for p in sep_prods]))
    empties = [p for p in g.productions[1:] if not p.rhs]
    chk.require(bool(empties), R2, 'empty statement', g.module.rel,
                '`%s`' % empties[0] if empties else 'no empty alternative: blank lines and doubled separators are syntax errors')
    if ok:
        seqp = sep_prods[0]
        for t in TP.of(seqp):
            line_none = any(c == ('cmp', 'is', ('sym', '3') + c[2][2:], ('const', None)) for c, v in [(c, v) for c, v in t.assumptions if isinstance(c, tuple) and c[:2] == ('cmp', 'is') and isinstance(c[2], tuple)])
            appended = [e for e in t.events_effects() if e.kind == 'call' and isinstance(freeze(e.func), tuple) and freeze(e.func)[:1] == ('attr',) and freeze(e.func)[2] == 'append']
            is_none = [v for c, v in t.assumptions if isinstance(c, tuple) and c[:2] == ('cmp', 'is') and isinstance(c[2], tuple) and c[2][:2] == ('sym', '3') and c[3] == ('const', None)]
            if is_none and is_none[0]:
                chk.require(not appended and not [e for e in t.events_effects() if e.kind == 'store_attr'], R2,
                            'template %s [blank line]' % t.key, '%s:%d' % (g.module.rel, seqp.line),
                            'a blank statement adds nothing to the statement list' if not appended else 'a blank statement appends %s' % show(appended[0].args))
            elif is_none:
                ok2 = len(appended) == 1 and freeze(appended[0].args) and freeze(appended[0].args)[0][:2] == ('sym', '3')
                chk.require(ok2, R2, 'template %s [statement]' % t.key, '%s:%d' % (g.module.rel, seqp.line),
                            'appends exactly the new statement' if ok2 else 'a non-blank statement is not appended exactly once')
            else:
                chk.bad(R2, 'template %s' % t.key, '%s:%d' % (g.module.rel, seqp.line), 'the action does not test whether the line is blank (None is appended for blank statements)')
        base = [p for p in g.by_lhs(seqp.lhs) if p is not seqp]
        for p in base:
            for t in TP.of(p):
                stores = [e for e in t.events_effects() if e.kind == 'store_attr']
                is_none = [v for c, v in t.assumptions if isinstance(c, tuple) and c[:2] == ('cmp', 'is') and c[3] == ('const', None)]
                if stores:
                    v = freeze(stores[0].value)
                    lines = dict(v[2]).get('lines') if isinstance(v, tuple) and v[:1] == ('new',) else None
                    if is_none and is_none[0]:
                        chk.require(lines == ('list',), R2, 'template %s [blank first line]' % t.key, '%s:%d' % (g.module.rel, p.line),
                                    'starts an empty statement list' if lines == ('list',) else 'a blank first line yields the list %s' % show(lines))
                    else:
                        chk.require(isinstance(lines, tuple) and len(lines) == 2, R2, 'template %s [first statement]' % t.key,
                                    '%s:%d' % (g.module.rel, p.line), 'statement list starts with the first statement')

    # ----------------------------------------------------------------- R3, R4
    pairs = trailing_comma_pairs(g, lm)
    for plain, comma in pairs:
        where = '%s:%d' % (g.module.rel, comma.line)
        tp, tc = TP.of(plain), TP.of(comma)
        a = sorted({A.strip_ids(t.result) if t.raises is None else ('raises',) for t in tp}, key=str)
        b = sorted({A.strip_ids(t.result) if t.raises is None else ('raises',) for t in tc}, key=str)
        chk.require(a == b, R3, '`%s` vs `%s`' % (comma, plain), where,
                    'both build %s' % show(a[0]) if a == b else 'with the trailing comma the action builds %s, without it %s' % (
                        ' / '.join(show(x) for x in b), ' / '.join(show(x) for x in a)))
    if len(pairs) < 5:
        chk.notes.append('only %d trailing-comma constructs found' % len(pairs))
    raising = {t.prod.index for t in TP.all() if t.raises is not None}
    short = lalr.shortest_expansions(g, skip=raising)
    ctxs = lalr.contexts(g, short)
    maxn = 6 if chk.tier == 'thorough' else 3
    nts = set(g.nonterminals)
    for plain, comma in pairs:
        # position of the list non-terminal: the symbol before COMMA in the comma alternative
        li = len(comma.rhs) - 3
        L = comma.rhs[li]
        item = list_item_expansion(g, L, short)
        if item is None:
            chk.unrec(R4, 'skeleton for `%s`' % comma, g.module.rel, 'cannot find the item/separator shape of %s' % L)
            continue
        sep = comma.rhs[-2]
        prefix: List[str] = []
        for s in comma.rhs[:li]:
            prefix += list(short[s]) if s in nts else [s]
        for n in range(1, maxn + 1):
            body: List[str] = []
            for k in range(n):
                if k:
                    body.append(sep)
                body += item
            for with_comma in (True, False):
                toks = prefix + body + ([sep] if with_comma else []) + [comma.rhs[-1]]
                pre, suf = ctxs.get(comma.lhs, ((), ()))
                toks = list(pre) + toks + list(suf)
                okk, why, reduced = lalr.simulate(T, toks)
                want = comma.index if with_comma else plain.index
                good = okk and want in reduced
                cons = 'skeleton `%s` n=%d %s' % (comma if with_comma else plain, n, 'with trailing comma' if with_comma else 'plain')
                chk.require(good, R4, cons, '%s:%d' % (g.module.rel, comma.line),
                            'accepted: %s' % ' '.join(toks) if good else 'the automaton rejects `%s`: %s' % (' '.join(toks), why if not okk else 'accepted, but not through this production'))

    # ... and no bracketed list is left without the optional comma: whatever alternative spells it, every production that
    # ends in `L CLOSE` with L a comma-separated list accepts `... item , CLOSE` too
    sep_lists = {}
    for q_ in g.productions[1:]:
        r_ = q_.rhs
        if len(r_) >= 3 and r_[0] == q_.lhs and lm.token_texts.get(r_[1]) == {','}:
            sep_lists[q_.lhs] = r_[1]
        elif len(r_) >= 3 and r_[-1] == q_.lhs and lm.token_texts.get(r_[-2]) == {','}:
            sep_lists[q_.lhs] = r_[-2]
    n_closed = 0
    for plain in g.productions[1:]:
        if len(plain.rhs) < 2 or plain.rhs[-2] not in sep_lists or plain.index in raising:
            continue
        if next(iter(lm.token_texts.get(plain.rhs[-1]) or {''})) not in OPEN.values():
            continue
        L = plain.rhs[-2]
        sep = sep_lists[L]
        item = list_item_expansion(g, L, short)
        if item is None:
            chk.unrec(R4, 'skeleton for `%s`' % plain, g.module.rel, 'cannot find the item/separator shape of %s' % L)
            continue
        n_closed += 1
        prefix = []
        for s in plain.rhs[:-2]:
            prefix += list(short[s]) if s in nts else [s]
        pre, suf = ctxs.get(plain.lhs, ((), ()))
        for n in range(1, maxn + 1):
            body = []
            for k in range(n):
                if k:
                    body.append(sep)
                body += item
            toks = list(pre) + prefix + body + [sep, plain.rhs[-1]] + list(suf)
            okk, why, reduced = lalr.simulate(T, toks)
            chk.require(okk, R4, 'closing `%s` after a trailing `%s`, n=%d' % (plain, sep, n), '%s:%d' % (g.module.rel, plain.line),
                        'accepted: %s' % ' '.join(toks) if okk else 'the automaton rejects `%s`: %s - this construct has no trailing-comma form' % (' '.join(toks), why))
    if n_closed < 3:
        chk.notes.append('only %d bracketed comma lists found' % n_closed)

    # --------------------------------------------------------------------- R5
    groups = [p for p in g.productions[1:] if len(p.rhs) == 3 and lm.token_texts.get(p.rhs[0]) == {'('} and
              lm.token_texts.get(p.rhs[2]) == {')'} and p.rhs[1] == p.lhs]
    if not groups:
        chk.bad(R5, 'group production', g.module.rel, 'no production `( expression )`')
    for p in groups:
        res = {A.strip_ids(t.result) for t in TP.of(p)}
        good = all(isinstance(r, tuple) and r[:2] == ('sym', '2') for r in res) and len(res) == 1
        conflicts = [d for d in T.decisions if d.prod == p.index]
        chk.require(good and not conflicts, R5, '`%s`' % p, '%s:%d' % (g.module.rel, p.line),
                    'returns $2 itself; no conflict involves it' if good and not conflicts else
                    ('the group builds %s instead of returning the inner tree' % ' / '.join(show(r) for r in res) if not good else
                     'the completed group item is part of %d conflict(s)' % len(conflicts)))

    # ... and around *every* kind of subexpression: for each alternative X of the grouped non-terminal the token strings
    # ( X ) and ( ( X ) ) are accepted and are reduced through that alternative and the group production
    for gp in groups:
        LP, RP = gp.rhs[0], gp.rhs[2]
        pre, suf = ctxs.get(gp.lhs, ((), ()))
        n_alt = 0
        rejected = []
        for q_ in g.productions[1:]:
            if q_.lhs != gp.lhs or q_.index in raising or q_.index == gp.index:
                continue
            sent: List[str] = []
            okx = True
            for s_ in q_.rhs:
                if s_ in nts:
                    if s_ not in short:
                        okx = False
                        break
                    sent += list(short[s_])
                else:
                    sent.append(s_)
            if not okx:
                continue
            ok0, _, reduced0 = lalr.simulate(T, list(pre) + sent + list(suf))
            if not ok0:
                continue            # the bare form is not accepted either (see C06): nothing for parentheses to preserve
            n_alt += 1
            for depth_ in (1, 2):
                toks = list(pre) + [LP] * depth_ + sent + [RP] * depth_ + list(suf)
                okk, why, reduced = lalr.simulate(T, toks)
                if not (okk and gp.index in reduced and set(reduced0) <= set(reduced)):
                    rejected.append('`%s` (%s)' % (' '.join(toks), why if not okk else 'accepted, but parsed differently from the bare `%s`' % ' '.join(sent)))
                    break
        chk.require(not rejected and n_alt, R5, 'parentheses around every alternative of %s' % gp.lhs, '%s:%d' % (g.module.rel, gp.line),
                    'the automaton does not accept %s' % '; '.join(rejected[:3]) if rejected else
                    '( X ) and ( ( X ) ) accepted for all %d alternatives' % n_alt)

    # --------------------------------------------------------------------- R6
    ccls, nf, af = common.call_role(chk)
    dots = {tok for tok, tx in lm.token_texts.items() if tx in ({'.'}, {'|'})}
    by_shape: Dict[Tuple, List] = {}
    for t in TP.all():
        ops = [s for s in t.prod.rhs if s in dots]
        if len(ops) != 1 or t.prod.rhs[0] != t.prod.lhs:
            continue
        shape = tuple('OP' if s in dots else s for s in t.prod.rhs)
        by_shape.setdefault(shape, []).append(t)
        fd = dict(t.result[2]) if t.raises is None and isinstance(t.result, tuple) and t.result[:1] == ('new',) else {}
        name, args = fd.get(nf), fd.get(af)
        i = t.prod.rhs.index(ops[0]) + 1
        good = t.result[1:2] == (ccls,) and isinstance(name, tuple) and name[:2] == ('tok', str(i + 1)) and isinstance(args, tuple) and \
            args[:1] == ('list',) and len(args) >= 2 and args[1][:2] == ('sym', '1')
        rest = args[2:] if good else ()
        lists = [s for s in t.prod.rhs if s in nts and s != t.prod.lhs]
        if good and lists:
            good = len(rest) == 1 and rest[0][:1] == ('star',) and rest[0][1][:1] == ('symlist',)
        elif good:
            good = len(rest) == 0
        chk.require(good, R6, 'template ' + t.key, '%s:%d' % (g.module.rel, t.prod.line),
                    'call(name = the NAME after the operator, args = [receiver, *arguments]): %s' % t.show() if good else
                    'does not build f(receiver, *arguments): %s' % t.show())
    for shape, ts in by_shape.items():
        res = {A.strip_ids(t.result) for t in ts}
        if len(ts) > 1:
            chk.require(len(res) == 1, R6, 'spellings %s' % ' = '.join('`%s`' % t.prod for t in ts), g.module.rel,
                        'identical trees' if len(res) == 1 else 'the `.` and `|` spellings build different trees: %s' % ' vs '.join(show(r) for r in res))
    plain_calls = [t for t in TP.all() if len(t.prod.rhs) >= 3 and t.prod.rhs[0] not in nts and lm.token_texts.get(t.prod.rhs[1]) == {'('}
                   and t.raises is None and isinstance(t.result, tuple) and t.result[:2] == ('new', ccls) and t.prod.rhs[0] == 'NAME'
                   and any(s in nts for s in t.prod.rhs) and lm.token_texts.get(t.prod.rhs[-1]) == {')'} and len(t.prod.rhs) == 4]
    for t in plain_calls:
        fd = dict(t.result[2])
        good = fd.get(nf, ())[:2] == ('tok', '1') and (A.as_symlist(fd.get(af)) or ())[:2] == ('symlist', '3')
        chk.require(good, R6, 'template ' + t.key, '%s:%d' % (g.module.rel, t.prod.line),
                    'call(name = NAME, args = the argument list as written): f(r, a) and r.f(a) coincide' if good else 'plain call builds %s' % t.show())
    # the receiver keeps its text: no value token (numeral, name, string) may end its match with the `.` / `|` that starts the
    # method or pipe call when the match without it is a token too - `5.str()` would lex as `5.` `str` and be refused
    suffix_texts = sorted({next(iter(tx)) for tok, tx in lm.token_texts.items() if tx and len(tx) == 1 and next(iter(tx)) in ('.', '|')})
    for name in lm.order:
        rm = lm.rules[name]
        if rm.texts is not None or rm.returns_token == 'never' or rm.rule.func is None:
            continue
        stolen = []
        for c in suffix_texts:
            if not LM.last_char_can(rm.parsed, c):
                continue
            for w in sorted(LM.samples(rm.parsed, unroll=2, cap=300, alphabet='a5' + c) or (), key=lambda x: (len(x), x)):
                try:
                    if w.endswith(c) and len(w) > 1 and LM.match_end(rm.parsed, w, 0) == len(w) and LM.match_end(rm.parsed, w[:-1] + ' ', 0) == len(w) - 1:
                        stolen.append('%r (and %r alone is a %s too)' % (w, w[:-1], name))
                        break
                except LM.RegexNotModelled:
                    break
        if any(LM.last_char_can(rm.parsed, c) for c in suffix_texts):
            chk.require(not stolen, R6, 't_%s leaves the call suffix alone' % name, '%s:%d' % (lexrel, rm.rule.line),
                        'a match that ends in `.` / `|` is never a shorter match plus that character' if not stolen else
                        'the rule takes the `%s` of a method / pipe call into the receiver: %s - `x%sf()` is then cut differently from `f(x)`' % (
                            stolen[0].split("'")[1][-1] if "'" in stolen[0] else '.', stolen[0], '.'))


def _r7(chk: Check) -> None:
    """The equivalences above are decided on the lexer rules and the grammar.  They are equivalences of program texts only if the
    lexer is given the program text: a pass that rewrites the text first (line-end normalisation, stripping, re-joining) is a
    second lexer the rules know nothing about."""
    from .c11 import _is_ply_call, PARSER
    F = chk.facts
    R7 = chk.rule('C15.R7', 'what is lexed is the text: SqParser.parse and list_names hand PLY their text argument itself - no '
                            'rewriting pass sits between the caller and the rules that R1-R6 judge', floor=2)
    for mn in ('parse', 'list_names'):
        q = PARSER + '.' + mn
        if q not in F.functions:
            continue
        fi = F.func(q)
        selft = ('param', om.self_param(F, q))
        src = ('param', fi.node.args.args[1].arg)
        problems = []
        n = 0
        for p in SymExec(F, fi).run():
            for e in p.events:
                if e.kind != 'call' or not _is_ply_call(e, selft):
                    continue
                f = freeze(e.func)
                if f[2] == 'input':
                    n += 1
                    if freeze(e.args) != (src,):
                        problems.append('`%s` feeds the lexer %s, not the text it was given' % (e.text(), show(freeze(e.args)[0]) if e.args else 'nothing'))
                elif f[2] == 'parse':
                    n += 1
                    kw = dict(freeze(e.kwargs))
                    inp = kw.get('input', freeze(e.args)[0] if e.args else None)
                    if inp != src:
                        problems.append('`%s` parses %s, not the text it was given: the rewriting is a layout rule of its own (which characters '
                                        'it treats as line ends, inside strings and comments too)' % (e.text(), show(inp) if inp else 'nothing'))
        chk.require(not problems and n, R7, q, fi.where, '; '.join(sorted(set(problems))[:2]) or '%d call(s) into PLY, each with the text argument itself' % n)
    # eval may strip trailing layout before parsing - all of it (str.rstrip()): CR is layout only as part of CR LF, so a strip
    # set that leaves a final '\r' behind turns `1 + 1\r\n` into a lexical error while `1 + 1\n` parses
    qe = PARSER + '.eval'
    if qe in F.functions:
        fie = F.func(qe)
        selfe = ('param', om.self_param(F, qe))
        srce = ('param', fie.node.args.args[1].arg)
        probs, ne = [], 0
        for p in SymExec(F, fie).run():
            for e in p.events:
                f = freeze(e.func) if e.kind == 'call' else None
                if not (isinstance(f, tuple) and f[:1] == ('attr',) and f[1] == selfe and f[2] == 'parse'):
                    continue
                ne += 1
                kw = dict(freeze(e.kwargs))
                txt = kw.get('expr', freeze(e.args)[0] if e.args else None)
                plain_strip = isinstance(txt, tuple) and txt[:1] == ('call',) and txt[2] == ('attr', srce, 'rstrip') and not txt[3] and not txt[4]
                if txt != srce and not plain_strip:
                    probs.append('`%s` parses %s, not the text (or the text with all trailing white space stripped)' % (e.text(), show(txt) if txt else 'nothing'))
        if ne:
            chk.require(not probs, R7, qe, fie.where, '; '.join(sorted(set(probs))[:2]) or 'parses the text, trailing white space stripped by str.rstrip()')


def _regex_alphabet(lm) -> List[str]:
    import re._constants as K
    out: Set[str] = set('aZ1_')

    def walk(p):
        for op, av in p:
            if op is K.LITERAL:
                out.add(chr(av))
            elif op is K.IN:
                for o2, a2 in av:
                    if o2 is K.LITERAL:
                        out.add(chr(a2))
                    elif o2 is K.RANGE:
                        out.add(chr(a2[0]))
            elif op is K.BRANCH:
                for a in av[1]:
                    walk(a)
            elif op is K.SUBPATTERN:
                walk(av[3])
            elif op in (K.MAX_REPEAT, K.MIN_REPEAT):
                walk(av[2])
            elif op in (K.ASSERT, K.ASSERT_NOT):
                walk(av[1])
    for n in lm.order:
        walk(lm.rules[n].parsed)
    return sorted(c for c in out if c not in lm.spec.ignore and c not in '\r\n' and ord(c) < 128)


def _token_gaps(chk: Check, R1: str, lm, lexrel: str) -> None:
    import os
    blanks = [c for c in lm.spec.ignore if c in ' \t']
    sigma = _regex_alphabet(lm)
    deep = chk.tier == 'thorough'
    emitted = {n for n in lm.order if lm.rules[n].returns_token != 'never'}

    def stream(toks):
        return [(n, t) for n, t, _ in toks if n in emitted]
    for n in lm.order:
        rm = lm.rules[n]
        if not any(LM.can_contain(rm.parsed, w) for w in blanks):
            continue
        first = [c for c in sigma if LM.first_chars_can(rm.parsed, c)]
        tails = [''] + sigma + ([a + b for a in sigma for b in sigma] if deep else [])
        wit = None
        tried = 0
        try:
            for c in first:
                for t in tails:
                    u = c + t
                    for w in blanks:
                        for ext in sigma:
                            s1 = u + w + ext
                            e = LM.match_end(rm.parsed, s1, 0)
                            if e is None or e <= len(u):
                                continue
                            tried += 1
                            t0 = lm.tokenise(u + ext)
                            if t0 is None or not any(pos == len(u) for _, _, pos in t0):
                                continue          # u|ext is not a gap between two tokens of the unspaced text
                            t1 = lm.tokenise(s1)
                            if t1 is None or stream(t0) != stream(t1):
                                wit = (u + ext, s1, stream(t0), None if t1 is None else stream(t1))
                                break
                        if wit:
                            break
                    if wit:
                        break
                if wit:
                    break
        except LM.RegexNotModelled as ex:
            raise AnalysisError('lexer: regex construct not modelled by the token-gap search: %s' % ex)
        chk.require(wit is None, R1, 't_%s across blanks' % n, '%s:%d' % (lexrel, rm.rule.line),
                    'its match can contain blanks, but never starts at a place where the text without the blank is cut into '
                    'other tokens (%d spanning matches examined)' % tried if wit is None else
                    'a blank between two tokens changes the token stream: %r lexes as %s but %r lexes as %s' % (
                        wit[0], ' '.join(x for x, _ in wit[2]) or '<nothing>', wit[1],
                        'an error' if wit[3] is None else (' '.join(x for x, _ in wit[3]) or '<nothing>')))


def _tokenise_with(lm, order, text):
    """Terminal names of `text` cut by the rules in `order` (PLY's scan); None when some position matches none of them."""
    out = []
    i = 0
    while i < len(text):
        if text[i] in lm.spec.ignore:
            i += 1
            continue
        for name in order:
            try:
                e = LM.match_end(lm.rules[name].parsed, text, i)
            except LM.RegexNotModelled:
                return None
            if e is not None:
                if e == i:
                    return None
                if lm.rules[name].returns_token != 'never':
                    out.append(lm.reserved.get(text[i:e], name) if lm.rules[name].type_expr is not None else name)
                i = e
                break
        else:
            return None
    return out


def _adjacent(T, a, b) -> bool:
    """Can terminal b be the lookahead right after terminal a was shifted, in some state of the automaton?"""
    for act in T.action:
        v = act.get(a)
        if v and v[0] == 's' and b in T.action[v[1]]:
            return True
    return False



def trailing_comma_pairs(g, lm) -> List[Tuple[Any, Any]]:
    out = []
    by = {}
    for p in g.productions[1:]:
        by.setdefault(p.lhs, []).append(p)
    for lhs, ps in by.items():
        for c in ps:
            if len(c.rhs) >= 3 and lm.token_texts.get(c.rhs[-2]) == {','} and next(iter(lm.token_texts.get(c.rhs[-1]) or {''})) in OPEN.values():
                for p in ps:
                    if p.rhs == c.rhs[:-2] + c.rhs[-1:]:
                        out.append((p, c))
    return out


def list_item_expansion(g, L: str, short) -> Optional[List[str]]:
    """Terminal expansion of one item of the separator list L (its non-recursive alternative)."""
    nts = set(g.nonterminals)
    base = [p for p in g.by_lhs(L) if L not in p.rhs]
    if not base:
        return None
    p = min(base, key=lambda q: len(q.rhs))
    out: List[str] = []
    for s in p.rhs:
        out += list(short[s]) if s in nts else [s]
    return out


def wrap_statement(g, lhs: str, toks: List[str], short) -> List[str]:
    return toks
