"""C12 -- assignment has value semantics: stored values are independent (deep) copies."""
from __future__ import annotations

from typing import Any, List

from ..facts import AnalysisError, norm
from ..report import Check
from ..symexec import SymExec, freeze, show, Path, Event
from .. import opmodel as om
from . import common

DEEPCOPY = ('ref', 'ext', 'copy.deepcopy')


def is_deepcopy_of(t, rhs) -> bool:
    t = freeze(t)
    if not (isinstance(t, tuple) and len(t) >= 4 and t[0] == 'call' and t[2] == DEEPCOPY and len(t[3]) >= 1 and t[3][0] == rhs):
        return False
    # a memo that is not empty exempts the objects it lists from being copied: only the one-argument form (or an empty /
    # None memo) copies everything reachable
    extra = list(t[3][1:]) + [v for _, v in (t[4] if len(t) > 4 else ())]
    return all(x in (('dict',), ('const', None)) for x in extra)


def raw_occurrence(t, rhs) -> bool:
    """Does rhs occur in t anywhere outside a copy.deepcopy(rhs) call?"""
    t = freeze(t)
    if is_deepcopy_of(t, rhs):
        return False
    if t == rhs:
        return True
    if isinstance(t, tuple):
        return any(raw_occurrence(x, rhs) for x in t)
    return False


def has_deepcopy(t, rhs) -> bool:
    t = freeze(t)
    if is_deepcopy_of(t, rhs):
        return True
    return isinstance(t, tuple) and any(has_deepcopy(x, rhs) for x in t)


def describe_value(t, rhs) -> str:
    t = freeze(t)
    if t == rhs:
        return 'the evaluated right-hand side itself (no copy)'
    if isinstance(t, tuple) and t and t[0] == 'call' and t[3] and t[3][0] == rhs:
        return '`%s` of the right-hand side (not a deep copy)' % show(t[2])
    return '`%s`' % show(t)


def check(chk: Check) -> None:
    F = chk.facts
    R1 = chk.rule('C12.R1', 'every store of an assignment form (name, index, compound name, compound index) stores '
                            'copy.deepcopy(<evaluated right-hand side>) on every path', floor=4)
    R2 = chk.rule('C12.R2', 'no second store: the functions implementing assignment store neither the un-copied value '
                            'nor the copy a second time anywhere else', floor=4)
    chk.decided += ['deep copy dominates all stores of the four assignment forms the grammar has',
                    'no aliasing second store in those functions']
    chk.assumptions += ['copy.deepcopy of plain data returns a disjoint object graph (stdlib); closures are immutable and may be shared']
    _r3(chk)
    forms = common.assignment_forms(chk)
    if len(forms) < 4:
        raise AnalysisError('expected 4 assignment forms in the grammar, found %d' % len(forms))
    for fm in forms:
        label = '%s%s assignment' % ('compound ' if fm['compound'] else '', fm['kind'])
        if fm['target'] == 'op':
            cls = fm['cls']
            q = cls + '.eval'
            fi = F.func(q)
            selft, stt = ('param', om.self_param(F, q)), ('param', om.state_param(F, q))
            ops: List[Any] = [None]
            if fm['op_field']:
                ops = common_ops(chk, fm)
            for op in ops:
                paths = om.eval_paths(F, cls, op, field=fm['op_field'] or 'op')
                _check_paths(chk, R1, R2, fm, label + (' %s' % op if op else ''), q, fi, paths,
                             dest=lambda e: om.carries(e.obj, stt) or om.carries(e.obj, selft) or True,
                             rhs_of=lambda p: _child_result(p, selft, stt, fm['value_field']),
                             need_store=(op is not None or not fm['compound']))
        else:
            q = fm['fn']
            fi = F.func(q)
            params = [a.arg for a in fi.node.args.args]
            if fm['value_idx'] is None or fm['value_idx'] >= len(params):
                raise AnalysisError('%s: cannot map the right-hand side to a parameter of %s' % (fm['key'], q))
            rhs = ('param', params[fm['value_idx']])
            ops = [None]
            ov = None
            if fm['compound'] and fm['op_idx'] is not None:
                ops = common_ops(chk, fm)
            for op in ops:
                args = {params[fm['op_idx']]: ('const', op)} if op is not None else None
                paths = SymExec(F, fi, args=args).run()
                _check_paths(chk, R1, R2, fm, label + (' %s' % op if op else ''), q, fi, paths,
                             dest=None, rhs_of=lambda p: rhs, need_store=True)


def common_ops(chk: Check, fm) -> List[str]:
    from .. import ctx as C
    lm = C.lexmodel(chk.facts)
    t = fm['template']
    for i, s in enumerate(t.prod.rhs, 1):
        texts = lm.token_texts.get(s)
        if texts and all(len(x) == 2 and x.endswith('=') for x in texts):
            return sorted(texts)
    return []


def _child_result(p: Path, selft, stt, field):
    for e in p.events:
        r = om.is_child_eval(e, selft, stt)
        if r and r[0] == field:
            return freeze(e.result)
    return None


def _check_paths(chk, R1, R2, fm, label, q, fi, paths, dest, rhs_of, need_store) -> None:
    F = chk.facts
    problems1: List[str] = []
    problems2: List[str] = []
    n_stores = 0
    store_nodes = set()
    for p in paths:
        if not p.normal:
            continue
        rhs = rhs_of(p)
        if rhs is None:
            problems1.append('a normally returning path never evaluates the right-hand side')
            continue
        stores = [e for e in p.events if e.kind in ('store_sub', 'aug_sub', 'store_attr', 'aug_attr')
                  and not e.d.get('on_fresh') and e.attr_safe() != 'ops_evaluated']
        used_copies = []
        mine = 0
        for e in stores:
            v = freeze(e.value)
            if is_deepcopy_of(v, rhs):
                if v in used_copies:
                    problems2.append('`%s` stores the same copy a second time (two destinations share one object)' % e.text())
                used_copies.append(v)
                mine += 1
                store_nodes.add(e.node)
            elif om.mentions(v, rhs) and not raw_occurrence(v, rhs) and has_deepcopy(v, rhs):
                # the copy combined with the current value (x = f(current, deepcopy(rhs))): still an independent value
                mine += 1
                store_nodes.add(e.node)
            elif om.mentions(v, rhs):
                problems1.append('`%s` stores %s' % (e.text(), describe_value(v, rhs)))
                store_nodes.add(e.node)
                mine += 1
            if not is_deepcopy_of(v, rhs):
                shared = _module_owned_mutable(F, v)
                if shared:
                    problems2.append('`%s` stores an object owned by the module (%s): every destination it is stored into shares that one object, '
                                     'and a later in-place update through any of them changes all' % (e.text(), shared))
        # mutating calls that smuggle the value into a container
        for e in p.events:
            if e.kind == 'call' and not e.d.get('inlined') and isinstance(freeze(e.func), tuple) and freeze(e.func)[0] == 'attr' \
                    and freeze(e.func)[2] in ('append', 'insert', 'extend', 'update', 'setdefault', '__setitem__', 'add') \
                    and not e.d.get('on_fresh_list'):
                for a in freeze(e.args):
                    if a == rhs or (om.mentions(a, rhs) and not is_deepcopy_of(a, rhs)):
                        problems2.append('`%s` puts the un-copied value into a container' % e.text())
                    elif is_deepcopy_of(a, rhs):
                        if a in used_copies:
                            problems2.append('`%s` stores the same copy a second time' % e.text())
                        used_copies.append(a)
                        mine += 1
                        store_nodes.add(e.node)
        # the copy must not leave the function by another door: a returned copy is a second reference to the stored object
        # (or, for compound forms, to the elements that `+=` spliced into the stored list) - it becomes the value of the
        # statement, which the host receives and a program can keep by calling the builtin as an expression
        ret = freeze(p.outcome[1]) if p.outcome[0] == 'return' else None
        if ret is not None and is_deepcopy_of(ret, rhs):
            if ret in used_copies:
                problems2.append('returns the very copy it stored: the value of the statement is a second reference to the stored object')
            elif any(om.mentions(freeze(e.value), ret) for e in stores):
                problems2.append('returns the copy it combined into the stored value (`%s`): for lists the elements of that copy are now '
                                 'elements of the stored list as well, so the value of the statement shares them'
                                 % next(e.text() for e in stores if om.mentions(freeze(e.value), ret)))
        if need_store and mine == 0:
            problems1.append('a normally returning path stores nothing%s' % _pd(p))
        n_stores += mine
    cons = '%s :: %s' % (q, label)
    chk.require(not problems1, R1, cons, fi.where,
                '; '.join(sorted(set(problems1))) or '%d store statement(s), each storing copy.deepcopy(rhs)' % len(store_nodes))
    chk.require(not problems2, R2, cons, fi.where, '; '.join(sorted(set(problems2))) or 'no other store of the value')


def _module_owned_mutable(F, v) -> str:
    """If the term is (an element of) a module-level list / dict / set display that holds mutable objects - or is such a display
    itself - its name; '' otherwise."""
    import ast

    def mutable(n) -> bool:
        return isinstance(n, (ast.List, ast.Dict, ast.Set, ast.ListComp, ast.DictComp, ast.SetComp)) or (
            isinstance(n, ast.Call) and norm(n.func).rsplit('.', 1)[-1] in ('list', 'dict', 'set', 'defaultdict', 'OrderedDict', 'deque', 'bytearray'))

    def walk(t, bare: bool):
        if not isinstance(t, tuple) or not t:
            return ''
        if t[:2] == ('ref', 'modvar') and len(t) == 3:
            mod, _, var = t[2].rpartition('.')
            m = F.modules.get(mod)
            vals = m.assigns.get(var, []) if m is not None else []
            if len(vals) == 1 and vals[0] is not None:
                n = vals[0]
                if bare and mutable(n):
                    return t[2]
                if not bare and isinstance(n, (ast.Dict, ast.List, ast.Tuple, ast.Set)):
                    elts = n.values if isinstance(n, ast.Dict) else n.elts
                    if any(mutable(x) for x in elts):
                        return 'an element of %s' % t[2]
            return ''
        if t[0] == 'sub':
            return walk(t[1], False)
        if t[0] == 'call' and isinstance(t[2], tuple) and t[2][:1] == ('attr',) and t[2][2] in ('get', 'pop', 'setdefault', '__getitem__'):
            return walk(t[2][1], False)
        if t[0] == 'phi':
            return walk(t[3], bare)
        return ''
    return walk(freeze(v), True)


def _r3(chk: Check) -> None:
    """copy.deepcopy(value) copies only as far as the copy module is left alone: its dispatch tables and copyreg decide which
    types are handed back as they are, and a class can opt out of being copied through the copy protocol."""
    import ast
    F = chk.facts
    R3 = chk.rule('C12.R3', 'the deep copy is the library\'s deep copy: nothing in the package writes into the copy / copyreg modules '
                            '(dispatch tables, registered reducers, replaced functions), and no package class answers the copy '
                            'protocol (__deepcopy__, __copy__, __reduce_ex__, __reduce__) with its own receiver unless it is an '
                            'immutable scalar', floor=1)
    MODS = ('copy', 'copyreg')

    def target_of(m, n):
        """Dotted library name an expression denotes, if it lies in copy/copyreg."""
        root = n
        while isinstance(root, (ast.Attribute, ast.Subscript)):
            try:
                r = F.resolve_expr(m, root) if isinstance(root, ast.Attribute) else None
            except Exception:
                r = None
            if r is not None and r[0] in ('ext', 'extmod') and (r[1] in MODS or r[1].split('.')[0] in MODS):
                return r[1]
            root = root.value
        if isinstance(root, ast.Name):
            r = F.resolve_expr(m, root)
            if r[0] in ('ext', 'extmod') and (r[1] in MODS or r[1].split('.')[0] in MODS):
                return r[1]
        return None
    writes = []
    n_mod = 0
    for m in F.modules.values():
        if '.ply' in m.name:
            continue
        n_mod += 1
        for n in ast.walk(m.tree):
            tgts = []
            if isinstance(n, ast.Assign):
                tgts = n.targets
            elif isinstance(n, (ast.AugAssign, ast.AnnAssign)):
                tgts = [n.target]
            elif isinstance(n, ast.Delete):
                tgts = n.targets
            for t in tgts:
                for x in (t.elts if isinstance(t, (ast.Tuple, ast.List)) else [t]):
                    if isinstance(x, (ast.Attribute, ast.Subscript)):
                        d = target_of(m, x)
                        if d:
                            writes.append(('%s:%d' % (m.rel, n.lineno), 'writes into %s (`%s`)' % (d, norm(n)[:80])))
            if isinstance(n, ast.Call):
                f = n.func
                if isinstance(f, ast.Attribute) and f.attr in ('update', 'setdefault', 'pop', 'clear', '__setitem__', '__delitem__', 'popitem'):
                    d = target_of(m, f.value)
                    if d and d not in MODS:
                        writes.append(('%s:%d' % (m.rel, n.lineno), 'changes %s (`%s`)' % (d, norm(n)[:80])))
                r = F.resolve_expr(m, f) if isinstance(f, (ast.Name, ast.Attribute)) else None
                if r is not None and r[0] == 'ext' and r[1] in ('copyreg.pickle', 'copyreg.constructor'):
                    writes.append(('%s:%d' % (m.rel, n.lineno), 'registers a reducer (`%s`)' % norm(n)[:80]))
                if r == ('builtin', 'setattr') and n.args:
                    r0 = F.resolve_expr(m, n.args[0]) if isinstance(n.args[0], (ast.Name, ast.Attribute)) else None
                    if r0 is not None and r0[0] in ('ext', 'extmod') and r0[1].split('.')[0] in MODS:
                        writes.append(('%s:%d' % (m.rel, n.lineno), 'replaces an attribute of %s (`%s`)' % (r0[1], norm(n)[:80])))
    for wh, det in writes:
        chk.bad(R3, 'copy machinery :: %s' % det, wh, det + ': which values deepcopy hands back un-copied is no longer the library\'s '
                'decision - a type registered as atomic (tuple, a container class) is shared with everything reachable through it')
    if not writes:
        chk.ok(R3, 'copy machinery', 'smartquery/*.py', '%d module(s): no write into copy / copyreg' % n_mod)
    SCALAR_BASES = {'decimal.Decimal', 'int', 'float', 'str', 'bytes', 'bool', 'complex', 'fractions.Fraction'}
    for cq, ci in sorted(F.classes.items()):
        if '.ply' in ci.module.name:
            continue
        for mn in ('__deepcopy__', '__copy__', '__reduce_ex__', '__reduce__'):
            q = cq + '.' + mn
            if mn not in ci.methods or q not in F.functions:
                continue
            fi = F.func(q)
            scalar = any(b in SCALAR_BASES for b in F.ext_bases(cq))
            selfp = ('param', fi.node.args.args[0].arg) if fi.node.args.args else None
            rets_self = False
            try:
                rets_self = any(p.normal and freeze(p.outcome[1]) == selfp for p in SymExec(F, fi).run())
            except Exception:
                rets_self = True
            chk.require(scalar or not rets_self, R3, q, fi.where,
                        'answers the copy protocol with the object itself although it is not an immutable scalar: deepcopy shares it '
                        'and everything it holds' if not (scalar or not rets_self) else 'copy protocol of %s' % ('a scalar' if scalar else 'a class that builds a new object'))


def _pd(p: Path) -> str:
    a = ['%s is %s' % (show(c), v) for c, v, _ in p.assumptions if 'ops_evaluated' not in show(c)]
    return ' [' + ', '.join(a[:3]) + ']' if a else ''
