"""C20 -- syntax-error messages name the offending token and its physical line."""
from __future__ import annotations

import ast
from typing import Any, Dict, List, Optional, Set, Tuple

from ..facts import AnalysisError, FuncInfo, norm
from ..report import Check
from ..symexec import SymExec, freeze, show, Path, Event, is_const
from .. import opmodel as om
from .. import ctx as C
from . import common
from . import lexfacts as LF
from .. import lexmodel as LM

PARSER = 'smartquery.sq_parser.SqParser'


def check(chk: Check) -> None:
    F = chk.facts
    R1 = chk.rule('C20.R1', 'the line counter counts physical lines: every rule whose match can contain a line break adds '
                            'exactly the number of \\n in the matched alternative, at every bracket depth and whether or not a '
                            'token is returned; no other rule touches the counter; both entry points reset it to 1', floor=6)
    R2 = chk.rule('C20.R2', 'the message reports the offending token\'s text and the line recorded on that token '
                            '(p.lineno), not the lexer\'s position after it', floor=1)
    R3 = chk.rule('C20.R3', 'an error at the very end of the text raises ParserError with a constant "end of input" '
                            'message that interpolates no token', floor=1)
    chk.decided += ['line-counter discipline per regex alternative x bracket depth (R1)', 'sources of the message (R2)', 'end-of-input path (R3)']
    chk.trusted += ['PLY sets tok.lineno from lexer.lineno before calling the rule function (ply/lex.py, checked as an anchor in the thorough tier)']
    g = C.grammar(F)
    lm = C.lexmodel(F)
    lexrel = lm.spec.module.rel
    depth = None
    try:
        depth = LF.depth_attr(F, lm)
    except AnalysisError:
        depth = None

    # --------------------------------------------------------------------- R1
    n_nl = 0
    for name in lm.order:
        rm = lm.rules[name]
        where = '%s:%d' % (lexrel, rm.rule.line)
        touches = False
        if rm.rule.func is not None:
            for n in ast.walk(rm.rule.func):
                if isinstance(n, ast.Attribute) and n.attr == 'lineno' and isinstance(n.ctx, ast.Store):
                    touches = True
        if not rm.newline:
            if touches:
                chk.bad(R1, 't_%s touches lineno' % name, where, 'rule %s cannot match a line break but changes the line counter' % name)
            continue
        n_nl += 1
        if rm.rule.func is None:
            chk.bad(R1, 't_%s' % name, where, 'a plain string rule that can match a line break: the counter is never advanced for it')
            continue
        if rm.texts is None:
            # unbounded language (e.g. a multi-line comment or string): the counter must advance by the number of \n in the match
            tp = ('param', rm.rule.func.args.args[0].arg)
            cnt = ('call', 0, ('attr', ('attr', tp, 'value'), 'count'), (('const', '\n'),), ())
            from .. import actions as A_
            good, other = 0, 0
            transformed = []
            for p_ in rm.paths:
                value_replaced = None
                for e in p_.events:
                    if e.kind == 'store_attr' and e.attr == 'value' and freeze(e.obj) == tp:
                        value_replaced = e
                    if e.kind == 'aug_attr' and e.attr == 'lineno':
                        v_ = A_.strip_ids(freeze(e.value))
                        if e.op == '+' and v_ == cnt and value_replaced is not None and A_.strip_ids(freeze(value_replaced.value)) != ('attr', tp, 'value'):
                            # t.value no longer is the matched text when the count is taken
                            other += 1
                            transformed.append('t.value after `%s`' % value_replaced.text()[:100])
                        elif e.op == '+' and v_ == cnt:
                            good += 1
                        else:
                            other += 1
                            # <something>.count('\n') where <something> was made from the matched text by string methods
                            if e.op == '+' and isinstance(v_, tuple) and v_[:1] == ('call',) and isinstance(v_[2], tuple) and v_[2][:1] == ('attr',) \
                                    and v_[2][2] == 'count' and v_[3] == (('const', '\n'),):
                                def has_call(t):
                                    if isinstance(t, tuple):
                                        if t[:1] == ('call',):
                                            return True
                                        return any(has_call(x) for x in t)
                                    return False
                                if has_call(v_[2][1]):
                                    transformed.append(show(v_[2][1])[:120])
            if transformed:
                chk.bad(R1, 't_%s' % name, where, 'the line breaks are counted in a text that was rewritten first (%s): replacements can add or '
                                                   'remove line breaks that are not in the source, so later lines are reported wrongly' % transformed[0])
            elif good and not other:
                chk.ok(R1, 't_%s' % name, where, 'advances the counter by t.value.count("\\n") on every path')
            elif not good and not other:
                chk.bad(R1, 't_%s' % name, where, 'the rule can match text containing line breaks but never advances the line counter: '
                                                   'every later error is reported on too early a line')
            else:
                chk.unrec(R1, 't_%s' % name, where, 'line counting of a rule with an unbounded language is not in a recognised form')
            if not rm.samples:
                continue
        tparam = ('param', rm.rule.func.args.args[0].arg)
        # (an unbounded language is also judged on its shortest members, every loop taken at most twice)
        for text in (sorted(rm.texts) if rm.texts is not None else sorted(rm.samples, key=lambda x: (len(x), x))[:12]):
            want = text.count('\n')
            for d in (0, 1, 3):
                ps = LF.specialise(F, lm, name, text, d if depth else None, depth)
                deltas = LF.lineno_delta(ps, tparam)
                ok = deltas == {want}
                chk.require(ok, R1, 't_%s [%r at depth %s]' % (name, text, '0' if d == 0 else '>0 (%d)' % d), where,
                            'adds %d' % want if ok else 'adds %s to the line counter, the text contains %d line break(s)%s' % (
                                '/'.join(map(str, sorted(deltas, key=str))), want,
                                ' (`;` is not a line)' if want == 0 else ' (a line break inside brackets is still a line)'))
    if n_nl == 0:
        chk.bad(R1, 'line-break rule', lexrel, 'no lexer rule can match a line break')
    # PLY stamps tok.lineno with the line on which the match *starts*, before the rule function runs: a returned token whose
    # match begins with line breaks and goes on with visible text stands on a later line than the one recorded on it
    for name in lm.order:
        rm = lm.rules[name]
        if not rm.newline or rm.returns_token == 'never' or not any(LM.first_chars_can(rm.parsed, c) for c in '\r\n'):
            continue
        texts = rm.texts if rm.texts is not None else (LM.samples(rm.parsed, unroll=2, cap=200, alphabet='x|\n ') or set())
        late = sorted((w for w in texts if w[:1] in ('\r', '\n') and w.strip('\r\n \t;')), key=lambda x: (len(x), x))
        restamped = rm.rule.func is not None and any(
            isinstance(n, ast.Attribute) and n.attr == 'lineno' and isinstance(n.ctx, ast.Store) and isinstance(n.value, ast.Name)
            and n.value.id == rm.rule.func.args.args[0].arg for n in ast.walk(rm.rule.func))
        if late or rm.texts is None:
            chk.require(not late or restamped, R2, 't_%s: the token stands on the line recorded on it' % name, '%s:%d' % (lexrel, rm.rule.line),
                        'no match starts with a line break and goes on with visible text' if not late else
                        ('the rule sets t.lineno itself' if restamped else
                         'a match such as %r starts with line break(s) and ends in visible text: PLY recorded the line of the first '
                         'character on the token, the text the message names stands %d line(s) further down' % (late[0], late[0].count('\n'))))
    # resets to 1 in both entry points
    reset_nodes: list = []
    for mn in ('parse', 'list_names'):
        q = PARSER + '.' + mn
        fi = F.func(q)
        selft = ('param', om.self_param(F, q))
        vals = set()
        from .c11 import _is_ply_call
        for p in SymExec(F, fi).run():
            runs = [e for e in p.events if e.kind == 'call' and _is_ply_call(e, selft) and freeze(e.func)[2] in ('token', 'parse')]
            if not runs:
                continue
            first = p.events.index(runs[0])
            before = None
            for e in p.events:
                if e.kind == 'store_attr' and e.attr == 'lineno' and freeze(e.obj) == common.lexer_term(F, selft):
                    if is_const(freeze(e.value)):
                        reset_nodes.extend(ast.walk(e.node))      # the statement that performs the reset (possibly in a helper)
                    if p.events.index(e) < first:
                        before = freeze(e.value)
            # the counter as it stands when the first token of *this* text is read
            vals.add(before if before is not None else ('unknown', 'whatever the previous call left'))
        chk.require(vals == {('const', 1)}, R1, '%s resets lineno' % q, fi.where,
                    'to 1' if vals == {('const', 1)} else 'the line counter starts at %s (lines are 1-based)' % (', '.join(show(v) for v in vals) or 'whatever the previous call left'))
    # nobody else
    for m in F.modules.values():
        if '.ply' in m.name or m is lm.spec.module:
            continue
        for n in ast.walk(m.tree):
            if isinstance(n, ast.Attribute) and n.attr == 'lineno' and isinstance(n.ctx, ast.Store):
                encl = [q for q, fi in F.functions.items() if fi.module is m and any(x is n for x in ast.walk(fi.node))]
                if not any(x is n for x in reset_nodes):
                    chk.bad(R1, 'lineno written in %s' % (encl[0] if encl else m.name), '%s:%d' % (m.rel, n.lineno), 'the line counter is changed outside the lexer rules and the entry-point resets')

    # ----------------------------------------------------------------- R2, R3
    if not g.error_func or g.error_func not in g.module.defs:
        chk.bad(R2, 'p_error', g.module.rel, 'no p_error')
        return
    node = g.module.defs[g.error_func]
    hooks = [(FuncInfo(g.module.name + '.' + g.error_func, g.module, node), node.args.args[0].arg)]
    # a hook installed over the grammar's own (`parser.errorfunc = self._report`): PLY calls that one, so it is judged the same way
    for m_ in F.modules.values():
        if '.ply' in m_.name:
            continue
        for n_ in ast.walk(m_.tree):
            if isinstance(n_, ast.Assign) and any(isinstance(t_, ast.Attribute) and t_.attr == 'errorfunc' for t_ in n_.targets):
                v_ = n_.value
                q_ = None
                if isinstance(v_, ast.Attribute) and isinstance(v_.value, ast.Name):
                    for cq_, ci_ in F.classes.items():
                        if ci_.module is m_ and v_.attr in ci_.methods and any(x is n_ for x in ast.walk(ci_.node)):
                            q_ = cq_ + '.' + v_.attr
                elif isinstance(v_, ast.Name):
                    r_ = F.resolve_expr(m_, v_)
                    q_ = r_[1] if r_[0] == 'fn' else None
                if q_ is None or q_ not in F.functions:
                    chk.unrec(R2, 'error hook installed at %s:%d' % (m_.rel, n_.lineno), '%s:%d' % (m_.rel, n_.lineno),
                              '`%s` replaces the parser\'s error hook by something that is not a function of the package' % norm(n_))
                    continue
                hfi = F.func(q_)
                hargs = hfi.node.args.args
                is_method = hfi.cls is not None and not any(norm(d) == 'staticmethod' for d in hfi.node.decorator_list)
                hooks.append((hfi, hargs[1 if is_method else 0].arg))
    for fi, pn in hooks:
        tok = ('param', pn)
        problems = []
        for p in SymExec(F, fi).run():
            if any(c == ('cmp', 'is', tok, ('const', None)) and v for c, v, _ in p.assumptions) or \
                    any(c == tok and not v for c, v, _ in p.assumptions):
                continue            # the None path (R3)
            if p.outcome[0] != 'raise':
                problems.append('the hook returns without raising')
                continue
            msg = p.outcome[1]
            if not om.mentions(msg, ('attr', tok, 'value')):
                problems.append('the message does not contain the offending token\'s text (p.value)')
            elif not any(_is_whole(x, ('attr', tok, 'value')) for x in _message_parts(msg)):
                problems.append('on a path the message carries only a part or a transformation of the offending token\'s text (%s)' % ', '.join(
                    show(x) for x in _message_parts(msg) if om.mentions(x, ('attr', tok, 'value'))))
            if _used_as_template(msg, ('attr', tok, 'value')):
                problems.append('the offending token\'s text is part of a format template (`... % args` / `.format(...)` applied to a string that '
                                'contains it): a `%` or a brace in the token - %name% variables, string literals - is interpreted instead of shown')
            if om.mentions(msg, ('attr', ('attr', tok, 'lexer'), 'lineno')):
                problems.append('the message reports p.lexer.lineno, the lexer\'s line *after* the offending token: one too many '
                                'when that token is itself a line break (`1 +<newline>2 2` ...)')
            elif not om.mentions(msg, ('attr', tok, 'lineno')):
                problems.append('the message does not contain the token\'s line (p.lineno)')
            if om.mentions(msg, ('attr', tok, 'type')) and not om.mentions(msg, ('attr', tok, 'value')):
                problems.append('the message names the token type instead of its text')
        chk.require(not problems, R2, fi.qual + ' [token given]', fi.where, '; '.join(sorted(set(problems))) or 'message interpolates p.value and p.lineno')
        # ... and the exception class passes the message on as it was built: a constructor or __str__ of its own that shortens,
        # re-formats or replaces the text can drop the line (the last part of the message) again
        raised = set()
        for p in SymExec(F, fi).run():
            rc_ = common.raised_class(F, p.outcome[1]) if p.outcome[0] == 'raise' else None
            if rc_ is not None and rc_[0] == 'cls' and rc_[1] in F.classes:
                raised.add(rc_[1])
        for cq in sorted({q_ for r_ in (raised or {om.PARSER_ERROR}) for q_ in F.mro(r_)}):     # the classes the hook raises, and their bases
            ci = F.classes.get(cq)
            if ci is None:
                continue
            probs = []
            for mn in ('__str__', '__new__', '__init__'):
                mq = cq + '.' + mn
                if mn not in ci.methods or mq not in F.functions:
                    continue
                mfi = F.func(mq)
                a_ = mfi.node.args
                own = {('param', x.arg) for x in a_.args[1:] + a_.kwonlyargs}
                if a_.vararg:
                    own |= {('param', '*' + a_.vararg.arg), ('star', ('param', '*' + a_.vararg.arg)), ('param', a_.vararg.arg), ('star', ('param', a_.vararg.arg))}
                for p in SymExec(F, mfi).run():
                    if not p.normal:
                        continue
                    if mn == '__str__':
                        r = freeze(p.outcome[1])
                        if not (isinstance(r, tuple) and r[:1] == ('call',) and isinstance(r[2], tuple) and r[2][:1] == ('attr',)
                                and isinstance(r[2][1], tuple) and r[2][1][:1] == ('super',) and r[2][2] == '__str__'):
                            probs.append('%s.__str__ returns %s, not the message' % (cq.rsplit('.', 1)[-1], show(r)[:80]))
                        continue
                    ups = [e for e in p.events if e.kind == 'call' and isinstance(freeze(e.func), tuple) and freeze(e.func)[:1] == ('attr',)
                           and isinstance(freeze(e.func)[1], tuple) and freeze(e.func)[1][:1] == ('super',) and freeze(e.func)[2] == mn]
                    if not ups:
                        probs.append('a path of %s.%s does not hand the message to the base class' % (cq.rsplit('.', 1)[-1], mn))
                    for e in ups:
                        given = [x for x in freeze(e.args) if x != ('param', a_.args[0].arg)]
                        if not given or any(x not in own for x in given):
                            probs.append('`%s` in %s.%s passes on %s instead of the arguments it received' % (
                                e.text(), cq.rsplit('.', 1)[-1], mn, ', '.join(show(x) for x in given if x not in own)[:120] or 'nothing'))
            if probs or any(mn in ci.methods for mn in ('__str__', '__new__', '__init__')):
                chk.require(not probs, R2, '%s keeps the message' % cq, '%s:%d' % (ci.module.rel, ci.node.lineno),
                            '; '.join(sorted(set(probs))[:2]) + ': the text p_error built (token, then line) is changed on its way to the host' if probs
                            else 'the constructor passes its arguments on unchanged')
        problems = []
        nonepaths = SymExec(F, fi, args={pn: ('const', None)}).run()
        for p in nonepaths:
            if p.outcome[0] != 'raise' or not common.is_parser_error(F, common.raised_class(F, p.outcome[1])):
                problems.append('the end-of-input path does not raise ParserError (%s)' % (show(p.outcome[1]) if p.outcome[0] == 'raise' else 'returns'))
                continue
            msg = p.outcome[1]
            args = [v for n, v in msg[2]] if msg[:1] == ('new',) else []
            if not args or not all(is_const(a) and isinstance(a[1], str) for a in args):
                problems.append('the end-of-input message is not a constant text')
            elif not any(w in args[0][1].lower() for w in ('end of input', 'end of text', 'end of file', 'eof', 'end of the')):
                problems.append('the end-of-input message %r does not say that the input ended' % args[0][1])
        chk.require(not problems, R3, fi.qual + ' [None given]', fi.where, '; '.join(sorted(set(problems))) or 'constant "unexpected end of input" ParserError')
    if chk.tier == 'thorough':
        lmod = F.modules.get('smartquery.ply.lex')
        ok = False
        if lmod:
            for n in ast.walk(lmod.tree):
                if isinstance(n, ast.FunctionDef) and n.name == 'token':
                    body = list(ast.walk(n))
                    assigns = [x for x in body if isinstance(x, ast.Assign) and any(isinstance(t, ast.Attribute) and t.attr == 'lineno' and isinstance(t.value, ast.Name) and t.value.id == 'tok' for t in x.targets)]
                    calls = [x for x in body if isinstance(x, ast.Call) and isinstance(x.func, ast.Name) and x.func.id == 'func']
                    if assigns and calls and min(a.lineno for a in assigns) < min(c.lineno for c in calls):
                        ok = True
        chk.require(ok, R2, 'ply.lex.Lexer.token sets tok.lineno before the rule runs', 'smartquery/ply/lex.py',
                    'tok.lineno = self.lineno precedes func(tok)' if ok else 'anchor not found: tok.lineno is not assigned before the rule function is called')


def _used_as_template(t, value) -> bool:
    t = freeze(t)
    if not isinstance(t, tuple) or not t:
        return False
    if t[0] == 'binop' and t[1] == '%' and om.mentions(t[2], value):
        return True
    if t[0] == 'call' and isinstance(t[2], tuple) and t[2][:1] == ('attr',) and t[2][2] in ('format', 'format_map') and om.mentions(t[2][1], value):
        return True
    return any(_used_as_template(x, value) for x in t if isinstance(x, tuple))


def _message_parts(t) -> List[Any]:
    """The pieces a message is put together from (f-string parts, + operands, format / % arguments, exception arguments)."""
    t = freeze(t)
    if not isinstance(t, tuple) or not t:
        return [t]
    if t[0] == 'new':
        out = []
        for _, v in t[2]:
            out.extend(_message_parts(v))
        return out
    if t[0] == 'call' and isinstance(t[2], tuple) and t[2][:2] in (('ref', 'cls'), ('ref', 'builtin'), ('ref', 'ext')) and len(t) > 3 \
            and not (t[2][:2] == ('ref', 'builtin') and t[2][2] in ('str', 'repr', 'format')):
        out = []
        for v in t[3]:
            out.extend(_message_parts(v))
        return out
    if t[0] == 'fstr':
        out = []
        for v in t[1:]:
            out.extend(_message_parts(v[1] if isinstance(v, tuple) and v[:1] == ('fmt',) else v))
        return out
    if t[0] == 'binop' and t[1] in ('+', '%'):
        return _message_parts(t[2]) + _message_parts(t[3])
    if t[0] == 'tuple':
        out = []
        for v in t[1:]:
            out.extend(_message_parts(v))
        return out
    if t[0] == 'call' and isinstance(t[2], tuple) and t[2][:1] == ('attr',) and t[2][2] in ('format', 'join'):
        out = _message_parts(t[2][1])
        for v in t[3]:
            out.extend(_message_parts(v))
        for _, v in t[4]:
            out.extend(_message_parts(v))
        return out
    if t[0] == 'phi':
        return _message_parts(t[3])
    return [t]


def _is_whole(x, value) -> bool:
    x = freeze(x)
    if x == value:
        return True
    if isinstance(x, tuple) and x[:1] == ('call',) and x[2] in (('ref', 'builtin', 'str'), ('ref', 'builtin', 'repr'), ('ref', 'builtin', 'format')) \
            and x[3] and x[3][0] == value:
        return True
    if isinstance(x, tuple) and x[:1] == ('fconv',) and value in x:
        return True
    return False
