"""C04 -- arithmetic stays in bounded-precision decimals; numbers cannot blow up."""
from __future__ import annotations

from typing import Any, Dict, List, Optional, Tuple

from ..facts import AnalysisError
from ..report import Check
from ..symexec import SymExec, freeze, show, Path, Event, closure_paths
from .. import opmodel as om
from .. import functab
from . import numeric as N
from .c03 import units

SUPERLINEAR = {'*', '**', '<<', '@'}
NUMERIC_BUILTINS = {'int', 'float', 'round', 'floor', 'ceil', 'abs', 'sum', 'min', 'max'}


def check(chk: Check) -> None:
    F = chk.facts
    R1 = chk.rule('C04.R1', 'multiplicative operators run on Decimals behind a numeric guard: at every *, **, << site '
                            'applied to program values (operators, compound assignment, compound index assignment) both '
                            'operands are explicit Decimal(...) conversions on every path, and for * both are dominated by an '
                            'isinstance(numeric types) guard', floor=2)
    R2 = chk.rule('C04.R2', 'unbounded Python ints are re-rounded before they escape: no numeric builtin returns '
                            'Decimal(<Python int of unbounded size>) (exact constructor) without a context-rounding step', floor=4)
    R3 = chk.rule('C04.R3', 'the decimal context is never touched anywhere in the package', floor=1)
    R4 = chk.rule('C04.R4', 'numbers are not repeat counts: no number class of the package defines __index__ (str * n and list * n accept '
                            'whatever has one) or re-defines * / ** / <<', floor=1)
    chk.decided += ['the package\'s number class cannot be used as a sequence repeat count and keeps Decimal\'s * and ** (R4)']
    chk.decided += ['clause 1: every multiplicative site computes Decimal x Decimal (context-rounded or ArithmeticError) and * refuses non-numbers (R1)',
                    'clause 2, conversion builtins: which of them can return a number wider than its argument (R2)',
                    'default context untouched (R3)']
    chk.not_decided += ['digit growth of + - / sum min max abs on host int/float operands: a fact about CPython arithmetic '
                        '(int + int gains at most one digit), there is no code shape to check beyond "the operator is linear"']
    chk.trusted += ['decimal.Decimal arithmetic rounds to the context precision or raises (stdlib)']
    seen: Dict[str, Tuple[bool, str, str]] = {}
    sites: Dict[str, str] = {}
    for label, fi, thunk, ignore, where in units(chk):
        for p in thunk():
            for e in p.events:
                if e.kind == 'binop' and e.op in SUPERLINEAR:
                    l, r = e.left, e.right
                    inplace = False
                elif e.kind in ('aug_name', 'aug_sub', 'aug_attr') and e.op in SUPERLINEAR:
                    l = e.d.get('cur') if e.kind == 'aug_name' else ('sub', freeze(e.obj), freeze(e.index)) if e.kind == 'aug_sub' \
                        else ('attr', freeze(e.obj), e.attr)
                    r = e.value
                    inplace = True
                else:
                    continue
                if e.kind != 'binop' and e.kind == 'aug_name' and not isinstance(freeze(l), tuple):
                    continue
                # operands that are provably small Python numbers (lengths, constants) are not program values
                from .c03 import numeric_proven
                if all(_local_number(x) for x in (l, r)):
                    continue
                arm = label[label.index(' [op='):] if (' [op=' in label and not e.depth()) else ''
                unit = e.fn if e.depth() else label.split(' [')[0]
                key = '%s%s :: `%s`' % (unit, arm, e.text())
                wh = '%s:%d' % (fi.module.rel, e.line)
                la, ra = N.is_decimal_ctor(F, l), N.is_decimal_ctor(F, r)
                problems = []
                if inplace or la is None or ra is None:
                    which = [n for n, a in (('left', la), ('right', ra)) if a is None or inplace]
                    problems.append('`%s` is the native Python operator on %s operand(s) that are not Decimal(...) conversions: on host '
                                    'ints it builds arbitrarily long integers%s' % (
                                        e.op, ' and '.join(which) if not inplace else 'stored',
                                        ', on strings/lists it repeats them' if e.op == '*' else ''))
                elif e.op == '*':
                    for side, a in (('left', la), ('right', ra)):
                        if not N.numeric_guarded(F, a, p.assumptions):
                            problems.append('the %s operand `%s` reaches * without an isinstance(numeric types) guard '
                                            '(Decimal("12") would accept a string)' % (side, show(a)))
                if not problems and e.kind == 'binop' and p.outcome[0] == 'return':
                    # the context-rounded result must leave as it is: rebuilding it from its text or through int() turns a
                    # positive exponent into digits (Decimal(format(d, 'f')) of 1E+60 has 61 of them)
                    b_ = ('binop', e.op, freeze(l), freeze(r))
                    v_ = p.outcome[1]
                    while True:
                        inner_ = N.is_decimal_ctor(F, v_)
                        if inner_ is None or not _contains(inner_, b_):
                            break
                        if N.is_decimal_ctor(F, inner_) is None and inner_ != b_:
                            break
                        v_ = inner_
                    if isinstance(v_, tuple) and v_[:1] == ('unop',) and v_[1] in ('+', '-', 'USub', 'UAdd') and _contains(v_, b_):
                        v_ = v_[2]
                    if v_ != b_ and _contains(v_, b_):
                        problems.append('the result of `%s` is rebuilt before it is returned (%s): a conversion through text or int() '
                                        'writes a positive exponent out as digits, so the value that leaves has more than 28 of them'
                                        % (e.op, show(v_)[:160]))
                root_ = label.split(' -> ')[0].split(' [')[0]
                arm_ = label[label.index(' [op='):] if ' [op=' in label else ''
                site_ = 'C04.R1 :: %s%s :: %s' % (root_, arm_, e.op)
                if problems:
                    sites[key] = site_
                    seen[key] = (False, wh, '; '.join(problems))
                else:
                    seen.setdefault(key, (True, wh, 'Decimal(%s) %s Decimal(%s)%s' % (show(la), e.op, show(ra),
                                                                                    ' behind a numeric guard' if e.op == '*' else '')))
    for key, (ok, wh, det) in sorted(seen.items()):
        if ok:
            chk.ok(R1, key, wh, det)
        else:
            chk.bad(R1, key, wh, det, site=sites.get(key))

    # --------------------------------------------------------------------- R2
    tab = functab.table(F)
    for key in sorted(tab):
        ent = tab[key]
        fi = ent.funcinfo(F)
        if fi is None:
            continue
        rets: Dict[str, Tuple[bool, str]] = {}
        numeric_entry = key in NUMERIC_BUILTINS
        for p in SymExec(F, fi).run():
            if not p.normal:
                continue
            t = p.outcome[1]
            arg = N.is_decimal_ctor(F, t)
            if arg is None:
                continue
            numeric_entry = True
            src = N.unbounded_int_source(arg)
            if src is not None:
                # the circumstances under which the unbounded source is reached are part of the finding: `round` without digits is
                # one thing, digits that were given but are dropped on the way (`nd or DEFAULT` for nd = 0) another
                params_ = [a.arg for a in fi.node.args.args]
                conds_ = sorted(('%s' if v_ else 'not %s') % show(c_) for c_, v_, _ in p.assumptions
                                if any(om.mentions(freeze(c_), ('param', pn_)) for pn_ in params_[1:]))
                plain_ = all(isinstance(freeze(c_), tuple) and freeze(c_)[:2] == ('cmp', 'is') and freeze(c_)[3] == ('const', None) and v_
                             for c_, v_, _ in p.assumptions if any(om.mentions(freeze(c_), ('param', pn_)) for pn_ in params_[1:]))
                guard_ = '' if plain_ or not conds_ else ' [reached when %s]' % ' and '.join(conds_)[:120]
                fa_ = freeze(arg)
                as_text_ = isinstance(fa_, tuple) and (fa_[:1] == ('fstr',) or (fa_[:1] == ('call',) and fa_[2] in (
                    ('ref', 'builtin', 'str'), ('ref', 'builtin', 'repr'), ('ref', 'builtin', 'format'))))
                # handed over as a number instead of as text: no int-to-str digit limit on the way, and a float arrives with its
                # whole binary expansion (50+ digits) instead of its shortest spelling - another finding than the one through str()
                route_ = '' if as_text_ else ' handed to the constructor as a number'
                rets['exact Decimal of ' + N.source_kind(arg) + route_ + guard_] = (
                    False, 'returns Decimal(%s): the constructor is exact, so the digits of unbounded number escape un-rounded '
                           '(e.g. a 1-digit Decimal with exponent 99999 becomes a 100000-digit number)%s' % (
                               src, '' if as_text_ else '; a float argument arrives with its full binary expansion'))
            else:
                rets.setdefault(show(arg), (True, 'returns Decimal(%s)' % show(arg)))
        if not numeric_entry:
            continue
        bad = {k: v for k, v in rets.items() if not v[0]}
        where = '%s:%d' % (fi.module.rel, ent.line)
        for k, v in sorted(bad.items()):
            chk.bad(R2, '%s :: %s' % (ent.label, k), where, v[1])
        if not bad:
            chk.ok(R2, ent.label, where, '; '.join(v[1] for v in rets.values()) or 'returns its argument / a Python builtin result')

    N.context_untouched(chk, R3)

    # --------------------------------------------------------------------- R4
    # what str * n and list * n accept is anything with __index__; decimal.Decimal deliberately has none, which is why
    # "ab" * Decimal(3) is a TypeError.  The package's own number class must not grow one, nor re-define the operators whose
    # context rounding the other rules rely on.
    n4 = 0
    for cq, ci in sorted(F.classes.items()):
        if '.ply' in ci.module.name:
            continue
        bases = F.ext_bases(cq)
        if not any(b in ('decimal.Decimal', 'int', 'float', 'fractions.Fraction') for b in bases):
            continue
        n4 += 1
        bad4 = sorted(m for m in ci.methods if m in ('__index__', '__mul__', '__rmul__', '__imul__', '__pow__', '__rpow__', '__ipow__',
                                                     '__lshift__', '__rlshift__'))
        chk.require(not bad4, R4, '%s (number class)' % cq, '%s:%d' % (ci.module.rel, ci.node.lineno),
                    'defines %s: %s' % (', '.join(bad4), 'with __index__ every literal is accepted as a repeat count by str * n and list * n '
                                        '(`s *= 3` repeats the string)' if '__index__' in bad4 else 'multiplication / exponentiation no longer '
                                        'is the context-rounded Decimal operation') if bad4 else
                    'inherits *, ** from %s and has no __index__' % ', '.join(bases))
    N.number_constructor(chk, R4)
    # ... and the numbers programs write are those Decimals: the numeral's value reaches the literal node and its result unchanged
    # (an interning table keyed by == hands the int-like True out for the literal 1, and `n *= n` on it is Python int arithmetic)
    from .c08 import literal_carries_numeral, number_token
    from .. import ctx as C_
    lm_ = C_.lexmodel(F)
    NUM_ = number_token(lm_)
    literal_carries_numeral(chk, R4, NUM_, '%s:%d' % (lm_.spec.module.rel, lm_.rules[NUM_].rule.line))
    if n4 == 0:
        chk.ok(R4, 'number classes', 'smartquery/custom_types.py', 'the package defines no subclass of a numeric type')


def _contains(t, sub) -> bool:
    if t == sub:
        return True
    if isinstance(t, tuple):
        return any(_contains(x, sub) for x in t)
    return False


def _local_number(t) -> bool:
    from ..symexec import is_const
    t = freeze(t)
    if is_const(t):
        return isinstance(t[1], (int, float))
    if isinstance(t, tuple) and t[:2] == ('pcall', 'len'):
        return True
    if isinstance(t, tuple) and t and t[0] == 'binop':
        return _local_number(t[2]) and _local_number(t[3])
    if isinstance(t, tuple) and t and t[0] == 'phi':
        return _local_number(t[3])
    if isinstance(t, tuple) and t and t[0] == 'elem':
        # loop variable over range(...)
        it = t[1]
        return isinstance(it, tuple) and it[:1] == ('call',) and it[2] == ('ref', 'builtin', 'range')
    return False
