"""Action templates: every ``p_*`` function partially evaluated once per
production alternative.

``len(p)`` and ``p.slice[i].type`` are constants, ``p[i]`` is a symbol ``$i``
whose kind follows from the grammar symbol at position i (token text / Op /
list of Op ...).  Non-recursive list-valued non-terminals whose alternatives
build concrete lists (today: ``slice``) are inlined alternative by
alternative so that loops over them run on a known spine.
"""
from __future__ import annotations

import ast
from dataclasses import dataclass, field
from typing import Any, Dict, List, Optional, Set, Tuple

from .facts import Facts, FuncInfo, AnalysisError, norm
from .grammar import Grammar, Production
from .lexmodel import LexModel
from .symexec import Unrecognised, SymExec, Path, ProdVal, ListVal, DictVal, freeze, show, is_const, Event
from . import opmodel as om


@dataclass
class Template:
    prod: Production
    inlined: Tuple[Tuple[int, int], ...]      # (rhs position, production index) of inlined non-terminals
    result: Any                               # frozen term, or None when the action raises
    raises: Optional[Any]                     # raised term
    events: List[Event]
    assumptions: List[Tuple[Any, bool]]
    result_set: bool = True

    @property
    def key(self) -> str:
        s = str(self.prod)
        if self.inlined:
            s += ' [' + ', '.join('$%d=%d' % (i, q) for i, q in self.inlined) + ']'
        return s

    def show(self) -> str:
        if self.raises is not None:
            return 'raises %s' % show(self.raises)
        return show(self.result)


@dataclass
class Templates:
    grammar: Grammar
    by_prod: Dict[int, List[Template]]
    kinds: Dict[str, Set[str]]               # non-terminal -> kinds of its semantic value
    inlinable: Set[str]

    def all(self) -> List[Template]:
        out = []
        for i in sorted(self.by_prod):
            out.extend(self.by_prod[i])
        return out

    def of(self, prod: Production) -> List[Template]:
        return self.by_prod.get(prod.index, [])


def _classify(F: Facts, v) -> Set[str]:
    fv = freeze(v)
    if isinstance(v, ListVal) or (isinstance(fv, tuple) and fv and fv[0] == 'list'):
        return {'list'}
    if isinstance(fv, tuple) and fv:
        if fv[0] == 'const':
            return {'none'} if fv[1] is None else {'scalar'}
        if fv[0] == 'new':
            return {'op'} if F.is_subclass(fv[1], om.ROOT) else {'object'}
        if fv[0] == 'sym':
            return set(fv[4]) if len(fv) > 4 else {'op'}
        if fv[0] == 'unop' or fv[0] == 'sub':
            return _classify(F, fv[2] if fv[0] == 'unop' else fv[1])
        if fv[0] == 'symlist':
            return {'list'}
        if fv[0] == 'tok':
            return {'scalar'}
        if fv[0] == 'binop' and fv[1] == '+':
            return _classify(F, fv[2]) | _classify(F, fv[3])
    return {'unknown'}


def build(F: Facts, g: Grammar, lm: LexModel) -> Templates:
    nts = g.nonterminals
    kinds: Dict[str, Set[str]] = {n: set() for n in nts}      # least fixpoint, from bottom
    inlinable: Set[str] = set()
    inline_values: Dict[str, List[Tuple[int, Any]]] = {}
    by_prod: Dict[int, List[Template]] = {}
    for round_ in range(8):
        new_kinds: Dict[str, Set[str]] = {n: set() for n in nts}
        by_prod = {}
        inline_values_next: Dict[str, List[Tuple[int, Any]]] = {}
        for p in g.productions[1:]:
            try:
                tpls = _templates_for(F, g, lm, p, kinds, inlinable, inline_values)
            except Unrecognised:
                # while the kinds of the right-hand side symbols are still being computed (first rounds of the fixpoint) an
                # action may meet a value it cannot take apart yet; the production is looked at again in the next round
                if all(s not in kinds or kinds[s] for s in p.rhs):
                    raise
                tpls = []
            by_prod[p.index] = tpls
            for t in tpls:
                if t.raises is None:
                    # a path taken on an assumption about a symbol whose kinds are not known yet (first rounds) is
                    # provisional: it must not feed the kinds it was waiting for (least fixpoint from below)
                    if any(_mentions_unkinded_sym(c) for c, _ in t.assumptions):
                        continue
                    new_kinds[p.lhs] |= _classify(F, t.result)
        # non-recursive non-terminals all of whose alternatives build a concrete list are inlined
        new_inl = set()
        for n in nts:
            if n == g.start:
                continue
            alts = g.by_lhs(n)
            ok = bool(alts)
            vals = []
            for p in alts:
                for t in by_prod[p.index]:
                    r = t.result
                    if t.raises is not None or not (isinstance(r, tuple) and r and r[0] == 'list') or \
                            any(isinstance(x, tuple) and x and x[0] == 'star' for x in r[1:]) or t.events_effects():
                        ok = False
                    vals.append((p.index, r))
                if len(by_prod[p.index]) != 1:
                    ok = False
            if ok:
                new_inl.add(n)
                inline_values_next[n] = vals
        if new_kinds == kinds and new_inl == inlinable:
            break
        kinds, inlinable, inline_values = new_kinds, new_inl, inline_values_next
    else:
        raise AnalysisError('action templates: kinds of the non-terminals did not stabilise')
    return Templates(g, by_prod, kinds, inlinable)


def _mentions_unkinded_sym(t) -> bool:
    if isinstance(t, tuple):
        if t[:1] == ('sym',) and len(t) > 4 and t[4] == ():
            return True
        return any(_mentions_unkinded_sym(x) for x in t)
    return False


def _recursive_nts(g: Grammar) -> Set[str]:
    nts = set(g.nonterminals)
    reach: Dict[str, Set[str]] = {n: set() for n in nts}
    for p in g.productions[1:]:
        for s in p.rhs:
            if s in nts:
                reach[p.lhs].add(s)
    changed = True
    while changed:
        changed = False
        for n in nts:
            for m in list(reach[n]):
                add = reach[m] - reach[n]
                if add:
                    reach[n] |= add
                    changed = True
    return {n for n in nts if n in reach[n]}


def _effects(events: List[Event]) -> List[Event]:
    out = []
    for e in events:
        if e.kind in ('assume', 'return', 'prod_result', 'loop_skip'):
            continue
        if e.kind == 'call' and (e.d.get('ctor') or e.d.get('on_fresh_list') or e.d.get('inlined')):
            continue
        if e.kind == 'call' and isinstance(e.func, tuple) and e.func[:2] == ('ref', 'builtin') \
                and e.func[2] in ('isinstance', 'len'):
            continue
        if e.kind == 'binop':
            continue
        out.append(e)
    return out


Template.events_effects = lambda self: _effects(self.events)  # type: ignore


def symbol_value(g: Grammar, lm: LexModel, kinds, sym: str, pos: str):
    nts = set(g.nonterminals)
    if sym in nts:
        k = kinds.get(sym, set())
        if k == {'list'}:
            return ('symlist', pos, sym)
        return ('sym', pos, sym, om.ROOT if 'op' in k else None, tuple(sorted(k)))
    if sym in getattr(lm, 'const_value', {}):
        return ('const', lm.const_value[sym])
    texts = lm.token_texts.get(sym)
    raw = lm.raw_value.get(sym, False)
    if raw and texts is not None and len(texts) == 1:
        return ('const', next(iter(texts)))
    return ('tok', pos, sym)


def _templates_for(F, g, lm, p: Production, kinds, inlinable, inline_values) -> List[Template]:
    node = g.funcs.get(p.func)
    if node is None:
        raise AnalysisError('grammar action %s vanished' % p.func)
    fi = FuncInfo(g.module.name + '.' + p.func, g.module, node)
    pname = node.args.args[0].arg if node.args.args else None
    if pname is None:
        raise AnalysisError('grammar action %s takes no argument' % p.func)
    # choices for inlined non-terminals
    combos: List[List[Tuple[int, Optional[int], Any]]] = [[]]
    for i, s in enumerate(p.rhs, 1):
        if s in inlinable and s in inline_values:
            nxt = []
            for c in combos:
                for q, val in inline_values[s]:
                    nxt.append(c + [(i, q, val)])
            combos = nxt
        else:
            combos = [c + [(i, None, None)] for c in combos]
    out: List[Template] = []
    for combo in combos:
        def mk():
            vals = []
            for (i, q, val), s in zip(combo, p.rhs):
                if q is None:
                    vals.append(symbol_value(g, lm, kinds, s, str(i)))
                else:
                    vals.append(_thaw(_renumber(val, str(i))))
            return ProdVal(p.lhs, p.rhs, vals)

        class _SE(SymExec):
            def _run_once(self, prefix):
                self._reset(prefix)
                self._pending_prod = mk()
                return SymExec._run_once(self, prefix)

            def _bind_params(self, fr, node_, args, kwargs, top=False):
                r = SymExec._bind_params(self, fr, node_, args, kwargs, top)
                if top:
                    fr.env[pname] = self._pending_prod
                    self.prod = self._pending_prod
                return r

            def _reset(self, prefix):
                SymExec._reset(self, prefix)

        se = _SE(F, fi)
        paths = se.run()
        for pth in paths:
            inl = tuple((i, q) for i, q, _ in combo if q is not None)
            assump = [(freeze(c), v) for c, v, _ in pth.assumptions]
            if pth.outcome[0] == 'raise':
                out.append(Template(p, inl, None, pth.outcome[1], pth.events, assump))
            else:
                pv = pth.prod
                out.append(Template(p, inl, freeze(pv.result) if pv is not None else ('const', None), None,
                                    pth.events, assump, result_set=bool(pv and pv.result_set)))
    return out


def _renumber(t, prefix: str):
    """$k inside an inlined alternative becomes $prefix.k"""
    if isinstance(t, tuple):
        if t and t[0] in ('sym', 'symlist', 'tok') and isinstance(t[1], str):
            return (t[0], prefix + '.' + t[1]) + tuple(t[2:])
        return tuple(_renumber(x, prefix) for x in t)
    return t


def _thaw(t):
    """Frozen ('list', ...) back to a ListVal with a known spine."""
    if isinstance(t, tuple) and t and t[0] == 'list':
        return ListVal([_thaw(x) for x in t[1:]], id(t) & 0xffff)
    return t


# ------------------------------------------------------------ term utilities
def symbols_in(t) -> List[Tuple[str, str]]:
    """($position, grammar symbol) of every symbol occurring in a term, in term order."""
    out = []

    def walk(x):
        if isinstance(x, tuple):
            if x and x[0] in ('sym', 'symlist', 'tok') and isinstance(x[1], str):
                out.append((x[1], x[2]))
                return
            for y in x:
                walk(y)
    walk(t)
    return out


def as_symlist(v):
    """The list-valued grammar symbol a field holds: `p[i]` itself or a copy of it (`[*p[i]]`, `list(p[i])`); else None."""
    if isinstance(v, tuple) and v[:1] == ('symlist',):
        return v
    if isinstance(v, tuple) and v[:1] == ('list',) and len(v) == 2 and isinstance(v[1], tuple) and v[1][:1] == ('star',) \
            and isinstance(v[1][1], tuple) and v[1][1][:1] == ('symlist',):
        return v[1][1]
    return None


def new_nodes(t) -> List[Tuple[str, Tuple]]:
    """All ('new', cls, fields) sub-terms."""
    out = []

    def walk(x):
        if isinstance(x, tuple):
            if x and x[0] == 'new':
                out.append((x[1], x[2]))
            for y in x:
                walk(y)
    walk(t)
    return out


def strip_ids(t):
    """Remove construction ids so that templates compare structurally."""
    if isinstance(t, tuple):
        if t and t[0] == 'new':
            return ('new', t[1], tuple((n, strip_ids(v)) for n, v in t[2]))
        if t and t[0] == 'call' and len(t) >= 5:
            return ('call', 0, strip_ids(t[2]), strip_ids(t[3]), strip_ids(t[4]))
        return tuple(strip_ids(x) for x in t)
    return t


def pos_key(pos: str) -> Tuple[int, ...]:
    return tuple(int(x) for x in pos.split('.'))
