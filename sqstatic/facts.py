"""Fact base: parsed modules of /repo/smartquery, import tables, name
resolution, class hierarchy, the FUNCTIONS table.

Everything is computed from source text with ``ast``; nothing is imported.
"""
from __future__ import annotations

import ast
import builtins
import hashlib
import os
from dataclasses import dataclass, field
from typing import Any, Dict, List, Optional, Tuple

PKG = 'smartquery'


class AnalysisError(Exception):
    """Anchor vanished / idiom not recognised / floor not met.

    Never a property verdict: the driver turns it into exit code 2.
    """


def norm(node: ast.AST) -> str:
    """Normalised source text of a node (stable under re-formatting)."""
    try:
        return ast.unparse(node)
    except Exception:  # pragma: no cover
        return '<%s>' % type(node).__name__


@dataclass
class Module:
    name: str                      # dotted, e.g. smartquery.ast_ops
    path: str
    src: str
    tree: ast.Module
    imports: Dict[str, str] = field(default_factory=dict)      # alias -> dotted target
    defs: Dict[str, ast.AST] = field(default_factory=dict)     # top-level def/class
    assigns: Dict[str, List[ast.AST]] = field(default_factory=dict)  # top-level name -> value nodes
    rel: str = ''

    def short(self) -> str:
        return self.rel


@dataclass
class FuncInfo:
    qual: str                      # smartquery.ast_ops.BinOp.eval
    module: Module
    node: ast.AST                  # FunctionDef or Lambda
    cls: Optional[str] = None      # qualified class name if a method
    captured: Any = None           # closure object when the function was made by a factory at import time (its free variables)

    @property
    def where(self) -> str:
        return '%s:%d' % (self.module.rel, getattr(self.node, 'lineno', 0))


@dataclass
class ClassInfo:
    qual: str
    module: Module
    node: ast.ClassDef
    bases: List[Tuple[str, str]]   # resolved refs
    methods: Dict[str, ast.FunctionDef]
    fields: List[Tuple[str, Optional[ast.AST], Optional[ast.AST]]]  # name, annotation, default
    is_dataclass: bool = False


class Facts:
    def __init__(self, repo: str):
        self.repo = os.path.abspath(repo)
        self.pkgdir = os.path.join(self.repo, PKG)
        if not os.path.isdir(self.pkgdir):
            raise AnalysisError('package directory %s not found' % self.pkgdir)
        self.modules: Dict[str, Module] = {}
        self.digest_parts: List[Tuple[str, str]] = []
        for fn in sorted(os.listdir(self.pkgdir)):
            if fn.endswith('.py'):
                self._load(os.path.join(self.pkgdir, fn), PKG + '.' + fn[:-3] if fn != '__init__.py' else PKG)
        # sub-packages of the package's own code (the vendored ply/ and the generated gen/ tables are not)
        for root, dirs, files in os.walk(self.pkgdir):
            dirs[:] = sorted(d for d in dirs if d not in ('ply', 'gen', '__pycache__') and not d.startswith('.'))
            if root == self.pkgdir or '__init__.py' not in files:
                if root != self.pkgdir:
                    dirs[:] = []
                continue
            pk = PKG + '.' + os.path.relpath(root, self.pkgdir).replace(os.sep, '.')
            for fn in sorted(files):
                if fn.endswith('.py'):
                    self._load(os.path.join(root, fn), pk + '.' + fn[:-3] if fn != '__init__.py' else pk)
        plydir = os.path.join(self.pkgdir, 'ply')
        for fn in ('lex.py', 'yacc.py'):
            p = os.path.join(plydir, fn)
            if os.path.exists(p):
                self._load(p, PKG + '.ply.' + fn[:-3])
        self.classes: Dict[str, ClassInfo] = {}
        self.functions: Dict[str, FuncInfo] = {}
        for m in self.modules.values():
            if '.ply.' in m.name:
                continue
            self._index(m)

    # ------------------------------------------------------------------ load
    def _load(self, path: str, name: str) -> None:
        with open(path, 'rb') as f:
            raw = f.read()
        self.digest_parts.append((os.path.relpath(path, self.repo), hashlib.sha256(raw).hexdigest()))
        src = raw.decode('utf-8')
        try:
            tree = ast.parse(src, filename=path)
        except SyntaxError as e:
            raise AnalysisError('cannot parse %s: %s' % (path, e))
        # positional-only parameters (`def f(a, b, /)`) are ordinary parameters for every analysis here
        for n_ in ast.walk(tree):
            if isinstance(n_, (ast.FunctionDef, ast.AsyncFunctionDef, ast.Lambda)) and n_.args.posonlyargs:
                n_.args.args = list(n_.args.posonlyargs) + list(n_.args.args)
                n_.args.posonlyargs = []
        m = Module(name=name, path=path, src=src, tree=tree, rel=os.path.relpath(path, self.repo))
        for st in tree.body:
            if isinstance(st, ast.Import):
                for a in st.names:
                    m.imports[a.asname or a.name.split('.')[0]] = a.name if a.asname else a.name.split('.')[0]
            elif isinstance(st, ast.ImportFrom):
                base = st.module or ''
                if st.level:
                    parts = name.split('.')
                    # a module's package is its parent
                    pk = parts[:-1] if not path.endswith('__init__.py') else parts
                    pk = pk[:len(pk) - (st.level - 1)] if st.level > 1 else pk
                    base = '.'.join(pk + ([base] if base else []))
                for a in st.names:
                    if a.name == '*':
                        m.__dict__.setdefault('star_imports', []).append(base)      # from X import *
                        continue
                    m.imports[a.asname or a.name] = base + '.' + a.name
            elif isinstance(st, (ast.FunctionDef, ast.AsyncFunctionDef, ast.ClassDef)):
                m.defs[st.name] = st
            elif isinstance(st, ast.Assign):
                for t in st.targets:
                    if isinstance(t, (ast.Tuple, ast.List)) and isinstance(st.value, (ast.Tuple, ast.List)) \
                            and len(t.elts) == len(st.value.elts) and all(isinstance(x, ast.Name) for x in t.elts) \
                            and not any(isinstance(x, ast.Starred) for x in st.value.elts):
                        # A, B = 'a', 'b': each name with its own value
                        for x, v in zip(t.elts, st.value.elts):
                            m.assigns.setdefault(x.id, []).append(v)
                        continue
                    for n in _target_names(t):
                        m.assigns.setdefault(n, []).append(st.value if isinstance(t, ast.Name) else None)
            elif isinstance(st, ast.AnnAssign) and isinstance(st.target, ast.Name):
                m.assigns.setdefault(st.target.id, []).append(st.value)
            elif isinstance(st, ast.AugAssign) and isinstance(st.target, ast.Name):
                m.assigns.setdefault(st.target.id, []).append(None)
        # names rebound inside functions through ``global``
        for node in ast.walk(tree):
            if isinstance(node, ast.Global):
                for n in node.names:
                    m.assigns.setdefault(n, []).append(None)
        self.modules[name] = m

    def digest(self) -> str:
        h = hashlib.sha256()
        for rel, d in sorted(self.digest_parts):
            if '/gen/' in rel:
                continue
            h.update(rel.encode())
            h.update(d.encode())
        return h.hexdigest()

    def _index(self, m: Module) -> None:
        for name, node in m.defs.items():
            if isinstance(node, ast.ClassDef):
                qual = m.name + '.' + name
                methods = {s.name: s for s in node.body if isinstance(s, ast.FunctionDef)}
                flds = []
                for s in node.body:
                    if isinstance(s, ast.AnnAssign) and isinstance(s.target, ast.Name):
                        flds.append((s.target.id, s.annotation, s.value))
                isdc = any(self._is_dataclass_deco(m, d) for d in node.decorator_list)
                self.classes[qual] = ClassInfo(qual, m, node, [], methods, flds, isdc)
                for mn, mnode in methods.items():
                    self.functions[qual + '.' + mn] = FuncInfo(qual + '.' + mn, m, mnode, cls=qual)
            elif isinstance(node, ast.FunctionDef):
                self.functions[m.name + '.' + name] = FuncInfo(m.name + '.' + name, m, node)
        # bases after all classes are known (second pass in finish())

    def finish(self) -> 'Facts':
        for ci in self.classes.values():
            ci.bases = [self.resolve_expr(ci.module, b) for b in ci.node.bases]
        return self

    def _is_dataclass_deco(self, m: Module, d: ast.AST) -> bool:
        if isinstance(d, ast.Call):
            d = d.func
        r = self.resolve_expr(m, d)
        return r == ('ext', 'dataclasses.dataclass')

    # --------------------------------------------------------------- resolve
    def resolve_name(self, m: Module, name: str, _seen=None) -> Tuple[str, Any]:
        """Resolve a module-level name.

        Returns one of
          ('fn', qual) ('cls', qual) ('const', value) ('modvar', 'mod.name')
          ('ext', dotted) ('extmod', dotted) ('pkgmod', dotted)
          ('builtin', name) ('unbound', name)
        """
        _seen = _seen or set()
        key = (m.name, name)
        if key in _seen:
            return ('unbound', name)
        _seen.add(key)
        if name in m.defs:
            node = m.defs[name]
            return ('cls' if isinstance(node, ast.ClassDef) else 'fn', m.name + '.' + name)
        if name in m.assigns:
            vals = m.assigns[name]
            if len(vals) == 1 and vals[0] is not None:
                v = vals[0]
                c = literal_const(v)
                if c is not _NOCONST:
                    return ('const', c)
                # simple alias:  _clone = copy.deepcopy
                if isinstance(v, (ast.Name, ast.Attribute)):
                    r = self.resolve_expr(m, v, _seen)
                    if r[0] in ('fn', 'cls', 'ext', 'builtin', 'const', 'extmod', 'pkgmod'):
                        return r            # (`_rng = random`: the module behind an indirection point, as bound by the module body)
            return ('modvar', m.name + '.' + name)
        if name in m.imports:
            return self.resolve_dotted(m.imports[name], _seen)
        for base in m.__dict__.get('star_imports', []):
            # from X import *: the public names of X (its __all__ when it has one); a package exports its __init__'s names
            sm = self.modules.get(base)
            if sm is None or name.startswith('_') and '__all__' not in sm.assigns:
                continue
            allv = sm.assigns.get('__all__')
            if allv and len(allv) == 1 and isinstance(allv[0], (ast.List, ast.Tuple)) and all(isinstance(x, ast.Constant) for x in allv[0].elts):
                if name not in [x.value for x in allv[0].elts]:
                    continue
            r = self.resolve_name(sm, name, _seen)
            if r[0] not in ('unbound', 'builtin'):
                return r
        if hasattr(builtins, name):
            return ('builtin', name)
        return ('unbound', name)

    def resolve_dotted(self, dotted: str, _seen=None) -> Tuple[str, Any]:
        if dotted in self.modules:
            return ('pkgmod', dotted)
        if dotted == PKG or dotted.startswith(PKG + '.'):
            head, _, last = dotted.rpartition('.')
            if head in self.modules and '.ply' not in head:
                return self.resolve_name(self.modules[head], last, _seen)
            if head in self.modules:
                return ('ext', dotted)
            return ('ext', dotted)
        # external: module or attribute of a module -- decided by a small table
        top = dotted.split('.')[0]
        if dotted in KNOWN_EXT_MODULES:
            return ('extmod', dotted)
        if top in KNOWN_EXT_MODULES or True:
            return ('ext', dotted) if '.' in dotted else ('extmod', dotted)

    def resolve_expr(self, m: Module, e: ast.AST, _seen=None) -> Tuple[str, Any]:
        if isinstance(e, ast.Name):
            return self.resolve_name(m, e.id, _seen)
        if isinstance(e, ast.Attribute):
            b = self.resolve_expr(m, e.value, _seen)
            return self.attr_of(b, e.attr)
        if isinstance(e, ast.Subscript):     # List[Op] etc. -> List
            return self.resolve_expr(m, e.value, _seen)
        c = literal_const(e)
        if c is not _NOCONST:
            return ('const', c)
        return ('unbound', norm(e))

    def attr_of(self, b: Tuple[str, Any], attr: str) -> Tuple[str, Any]:
        if b[0] == 'extmod':
            d = b[1] + '.' + attr
            return ('extmod', d) if d in KNOWN_EXT_MODULES else ('ext', d)
        if b[0] == 'pkgmod':
            if '.ply' in b[1]:
                return ('ext', b[1] + '.' + attr)
            sub = b[1] + '.' + attr
            if sub in self.modules:
                return ('pkgmod', sub)
            return self.resolve_name(self.modules[b[1]], attr)
        if b[0] == 'builtin':
            return ('ext', b[1] + '.' + attr)        # str.lower, dict.fromkeys ...
        if b[0] == 'ext':
            return ('ext', b[1] + '.' + attr)
        if b[0] == 'cls':
            ci = self.classes.get(b[1])
            if ci is not None:
                f = self.find_method(b[1], attr)
                if f:
                    return ('fn', f)
            return ('ext', b[1] + '.' + attr)
        return ('unbound', '%s.%s' % (b[1], attr))

    def host_only_functions(self) -> set:
        """Module-level functions of the package that no code of the package refers to (no call, no reference by name or as an
        attribute; imports and __all__ do not count): entry points for the host alone - configuration API such as
        `set_error_hooks(...)`.  What they change is configuration chosen by the host, not state left behind by a call."""
        cache = self.__dict__.get('_host_only')
        if cache is not None:
            return cache
        used = set()
        for m in self.modules.values():
            if '.ply' in m.name:
                continue
            for n in ast.walk(m.tree):
                if isinstance(n, ast.Name) and isinstance(n.ctx, ast.Load):
                    used.add(n.id)
                elif isinstance(n, ast.Attribute):
                    used.add(n.attr)
        out = set()
        for q, fi in self.functions.items():
            if '.ply' in fi.module.name or fi.cls or not isinstance(fi.node, ast.FunctionDef):
                continue
            nm = fi.node.name
            if q == fi.module.name + '.' + nm and nm not in used and not nm.startswith(('t_', 'p_')) and not fi.node.decorator_list:
                out.add(q)
        self.__dict__['_host_only'] = out
        return out

    # ---------------------------------------------------------------- classes
    def mro(self, qual: str) -> List[str]:
        out, todo = [], [qual]
        while todo:
            q = todo.pop(0)
            if q in out:
                continue
            out.append(q)
            ci = self.classes.get(q)
            if ci:
                for k, b in ci.bases:
                    if k == 'cls':
                        todo.append(b)
        return out

    def ext_bases(self, qual: str) -> List[str]:
        """External (non-package) base classes reachable from qual."""
        out = []
        for q in self.mro(qual):
            ci = self.classes.get(q)
            if ci:
                for k, b in ci.bases:
                    if k in ('ext', 'builtin'):
                        out.append(b)
        return out

    def is_subclass(self, qual: str, base: str) -> bool:
        return base in self.mro(qual)

    def find_method(self, qual: str, name: str, after: Optional[str] = None) -> Optional[str]:
        """Qualified name of the method ``name`` as seen from class ``qual``.

        ``after``: start looking after that class in the MRO (super()).
        """
        mro = self.mro(qual)
        if after is not None and after in mro:
            mro = mro[mro.index(after) + 1:]
        for q in mro:
            ci = self.classes.get(q)
            if ci and name in ci.methods:
                return q + '.' + name
        return None

    def subclasses(self, base: str) -> List[str]:
        return [q for q in self.classes if base in self.mro(q)]

    def all_fields(self, qual: str, ctor: bool = False) -> List[Tuple[str, Optional[ast.AST], Optional[ast.AST], str]]:
        """Annotated instance attributes in definition order (base first); ClassVar annotations are class attributes, not
        fields.  ctor=True: the parameters of the generated dataclass __init__ - only classes that are themselves dataclasses
        contribute (annotations of a plain mixin are not fields)."""
        out: List[Tuple[str, Optional[ast.AST], Optional[ast.AST], str]] = []
        for q in reversed(self.mro(qual)):
            ci = self.classes.get(q)
            if ci:
                if ctor and not ci.is_dataclass:
                    continue
                for n, a, d in ci.fields:
                    if a is not None and 'ClassVar' in ast.dump(a):
                        continue
                    out = [x for x in out if x[0] != n]
                    out.append((n, a, d, q))
        return out

    def module_of(self, qual: str) -> Module:
        parts = qual.split('.')
        for i in range(len(parts), 0, -1):
            mn = '.'.join(parts[:i])
            if mn in self.modules:
                return self.modules[mn]
        raise AnalysisError('no module for %s' % qual)

    def func(self, qual: str) -> FuncInfo:
        fi = self.functions.get(qual)
        if fi is None:
            raise AnalysisError('anchor vanished: function %s' % qual)
        return fi

    def cls(self, qual: str) -> ClassInfo:
        ci = self.classes.get(qual)
        if ci is None:
            raise AnalysisError('anchor vanished: class %s' % qual)
        return ci


_NOCONST = object()


def literal_const(v: Optional[ast.AST]):
    if isinstance(v, ast.Constant):
        return v.value
    if isinstance(v, ast.UnaryOp) and isinstance(v.op, (ast.USub, ast.UAdd)) and isinstance(v.operand, ast.Constant) \
            and isinstance(v.operand.value, (int, float)):
        return -v.operand.value if isinstance(v.op, ast.USub) else v.operand.value
    return _NOCONST


def _target_names(t: ast.AST):
    if isinstance(t, ast.Name):
        yield t.id
    elif isinstance(t, (ast.Tuple, ast.List)):
        for e in t.elts:
            yield from _target_names(e)
    elif isinstance(t, ast.Starred):
        yield from _target_names(t.value)


KNOWN_EXT_MODULES = {
    'copy', 'math', 'random', 'functools', 'decimal', 'regex', 're', 'os', 'os.path', 'sys', 'io', 'subprocess',
    'socket', 'importlib', 'pickle', 'ctypes', 'typing', 'abc', 'dataclasses', 'contextlib', 'pathlib',
    'itertools', 'operator', 'collections', 'collections.abc', 'json', 'time', 'signal', 'shutil', 'tempfile',
    'builtins', 'string', 'numbers', 'fractions', 'heapq', 'bisect', 'logging', 'threading', 'multiprocessing',
    'urllib', 'urllib.request', 'http', 'http.client', 'marshal', 'shelve', 'inspect', 'types', 'gc', 'weakref',
    'prompt_toolkit', 'statistics', 'datetime', 'warnings', 'traceback', 'codecs', 'struct', 'zlib', 'base64',
    'hashlib', 'secrets', 'enum', 'textwrap', 'unicodedata', 'locale', 'platform', 'atexit', 'runpy', 'code',
    'codeop', 'pdb', 'ast', 'dis', 'symtable', 'tokenize', 'glob', 'fnmatch', 'asyncio', 'concurrent',
    'concurrent.futures', 'queue', 'select', 'selectors', 'ssl', 'ftplib', 'smtplib', 'webbrowser', 'pty', 'fcntl',
    'resource', 'mmap', 'sqlite3', 'dbm', 'zipfile', 'tarfile', 'gzip', 'bz2', 'lzma', 'csv', 'configparser',
    'copyreg', 'pkgutil', 'zipimport', 'site', 'sysconfig', 'faulthandler', 'tracemalloc', '_thread', 'posix',
}


_CACHE: Dict[str, Facts] = {}


def load(repo: str) -> Facts:
    repo = os.path.abspath(repo)
    f = Facts(repo).finish()
    return f
