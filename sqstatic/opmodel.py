"""Shared queries about the Op hierarchy and its eval methods."""
from __future__ import annotations

import ast
from typing import Any, Dict, List, Optional, Tuple

from .facts import Facts, FuncInfo, AnalysisError, norm
from .symexec import SymExec, Path, Event, freeze, show, is_const, Closure, closure_paths

AST_OPS = 'smartquery.ast_ops'
ROOT = AST_OPS + '.Op'
PARSER_ERROR = 'smartquery.exceptions.ParserError'
EVAL = 'eval'


def root(F: Facts) -> str:
    if ROOT not in F.classes:
        raise AnalysisError('anchor vanished: class %s' % ROOT)
    if EVAL not in F.cls(ROOT).methods:
        raise AnalysisError('anchor vanished: %s.eval' % ROOT)
    return ROOT


def op_classes(F: Facts) -> List[str]:
    """All classes of the Op hierarchy, root first, then definition order."""
    r = root(F)
    subs = [q for q in F.subclasses(r) if q != r]
    subs.sort(key=lambda q: (F.cls(q).module.name, F.cls(q).node.lineno))
    prepare(F, [r] + subs)
    return [r] + subs


def prepare(F: Facts, classes: Optional[List[str]] = None) -> None:
    """A node class that inherits `eval` still has an evaluation of its own when the inherited body is class dependent
    (template method calling a hook the subclass overrides, a visitor / singledispatch function keyed on the node's class).
    Every such class gets an entry `<class>.eval` that is the inherited method *analysed as that class*: `self` is an instance
    of exactly that class, so hooks resolve to its overrides and isinstance(self, T) is decided.  Calls of `.eval` on a child
    (whose class is not known) are then never resolved statically."""
    if F.__dict__.get('_op_prepared'):
        return
    F.__dict__['_op_prepared'] = True
    # the node classes may live in other modules, with smartquery/ast_ops.py re-exporting them: follow the name
    global ROOT
    if ROOT not in F.classes:
        r_ = F.resolve_dotted(AST_OPS + '.Op') if AST_OPS in F.modules else ('unbound', '')
        if r_[0] == 'cls' and r_[1] in F.classes:
            ROOT = r_[1]
    if classes is None:
        if ROOT not in F.classes:
            return
        classes = [ROOT] + [q for q in F.subclasses(ROOT) if q != ROOT]
    dyn = F.__dict__.setdefault('dynamic_methods', set())
    # class names that are instantiated somewhere (called, or handed over as a factory): abstract intermediate bases are not
    made = set()
    for m in F.modules.values():
        if '.ply' in m.name:
            continue
        for n in ast.walk(m.tree):
            if isinstance(n, ast.Call):
                f = n.func
                made.add(f.id if isinstance(f, ast.Name) else (f.attr if isinstance(f, ast.Attribute) else None))
                for kw in n.keywords:
                    if isinstance(kw.value, ast.Name):
                        made.add(kw.value.id)
    for cq in classes:
        if EVAL in F.cls(cq).methods:
            continue
        if cq.rsplit('.', 1)[-1] not in made:
            continue
        inh = F.find_method(cq, EVAL)
        if inh is None or inh not in F.functions:
            continue
        base = F.functions[inh]
        F.functions[cq + '.' + EVAL] = FuncInfo(cq + '.' + EVAL, base.module, base.node, cls=cq)
        dyn.add((inh.rsplit('.', 1)[0], EVAL))


def eval_method(F: Facts, cls: str) -> Optional[str]:
    return F.find_method(cls, EVAL)


def own_eval(F: Facts, cls: str) -> bool:
    prepare(F)
    return EVAL in F.cls(cls).methods or (cls + '.' + EVAL) in F.functions


def state_param(F: Facts, qual: str) -> str:
    """Name of the VM-state parameter of an eval method (second positional)."""
    node = F.func(qual).node
    names = [a.arg for a in node.args.posonlyargs + node.args.args]
    if len(names) < 2:
        raise AnalysisError('%s: eval method without a state parameter' % qual)
    return names[1]


def self_param(F: Facts, qual: str) -> str:
    node = F.func(qual).node
    names = [a.arg for a in node.args.posonlyargs + node.args.args]
    return names[0]


def op_field_kinds(F: Facts, cls: str) -> Dict[str, str]:
    """Dataclass fields of an Op class -> coarse kind: 'op' (an Op), 'oplist' (list of Op), 'pairlist' (list of
    tuples of Op), 'str', 'list', 'any'.  The annotation is refined by what the grammar actions actually store in
    the field (``args: list`` holds a list of Op nodes)."""
    out: Dict[str, str] = {}
    for n, ann, d, q in F.all_fields(cls):
        out[n] = annotation_kind(F, F.cls(q).module, ann)
    from . import ctx as _C, actions as _A
    T = _C.templates(F)
    seen: Dict[str, set] = {}
    for t in T.all():
        terms = [t.result] + [freeze(e.value) for e in t.events if e.kind == 'store_attr'] + \
                [freeze(e.args) for e in t.events if e.kind == 'call']
        for term in terms:
            for c, flds in _A.new_nodes(term):
                if c != cls:
                    continue
                for fn, v in flds:
                    k = _value_kind(F, T, v)
                    if k:
                        seen.setdefault(fn, set()).add(k)
    for fn, ks in seen.items():
        ks = ks - {'empty'}
        if len(ks) == 1:
            k = next(iter(ks))
            if k in ('op', 'oplist', 'pairlist'):
                out[fn] = k
    return out


def _elem_kind(F, T, x, _depth=0) -> Optional[str]:
    if not isinstance(x, tuple) or not x:
        return None
    if x[0] == 'sym':
        return 'op' if len(x) > 4 and 'op' in x[4] else None
    if x[0] == 'new':
        return 'op' if F.is_subclass(x[1], ROOT) else None
    if x[0] == 'tuple':
        return 'pair'
    if x[0] == 'star':
        inner = x[1]
        if isinstance(inner, tuple) and inner and inner[0] == 'sub':
            inner = inner[1]
        if isinstance(inner, tuple) and inner and inner[0] == 'symlist' and _depth < 4:
            ks = set()
            for p in T.grammar.by_lhs(inner[2]):
                for t in T.of(p):
                    if t.raises is None and isinstance(t.result, tuple) and t.result and t.result[0] == 'list':
                        for y in t.result[1:]:
                            if isinstance(y, tuple) and y and y[0] == 'star' and y[1][:1] == ('symlist',) and y[1][2] == inner[2]:
                                continue
                            k = _elem_kind(F, T, y, _depth + 1)
                            if k:
                                ks.add(k)
            if len(ks) == 1:
                return next(iter(ks))
    return None


def _value_kind(F, T, v) -> Optional[str]:
    if not isinstance(v, tuple) or not v:
        return None
    if v[0] in ('sym', 'new'):
        return _elem_kind(F, T, v)
    if v[0] == 'symlist':
        k = _elem_kind(F, T, ('star', v))
        return {'op': 'oplist', 'pair': 'pairlist'}.get(k)
    if v[0] == 'list':
        if len(v) == 1:
            return 'empty'
        ks = {_elem_kind(F, T, x) for x in v[1:]}
        if ks == {'op'}:
            return 'oplist'
        if ks == {'pair'}:
            return 'pairlist'
    return None


def annotation_kind(F: Facts, module, ann: Optional[ast.AST], _depth: int = 0) -> str:
    if ann is None:
        return 'any'
    # a module-level type alias (X = ..., X: TypeAlias = ...): judge what it stands for
    if isinstance(ann, ast.Name) and _depth < 5 and ann.id in module.assigns and len(module.assigns[ann.id]) == 1 \
            and isinstance(module.assigns[ann.id][0], (ast.Subscript, ast.Name, ast.Attribute)) and F.resolve_name(module, ann.id)[0] == 'modvar':
        return annotation_kind(F, module, module.assigns[ann.id][0], _depth + 1)
    if isinstance(ann, ast.Subscript):
        head = F.resolve_expr(module, ann.value)
        if head == ('ext', 'typing.Literal'):
            elts = ann.slice.elts if isinstance(ann.slice, ast.Tuple) else [ann.slice]
            if elts and all(isinstance(x, ast.Constant) and isinstance(x.value, str) for x in elts):
                return 'str'
            return 'any'
        if head == ('ext', 'typing.Optional') and _depth < 5:
            return annotation_kind(F, module, ann.slice, _depth + 1)
        if head in (('ext', 'typing.List'), ('builtin', 'list')):
            inner = ann.slice
            r = F.resolve_expr(module, inner)
            if r[0] == 'cls' and F.is_subclass(r[1], ROOT):
                return 'oplist'
            if r in (('builtin', 'tuple'), ('ext', 'typing.Tuple')):
                return 'pairlist'
            return 'list'
        return 'any'
    r = F.resolve_expr(module, ann)
    if r[0] == 'cls' and F.is_subclass(r[1], ROOT):
        return 'op'
    if r == ('builtin', 'str'):
        return 'str'
    if r == ('builtin', 'list') or r == ('ext', 'typing.List'):
        return 'list'
    if r == ('ext', 'typing.Any'):
        return 'any'
    return 'any'


def dispatch_strings(F: Facts, qual: str, field: str = 'op', param: Optional[str] = None) -> List[str]:
    """String constants a dispatcher compares ``self.<field>`` (or a parameter) against."""
    fi = F.func(qual)
    out: List[str] = []
    sp = self_param(F, qual) if fi.cls else None
    for n in ast.walk(fi.node):
        if isinstance(n, ast.Compare):
            sides = [n.left] + list(n.comparators)
            hit = False
            for s in sides:
                if param is None and isinstance(s, ast.Attribute) and s.attr == field and isinstance(s.value, ast.Name) and s.value.id == sp:
                    hit = True
                if param is not None and isinstance(s, ast.Name) and s.id == param:
                    hit = True
            if hit:
                for s in sides:
                    if isinstance(s, ast.Constant) and isinstance(s.value, str) and s.value not in out:
                        out.append(s.value)
                    if isinstance(s, (ast.Tuple, ast.List, ast.Set)):
                        for e in s.elts:
                            if isinstance(e, ast.Constant) and isinstance(e.value, str) and e.value not in out:
                                out.append(e.value)
        if isinstance(n, ast.Subscript) and isinstance(n.value, ast.Dict):
            # dispatch table  {...}[self.op]
            s = n.slice
            if (param is None and isinstance(s, ast.Attribute) and s.attr == field) or (
                    param is not None and isinstance(s, ast.Name) and s.id == param):
                for k in n.value.keys:
                    if isinstance(k, ast.Constant) and isinstance(k.value, str) and k.value not in out:
                        out.append(k.value)
    return out


def eval_paths(F: Facts, cls: str, op: Optional[str] = None, field: str = 'op') -> List[Path]:
    prepare(F)
    q = (cls + '.' + EVAL) if (cls + '.' + EVAL) in F.functions else eval_method(F, cls)
    if q is None:
        raise AnalysisError('%s has no eval method' % cls)
    fi = F.func(q)
    ov = {}
    if op is not None:
        ov[('attr', ('param', self_param(F, q)), field)] = ('const', op)
    # analyse the method as seen from ``cls`` (matters for inherited methods only)
    fi2 = FuncInfo(fi.qual, fi.module, fi.node, cls=cls)
    return SymExec(F, fi2, overrides=ov).run()


# ----------------------------------------------------------------- charge
def is_increment(e: Event, state_term) -> Optional[str]:
    """None if ``e`` is not a write of the op counter; otherwise 'ok' or a complaint."""
    if e.kind == 'aug_attr' and e.attr == 'ops_evaluated':
        if freeze(e.obj) != state_term:
            return 'increments the counter of %s, not of the state it was given' % show(e.obj)
        if e.op != '+' or freeze(e.value) != ('const', 1):
            return 'changes the counter by %s%s instead of +1' % (e.op, show(e.value))
        return 'ok'
    if e.kind == 'store_attr' and e.attr == 'ops_evaluated':
        v = freeze(e.value)
        cur = ('attr', state_term, 'ops_evaluated')
        if freeze(e.obj) == state_term and v in (('binop', '+', cur, ('const', 1)), ('binop', '+', ('const', 1), cur)):
            return 'ok'
        return 'stores %s into the op counter' % show(v)
    return None


def linear(t, state_term) -> Optional[Tuple[int, int, int]]:
    """a*ops + b*max + c for a term over the two counters, else None."""
    t = freeze(t)
    if t == ('attr', state_term, 'ops_evaluated'):
        return (1, 0, 0)
    if t == ('attr', state_term, 'max_ops_evaluated'):
        return (0, 1, 0)
    if is_const(t) and isinstance(t[1], int) and not isinstance(t[1], bool):
        return (0, 0, t[1])
    if isinstance(t, tuple) and t and t[0] == 'binop' and t[1] in ('+', '-'):
        l, r = linear(t[2], state_term), linear(t[3], state_term)
        if l is None or r is None:
            return None
        s = 1 if t[1] == '+' else -1
        return (l[0] + s * r[0], l[1] + s * r[1], l[2] + s * r[2])
    if isinstance(t, tuple) and t and t[0] == 'unop' and t[1] == '-':
        l = linear(t[2], state_term)
        return None if l is None else (-l[0], -l[1], -l[2])
    return None


def threshold_form(cond, truth: bool, state_term) -> Optional[str]:
    """Normalise 'cond has truth value `truth`' to  ops - max >= k  over the integers.

    Returns the string 'k' description: exactly '0' is the correct threshold.
    """
    cond = freeze(cond)
    while isinstance(cond, tuple) and cond and cond[0] == 'not':
        cond = cond[1]
        truth = not truth
    if not (isinstance(cond, tuple) and cond and cond[0] == 'cmp'):
        return None
    op, L, R = cond[1], linear(cond[2], state_term), linear(cond[3], state_term)
    if L is None or R is None or op not in ('<', '<=', '>', '>=', '==', '!='):
        return None
    a, b, c = L[0] - R[0], L[1] - R[1], L[2] - R[2]
    if not truth:
        op = {'<': '>=', '<=': '>', '>': '<=', '>=': '<', '==': '!=', '!=': '=='}[op]
    # a*ops + b*max + c  op  0
    if (a, b) == (-1, 1):
        a, b, c = 1, -1, -c
        op = {'<': '>', '<=': '>=', '>': '<', '>=': '<=', '==': '==', '!=': '!='}[op]
    if (a, b) != (1, -1):
        return None
    # ops - max  op  -c      where `ops` is the counter as it was when the method was entered: the evaluator reads an attribute
    # back as what the path stored into it, so the incremented counter appears as ops + 1 wherever it is used (loaded after the
    # store, or kept in a local).  The thresholds below are stated for the *incremented* counter: (ops + 1) - max >= k.
    k = -c + 1
    if op == '>=':
        return str(k)
    if op == '>':
        return str(k + 1)
    if op == '==':
        return 'equality only (== %d): a counter that jumps past the budget is never stopped' % k
    return 'raises when ops - max %s %d (wrong direction)' % (op, k)


def effect_events(p: Path) -> List[Event]:
    """Events that do something: everything except assumptions, return markers
    and the call markers of inlined package functions."""
    out = []
    for e in p.events:
        if e.kind in ('assume', 'return', 'loop_skip', 'binop', 'log'):
            continue
        if e.kind == 'call' and e.d.get('inlined'):
            continue
        out.append(e)
    return out


def is_child_eval(e: Event, self_term, state_term) -> Optional[Tuple[str, Any]]:
    """If ``e`` evaluates a child node: (field name, receiver term)."""
    if e.kind != 'call':
        return None
    f = freeze(e.func)
    if not (isinstance(f, tuple) and f and f[0] == 'attr' and f[2] == EVAL):
        return None
    recv = f[1]
    fld = base_field(recv, self_term)
    if fld is None:
        return None
    return (fld, recv)


def base_field(t, self_term) -> Optional[str]:
    """Name of the field of ``self`` a term is derived from (self.f, element of self.f, unpacked pair ...)."""
    t = freeze(t)
    while isinstance(t, tuple) and t:
        if t[0] == 'attr' and t[1] == self_term:
            return t[2]
        if t[0] in ('unpack', 'unpack*') and isinstance(t[1], tuple) and t[1][:1] == ('elem',) and \
                isinstance(t[1][1], tuple) and t[1][1][:1] == ('call',) and t[1][1][2] == ('ref', 'builtin', 'zip'):
            args = t[1][1][3]
            if isinstance(t[2], int) and t[2] < len(args):
                a = args[t[2]]
                t = a[1] if isinstance(a, tuple) and a[:1] == ('star',) else a
                t = ('elem', t, 0)
                continue
            return None
        if t[0] in ('unpack', 'unpack*') and isinstance(t[1], tuple) and t[1][:1] == ('elem',) and \
                isinstance(t[1][1], tuple) and t[1][1][:1] == ('call',) and t[1][1][2] == ('ref', 'builtin', 'enumerate'):
            if t[2] == 1 and t[1][1][3]:
                t = ('elem', t[1][1][3][0], 0)
                continue
            return None
        if t[0] == 'call' and t[2] in (('ref', 'builtin', 'list'), ('ref', 'builtin', 'tuple'), ('ref', 'builtin', 'reversed'),
                                       ('ref', 'builtin', 'iter'), ('ref', 'builtin', 'sorted')) and len(t[3]) >= 1:
            t = t[3][0]
            continue
        if t[0] in ('elem',):
            t = t[1]
        elif t[0] in ('unpack', 'unpack*'):
            t = t[1]
        elif t[0] == 'sub':
            t = t[1]
        elif t[0] == 'attr':
            t = t[1]
        elif t[0] == 'phi':
            t = t[3]
        else:
            return None
    return None


def mentions(t, needle) -> bool:
    t = freeze(t)
    if t == needle:
        return True
    if isinstance(t, tuple):
        return any(mentions(x, needle) for x in t)
    return False


def carries(t, obj) -> bool:
    """Does the value ``t`` hold a reference to ``obj`` (itself, an attribute chain of it, or a container
    display holding one)?  Results of calls that merely received ``obj`` as an argument do not count."""
    t = freeze(t)
    if t == obj:
        return True
    if isinstance(t, tuple) and t:
        if t[0] == 'attr':
            return carries(t[1], obj)
        if t[0] in ('list', 'tuple', 'set'):
            return any(carries(x, obj) for x in t[1:])
        if t[0] == 'dict':
            return any(carries(x, obj) for it in t[1:] for x in (it[1:] if it and it[0] == 'dstar' else it))
        if t[0] in ('star', 'withas'):
            return carries(t[1], obj)
        if t[0] == 'phi':
            return carries(t[3], obj)
    return False


def all_closures(paths, thunks: bool = False):
    """Closures created on any path of a function, one per closure node.  A thunk - a closure that never leaves the invocation
    that created it and is called there (by a helper it was handed to, inlined) - is left out unless asked for: its body has
    been followed where it ran, under the handlers and after the checks that were in force there; analysed on its own it would
    be judged without them."""
    from .props.common import escapes, run_in_place
    seen, out = set(), []
    by_node = {}
    for p in paths:
        for c in p.closures:
            by_node.setdefault(id(c.node), []).append((c, p))
    for p in paths:
        for c in p.closures:
            if id(c.node) not in seen:
                seen.add(id(c.node))
                pairs = by_node[id(c.node)]
                if not thunks and any(run_in_place(c_, p_) for c_, p_ in pairs) and all(escapes(c_, p_) is None for c_, p_ in pairs):
                    continue
                out.append(c)
    return out


def grammar_op_strings(F: Facts, cls: str, field: str = 'op') -> List[str]:
    """Operator strings the grammar can store in field `field` of class cls (from the action templates and the lexer)."""
    from . import ctx as _C, actions as _A
    T = _C.templates(F)
    lm = _C.lexmodel(F)
    out = []
    for t in T.all():
        terms = [t.result] + [freeze(e.value) for e in t.events if e.kind in ('store_attr',)] + \
                [freeze(e.args) for e in t.events if e.kind == 'call']
        for term in terms:
            for c, flds in _A.new_nodes(term):
                if c != cls:
                    continue
                v = dict(flds).get(field)
                if v is None:
                    continue
                if v[0] == 'const' and isinstance(v[1], str):
                    out.append(v[1])
                elif v[0] == 'tok':
                    texts = lm.token_texts.get(v[2])
                    if texts:
                        out.extend(sorted(texts))
    return sorted(set(out))


def table_keys_used(F: Facts, qual: str, field: str = 'op') -> List[str]:
    """String keys of module-level dispatch tables that a method indexes with self.<field> (directly or via .get)."""
    fi = F.func(qual)
    sp = self_param(F, qual) if fi.cls else None
    out: List[str] = []

    def is_field(e):
        return isinstance(e, ast.Attribute) and e.attr == field and isinstance(e.value, ast.Name) and e.value.id == sp

    def table_of(e):
        if isinstance(e, ast.Name):
            r = F.resolve_name(fi.module, e.id)
            if r[0] == 'modvar':
                mod, _, var = r[1].rpartition('.')
                m = F.modules.get(mod)
                vals = m.assigns.get(var) if m else None
                if vals and len(vals) == 1 and isinstance(vals[0], ast.Dict):
                    return vals[0]
        return None
    seen_fns = set()

    def scan(node, depth=0):
        for n in ast.walk(node):
            tab = None
            if isinstance(n, ast.Subscript) and is_field(n.slice):
                tab = table_of(n.value)
            if isinstance(n, ast.Call) and isinstance(n.func, ast.Attribute) and n.func.attr == 'get' and n.args and is_field(n.args[0]):
                tab = table_of(n.func.value)
            if isinstance(n, ast.Compare) and any(isinstance(op, (ast.In, ast.NotIn)) for op in n.ops) and is_field(n.left):
                tab = table_of(n.comparators[0])
            if tab is not None:
                for k in tab.keys:
                    if isinstance(k, ast.Constant) and isinstance(k.value, str) and k.value not in out:
                        out.append(k.value)
            # helper methods of the same class:  self._apply(...)
            if depth < 2 and isinstance(n, ast.Call) and isinstance(n.func, ast.Attribute) and isinstance(n.func.value, ast.Name) \
                    and n.func.value.id == sp and fi.cls:
                mq = F.find_method(fi.cls, n.func.attr)
                if mq and mq not in seen_fns and mq in F.functions:
                    seen_fns.add(mq)
                    scan(F.functions[mq].node, depth + 1)
    scan(fi.node)
    return out


def op_specs(F: Facts, cls: str, field: str = 'op') -> List[str]:
    """Every operator string worth specialising the eval method of cls on."""
    q = cls + '.' + EVAL
    if op_field_kinds(F, cls).get(field) != 'str':
        return []
    return sorted(set(dispatch_strings(F, q, field)) | set(table_keys_used(F, q, field)) | set(grammar_op_strings(F, cls, field)))
