"""The FUNCTIONS table: key -> resolved target."""
from __future__ import annotations

import ast
from dataclasses import dataclass
from typing import Any, Dict, List, Optional, Tuple

from .facts import Facts, FuncInfo, AnalysisError, norm, Module

FUNCS_MOD = 'smartquery.functions'
TABLE = 'FUNCTIONS'


@dataclass
class Entry:
    key: str
    kind: str              # 'fn' | 'lambda' | 'builtin' | 'ext' | 'other'
    target: Any            # qual / ast.Lambda / builtin name / dotted
    node: ast.AST
    line: int

    def funcinfo(self, F: Facts) -> Optional[FuncInfo]:
        if self.kind == 'fn':
            return F.func(self.target)
        if self.kind == 'lambda':
            return FuncInfo('%s.FUNCTIONS[%r]' % (FUNCS_MOD, self.key), F.modules[FUNCS_MOD], self.target)
        return None

    @property
    def label(self) -> str:
        return 'FUNCTIONS[%r]' % self.key

    def descr(self) -> str:
        if self.kind == 'fn':
            return self.target
        if self.kind == 'lambda':
            return 'lambda at line %d' % self.line
        return '%s %s' % (self.kind, self.target)


def table(F: Facts) -> Dict[str, Entry]:
    c = getattr(F, '_functab', None)
    if c is not None:
        return c
    m = F.modules.get(FUNCS_MOD)
    if m is None:
        raise AnalysisError('anchor vanished: module %s' % FUNCS_MOD)
    vals = m.assigns.get(TABLE)
    if not vals:
        raise AnalysisError('anchor vanished: %s.%s' % (FUNCS_MOD, TABLE))
    if len(vals) != 1 or not isinstance(vals[0], ast.Dict):
        raise AnalysisError('%s.%s is not a single dict display (assigned %d times)' % (FUNCS_MOD, TABLE, len(vals)))
    out: Dict[str, Entry] = {}
    d = vals[0]
    for k, v in zip(d.keys, d.values):
        if k is None:
            raise AnalysisError('%s uses ** unpacking, not modelled' % TABLE)
        if not (isinstance(k, ast.Constant) and isinstance(k.value, str)):
            raise AnalysisError('%s has a non-literal key %s' % (TABLE, norm(k)))
        if isinstance(v, ast.Lambda):
            e = Entry(k.value, 'lambda', v, v, v.lineno)
        else:
            r = F.resolve_expr(m, v)
            if r[0] == 'fn':
                e = Entry(k.value, 'fn', r[1], v, v.lineno)
            elif r[0] == 'builtin':
                e = Entry(k.value, 'builtin', r[1], v, v.lineno)
            elif r[0] in ('ext', 'cls'):
                e = Entry(k.value, 'ext' if r[0] == 'ext' else 'cls', r[1], v, v.lineno)
            else:
                e = Entry(k.value, 'other', norm(v), v, v.lineno)
        if k.value in out:
            raise AnalysisError('%s has the key %r twice' % (TABLE, k.value))
        out[k.value] = e
    F._functab = out  # type: ignore
    return out


def table_writes(F: Facts) -> List[Tuple[str, int, str]]:
    """Statements anywhere in the package that modify FUNCTIONS (or an alias import of it)."""
    out = []
    for m in F.modules.values():
        if '.ply' in m.name:
            continue
        aliases = {n for n, t in m.imports.items() if t == FUNCS_MOD + '.' + TABLE}
        if m.name == FUNCS_MOD:
            aliases.add(TABLE)
        mod_aliases = {n for n, t in m.imports.items() if t == FUNCS_MOD}

        def is_table(e) -> bool:
            if isinstance(e, ast.Name) and e.id in aliases:
                return True
            if isinstance(e, ast.Attribute) and e.attr == TABLE and isinstance(e.value, ast.Name) and e.value.id in mod_aliases:
                return True
            return False
        for n in ast.walk(m.tree):
            if isinstance(n, (ast.Assign, ast.AugAssign, ast.AnnAssign, ast.Delete)):
                tgts = n.targets if isinstance(n, (ast.Assign, ast.Delete)) else [n.target]
                for t in tgts:
                    if isinstance(t, ast.Subscript) and is_table(t.value):
                        out.append((m.rel, n.lineno, norm(n)))
                    if isinstance(n, ast.AugAssign) and is_table(t):
                        out.append((m.rel, n.lineno, norm(n)))
            if isinstance(n, ast.Call) and isinstance(n.func, ast.Attribute) and is_table(n.func.value) and \
                    n.func.attr in ('update', 'pop', 'popitem', 'setdefault', 'clear', '__setitem__', '__delitem__'):
                out.append((m.rel, n.lineno, norm(n)))
    return out
