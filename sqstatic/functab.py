"""The FUNCTIONS table: key -> resolved target."""
from __future__ import annotations

import ast
from dataclasses import dataclass
from typing import Any, Dict, List, Optional, Tuple

from .facts import Facts, FuncInfo, AnalysisError, norm, Module

FUNCS_MOD = 'smartquery.functions'
TABLE = 'FUNCTIONS'


@dataclass
class Entry:
    key: str
    kind: str              # 'fn' | 'lambda' | 'builtin' | 'ext' | 'other'
    target: Any            # qual / ast.Lambda / builtin name / dotted
    node: ast.AST
    line: int
    module: Any = None     # module a lambda was written in, when that is not the module of the table

    def funcinfo(self, F: Facts) -> Optional[FuncInfo]:
        if self.kind == 'fn':
            return F.func(self.target)
        if self.kind == 'lambda':
            return FuncInfo('%s.FUNCTIONS[%r]' % (FUNCS_MOD, self.key), self.module or F.modules[FUNCS_MOD], self.target)
        return None

    @property
    def label(self) -> str:
        return 'FUNCTIONS[%r]' % self.key

    def descr(self) -> str:
        if self.kind == 'fn':
            return self.target
        if self.kind == 'lambda':
            return 'lambda at line %d' % self.line
        return '%s %s' % (self.kind, self.target)


def _entry_for(F: Facts, m: Module, key: str, v: ast.AST, _depth: int = 0) -> Entry:
    if isinstance(v, ast.Lambda):
        return Entry(key, 'lambda', v, v, v.lineno)
    if isinstance(v, ast.Call) and isinstance(v.func, ast.Name) and v.func.id == 'staticmethod' and len(v.args) == 1 and not v.keywords:
        return _entry_for(F, m, key, v.args[0])
    if isinstance(v, ast.Attribute):
        # Namespace.member: a staticmethod def or a class-level `member = staticmethod(lambda ...)` of a package class
        rb = F.resolve_expr(m, v.value)
        if rb[0] == 'cls' and rb[1] in F.classes:
            ci = F.classes[rb[1]]
            if v.attr in ci.methods and (rb[1] + '.' + v.attr) in F.functions:
                mnode = ci.methods[v.attr]
                if any(isinstance(d, ast.Name) and d.id == 'staticmethod' for d in mnode.decorator_list):
                    return Entry(key, 'fn', rb[1] + '.' + v.attr, v, mnode.lineno)
            for st in ci.node.body:
                if isinstance(st, ast.Assign) and any(isinstance(t, ast.Name) and t.id == v.attr for t in st.targets):
                    return _entry_for(F, ci.module, key, st.value)
    r = F.resolve_expr(m, v)
    if r[0] == 'modvar' and _depth < 4:
        # a name bound once, in this or another package module, to a lambda / function / builtin: the entry is that value
        mod, _, var = r[1].rpartition('.')
        mm = F.modules.get(mod)
        vals = mm.assigns.get(var) if mm else None
        if vals and len(vals) == 1 and vals[0] is not None and not any(isinstance(n, ast.Global) and var in n.names for n in ast.walk(mm.tree)):
            e = _entry_for(F, mm, key, vals[0], _depth + 1)
            if e.kind != 'other':
                return Entry(key, e.kind, e.target, e.node, v.lineno if mm is not m else e.line, module=mm) if e.kind == 'lambda' else e
    if r[0] == 'fn':
        return Entry(key, 'fn', r[1], v, v.lineno)
    if r[0] == 'builtin':
        return Entry(key, 'builtin', r[1], v, v.lineno)
    if r[0] in ('ext', 'cls'):
        return Entry(key, 'ext' if r[0] == 'ext' else 'cls', r[1], v, v.lineno)
    return Entry(key, 'other', norm(v), v, v.lineno)


def _from_display(F: Facts, m: Module, d: ast.Dict, out: Dict[str, Entry], depth: int = 0) -> None:
    for k, v in zip(d.keys, d.values):
        if k is None:
            # {**OTHER_TABLE}: a module-level dict display merged in
            sub = None
            if isinstance(v, ast.Name) and depth < 5:
                r = F.resolve_name(m, v.id)
                if r[0] == 'modvar':
                    mod, _, var = r[1].rpartition('.')
                    mm = F.modules.get(mod)
                    vals = mm.assigns.get(var) if mm else None
                    if vals and len(vals) == 1 and isinstance(vals[0], ast.Dict):
                        sub = (mm, vals[0])
            if sub is None:
                raise AnalysisError('%s merges `**%s`, which is not a module-level dict display' % (TABLE, norm(v)))
            _from_display(F, sub[0], sub[1], out, depth + 1)
            continue
        if not (isinstance(k, ast.Constant) and isinstance(k.value, str)):
            raise AnalysisError('%s has a non-literal key %s' % (TABLE, norm(k)))
        out.pop(k.value, None)
        out[k.value] = _entry_for(F, m, k.value, v)


def _from_execution(F: Facts, m: Module) -> Dict[str, Entry]:
    """The table is filled at import time (FUNCTIONS = {} followed by registration calls / decorators): execute the
    module body symbolically and read the resulting dict."""
    from .symexec import DictVal, Closure, freeze, is_const, exec_module_body
    dummy = ast.parse('def __module_body__():\n    pass').body[0]
    env = exec_module_body(F, m)
    tab = env.get(TABLE)
    if not isinstance(tab, DictVal):
        raise AnalysisError('%s.%s is not built as a dict the analysis can follow' % (FUNCS_MOD, TABLE))
    out: Dict[str, Entry] = {}
    for it in tab.items:
        if it[0] == 'dstar':
            raise AnalysisError('%s merges an unknown mapping' % TABLE)
        k, v = freeze(it[0]), it[1]
        if not (is_const(k) and isinstance(k[1], str)):
            raise AnalysisError('%s has a non-literal key %r' % (TABLE, k))
        fv = freeze(v)
        line = 0
        origin = F.__dict__.get('_closure_origin', {})
        if isinstance(v, Closure) and v.cid in origin and origin[v.cid] in F.functions:
            # a wrapper built by the decorators of a def: the entry is that (decorated) function; analysing it runs the wrappers
            tgt = origin[v.cid]
            e = Entry(k[1], 'fn', tgt, F.functions[tgt].node, F.functions[tgt].node.lineno)
        elif isinstance(v, Closure):
            node = v.node
            line = node.lineno
            if isinstance(node, ast.Lambda):
                e = Entry(k[1], 'lambda', node, node, line, module=v.module)
            else:
                e = Entry(k[1], 'fn', v.module.name + '.' + node.name, node, line)
        elif isinstance(fv, tuple) and fv[:1] == ('ref',):
            kind, tgt = fv[1], fv[2]
            if kind in ('fn', 'fnraw'):
                e = Entry(k[1], 'fn', tgt, F.functions[tgt].node if tgt in F.functions else None, getattr(F.functions.get(tgt), 'node', dummy).lineno)
            elif kind == 'builtin':
                e = Entry(k[1], 'builtin', tgt, None, 0)
            elif kind in ('ext', 'cls'):
                e = Entry(k[1], 'ext' if kind == 'ext' else 'cls', tgt, None, 0)
            else:
                e = Entry(k[1], 'other', str(fv), None, 0)
        else:
            e = Entry(k[1], 'other', str(fv)[:60], None, 0)
        out.pop(k[1], None)
        out[k[1]] = e
    return out


def table(F: Facts) -> Dict[str, Entry]:
    c = getattr(F, '_functab', None)
    if c is not None:
        return c
    m = F.modules.get(FUNCS_MOD)
    if m is None:
        raise AnalysisError('anchor vanished: module %s' % FUNCS_MOD)
    vals = m.assigns.get(TABLE)
    if not vals:
        raise AnalysisError('anchor vanished: %s.%s' % (FUNCS_MOD, TABLE))
    out: Dict[str, Entry] = {}
    display = vals[0] if len(vals) == 1 and isinstance(vals[0], ast.Dict) else None
    if display is not None and display.keys:
        try:
            _from_display(F, m, display, out)
        except AnalysisError:
            # parts of the table are filled while the module is imported (registries merged with **): run the module body
            out = _from_execution(F, m)
    else:
        out = _from_execution(F, m)
    if not out:
        raise AnalysisError('%s.%s is empty' % (FUNCS_MOD, TABLE))
    F._functab = out  # type: ignore
    return out


def _only_called_at_module_level(m: Module, name: str) -> bool:
    """The module body refers to `name` at least once and only to call it (or to apply it as a decorator): it is never
    stored, passed on or exported by the module body, so nothing can call it after the import."""
    callee_nodes = set()
    refs = []
    def scan(root):
        for n in ast.walk(root):
            if isinstance(n, ast.Call) and isinstance(n.func, ast.Name):
                callee_nodes.add(n.func)
            if isinstance(n, ast.Name) and n.id == name and isinstance(n.ctx, ast.Load):
                refs.append(n)
    for st in m.tree.body:
        if isinstance(st, (ast.FunctionDef, ast.AsyncFunctionDef, ast.ClassDef)):
            for d in st.decorator_list:
                scan(d)
                if isinstance(d, ast.Name):
                    callee_nodes.add(d)
            if isinstance(st, ast.ClassDef):
                for b in st.body:
                    if not isinstance(b, (ast.FunctionDef, ast.AsyncFunctionDef)):
                        scan(b)
                    else:
                        for d in b.decorator_list:
                            scan(d)
                            if isinstance(d, ast.Name):
                                callee_nodes.add(d)
        else:
            scan(st)
    return bool(refs) and all(r in callee_nodes for r in refs)


def import_time_only_writers(F: Facts, modname: Optional[str] = None) -> List[str]:
    """Functions of a module (default: the functions module) that are used by the module body while it is imported and
    referenced by no function afterwards (registration helpers): what they write is written once, at import."""
    m = F.modules.get(modname or FUNCS_MOD)
    out = []
    if m is None:
        return out
    referenced_in_functions = set()
    for q, fi in F.functions.items():
        # decorators and defaults are evaluated when the def statement runs, not when the function is called
        body = fi.node.body if isinstance(fi.node.body, list) else [fi.node.body]
        for st in body:
            for n in ast.walk(st):
                if isinstance(n, (ast.FunctionDef, ast.AsyncFunctionDef)):
                    continue
                if isinstance(n, ast.Name) and isinstance(n.ctx, ast.Load):
                    referenced_in_functions.add((fi.module.name, n.id, q))
    for q, fi in F.functions.items():
        if fi.module is not m or fi.cls:
            continue
        name = q.rsplit('.', 1)[-1]
        users = {u for (mod, n, u) in referenced_in_functions if n == name and u != q and not u.startswith(q + '.')}
        # users that are themselves import-time-only helpers are fine; iterate to a fixpoint below
        # a writer that the module body never uses is not a registration helper: it is an entry point for later writes
        used_at_import = _only_called_at_module_level(m, name)
        if not users and used_at_import:
            out.append(q)
    # helpers used only by other import-time helpers
    changed = True
    while changed:
        changed = False
        for q, fi in F.functions.items():
            if fi.module is not m or fi.cls or q in out:
                continue
            name = q.rsplit('.', 1)[-1]
            users = {u for (mod, n, u) in referenced_in_functions if n == name and u != q}
            if users and all(any(u == o or u.startswith(o + '.') for o in out) for u in users):
                out.append(q)
                changed = True
    return out


def table_writes(F: Facts) -> List[Tuple[str, int, str]]:
    """Statements anywhere in the package that modify FUNCTIONS (or an alias import of it)."""
    out = []
    for m in F.modules.values():
        if '.ply' in m.name:
            continue
        aliases = {n for n, t in m.imports.items() if t == FUNCS_MOD + '.' + TABLE}
        if m.name == FUNCS_MOD:
            aliases.add(TABLE)
        mod_aliases = {n for n, t in m.imports.items() if t == FUNCS_MOD}

        def is_table(e) -> bool:
            if isinstance(e, ast.Name) and e.id in aliases:
                return True
            if isinstance(e, ast.Attribute) and e.attr == TABLE and isinstance(e.value, ast.Name) and e.value.id in mod_aliases:
                return True
            return False
        skip_nodes = set()
        if m.name == FUNCS_MOD:
            tab_targets = set()
            try:
                tab_targets = {e.target for e in table(F).values() if e.kind == 'fn'}
            except AnalysisError:
                pass
            for q in import_time_only_writers(F):
                if q in tab_targets:
                    continue          # a table entry is callable by programs
                for x in ast.walk(F.functions[q].node):
                    skip_nodes.add(id(x))
        for n in ast.walk(m.tree):
            if id(n) in skip_nodes:
                continue
            if isinstance(n, (ast.Assign, ast.AugAssign, ast.AnnAssign, ast.Delete)):
                tgts = n.targets if isinstance(n, (ast.Assign, ast.Delete)) else [n.target]
                for t in tgts:
                    if isinstance(t, ast.Subscript) and is_table(t.value):
                        out.append((m.rel, n.lineno, norm(n)))
                    if isinstance(n, ast.AugAssign) and is_table(t):
                        out.append((m.rel, n.lineno, norm(n)))
            if isinstance(n, ast.Call) and isinstance(n.func, ast.Attribute) and is_table(n.func.value) and \
                    n.func.attr in ('update', 'pop', 'popitem', 'setdefault', 'clear', '__setitem__', '__delitem__'):
                out.append((m.rel, n.lineno, norm(n)))
    return out
