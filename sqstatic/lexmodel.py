"""Model of the PLY lexer specification: regex syntax trees (re._parser under
re.VERBOSE, as PLY compiles them), finite languages of literal rules, "can the
match contain a newline", first-character sets, and the behaviour of each
function rule per regex alternative.
"""
from __future__ import annotations

import ast
import re
try:                                    # Python 3.11+
    import re._parser as sre_parse      # type: ignore
    import re._constants as sre_c       # type: ignore
except ImportError:                     # pragma: no cover
    import sre_parse                    # type: ignore
    import sre_constants as sre_c       # type: ignore
from dataclasses import dataclass, field
from typing import Any, Dict, List, Optional, Set, Tuple

from .facts import Facts, AnalysisError, FuncInfo, norm
from .grammar import LexSpec, LexRule, extract_lexer, Grammar, module_value, NotLiteral
from .symexec import SymExec, Path, freeze, show, is_const

MAXLANG = 64


def parse_regex(rx: str, flags: int = re.VERBOSE):
    try:
        p = sre_parse.parse(rx, flags)
    except Exception as e:
        raise AnalysisError('lexer: cannot parse regex %r: %s' % (rx, e))
    return _expand_backrefs(p, rx)


def _has_op(p, ops) -> bool:
    for op, av in p:
        if op in ops:
            return True
        if op is sre_c.BRANCH:
            if any(_has_op(a, ops) for a in av[1]):
                return True
        elif op is sre_c.SUBPATTERN:
            if _has_op(av[3], ops):
                return True
        elif op in (sre_c.MAX_REPEAT, sre_c.MIN_REPEAT) or (hasattr(sre_c, 'POSSESSIVE_REPEAT') and op is sre_c.POSSESSIVE_REPEAT):
            if _has_op(av[2], ops):
                return True
        elif op in (sre_c.ASSERT, sre_c.ASSERT_NOT):
            if _has_op(av[1], ops):
                return True
        elif op is sre_c.GROUPREF_EXISTS:
            if any(x is not None and _has_op(x, ops) for x in av[1:]):
                return True
        elif hasattr(sre_c, 'ATOMIC_GROUP') and op is sre_c.ATOMIC_GROUP:
            if _has_op(av, ops):
                return True
    return False


def _expand_backrefs(p, rx: str):
    """A backreference to a group that sits in the top-level sequence and matches one of a few fixed strings ((?P<q>["'])...(?P=q))
    is the alternation over those strings, with the group and every reference to it replaced by the string.  Exact; any other
    use of backreferences is outside the regular languages the token analyses handle."""
    if not _has_op(p, (sre_c.GROUPREF, sre_c.GROUPREF_EXISTS)):
        return p
    refs = set()

    def collect(q):
        for op, av in q:
            if op is sre_c.GROUPREF:
                refs.add(av)
            elif op is sre_c.GROUPREF_EXISTS:
                refs.add(None)
            elif op is sre_c.BRANCH:
                for a in av[1]:
                    collect(a)
            elif op is sre_c.SUBPATTERN:
                collect(av[3])
            elif op in (sre_c.MAX_REPEAT, sre_c.MIN_REPEAT):
                collect(av[2])
            elif op in (sre_c.ASSERT, sre_c.ASSERT_NOT):
                collect(av[1])
    collect(p)
    if None in refs:
        raise AnalysisError('lexer: conditional group references are not modelled (%r)' % rx)
    alts = [list(p)]
    for g in sorted(refs):
        nxt = []
        for seq in alts:
            pos = [i for i, (op, av) in enumerate(seq) if op is sre_c.SUBPATTERN and av[0] == g]
            if len(pos) != 1:
                raise AnalysisError('lexer: backreference to group %s, which is not a plain top-level group (%r)' % (g, rx))
            lang = language(seq[pos[0]][1][3])
            if lang is None or len(lang) > 8 or _has_op(seq[pos[0]][1][3], (sre_c.GROUPREF,)):
                raise AnalysisError('lexer: backreference to group %s, which does not match a small fixed set of strings (%r)' % (g, rx))
            for sub in sorted(lang):
                lits = [(sre_c.LITERAL, ord(c)) for c in sub]

                def subst(q, top):
                    out = []
                    for op, av in q:
                        if op is sre_c.GROUPREF and av == g:
                            out.extend(lits)
                        elif top and op is sre_c.SUBPATTERN and av[0] == g:
                            out.extend(lits)
                        elif op is sre_c.BRANCH:
                            out.append((op, (av[0], [mk(subst(a, False)) for a in av[1]])))
                        elif op is sre_c.SUBPATTERN:
                            out.append((op, (av[0], av[1], av[2], mk(subst(av[3], False)))))
                        elif op in (sre_c.MAX_REPEAT, sre_c.MIN_REPEAT):
                            out.append((op, (av[0], av[1], mk(subst(av[2], False)))))
                        elif op in (sre_c.ASSERT, sre_c.ASSERT_NOT):
                            out.append((op, (av[0], mk(subst(av[1], False)))))
                        else:
                            out.append((op, av))
                    return out

                def mk(data):
                    return sre_parse.SubPattern(p.state, data)
                nxt.append(subst(seq, True))
        alts = nxt
    if len(alts) == 1:
        return sre_parse.SubPattern(p.state, alts[0])
    return sre_parse.SubPattern(p.state, [(sre_c.BRANCH, (None, [sre_parse.SubPattern(p.state, a) for a in alts]))])


def _in_chars(items) -> Optional[Set[str]]:
    """Finite set of characters of an IN node, or None (negated / category / wide range)."""
    out: Set[str] = set()
    for op, av in items:
        if op is sre_c.LITERAL:
            out.add(chr(av))
        elif op is sre_c.RANGE:
            lo, hi = av
            if hi - lo > 64:
                return None
            out.update(chr(c) for c in range(lo, hi + 1))
        else:
            return None
    return out


def language(p) -> Optional[Set[str]]:
    """Finite language of a parsed pattern (<= MAXLANG strings) or None."""
    langs: Set[str] = {''}
    for op, av in p:
        if op is sre_c.LITERAL:
            nxt = {chr(av)}
        elif op is sre_c.IN:
            cs = _in_chars(av)
            if cs is None:
                return None
            nxt = cs
        elif op is sre_c.BRANCH:
            nxt = set()
            for alt in av[1]:
                l = language(alt)
                if l is None:
                    return None
                nxt |= l
        elif op is sre_c.SUBPATTERN:
            l = language(av[3])
            if l is None:
                return None
            nxt = l
        elif op in (sre_c.MAX_REPEAT, sre_c.MIN_REPEAT):
            lo, hi, sub = av
            if hi is sre_c.MAXREPEAT or hi > 3:
                return None
            l = language(sub)
            if l is None:
                return None
            nxt = set()
            for n in range(lo, hi + 1):
                cur = {''}
                for _ in range(n):
                    cur = {a + b for a in cur for b in l}
                    if len(cur) > MAXLANG:
                        return None
                nxt |= cur
        elif op is sre_c.AT:
            nxt = {''}
        else:
            return None
        langs = {a + b for a in langs for b in nxt}
        if len(langs) > MAXLANG:
            return None
    return langs


def samples(p, unroll: int = 2, cap: int = 600, alphabet: Optional[str] = None) -> Optional[Set[str]]:
    """Texts of an unbounded language with every loop taken at most `unroll` times beyond its minimum (a finite subset of the
    language; every member is a text the pattern matches, so a verdict on a member is a verdict on a real input)."""
    langs: Set[str] = {''}
    for op, av in p:
        if op is sre_c.LITERAL:
            nxt = {chr(av)}
        elif op is sre_c.IN:
            cs = _in_chars(av)
            if cs is None and alphabet is not None:
                cs = {c for c in alphabet if _in_matches(av, ord(c))}
            if cs is None:
                return None
            nxt = set(sorted(cs)[:3])
        elif alphabet is not None and op is sre_c.ANY:
            nxt = set(c for c in alphabet if c != '\n')
        elif alphabet is not None and op is sre_c.NOT_LITERAL:
            nxt = set(c for c in alphabet if ord(c) != av)
        elif alphabet is not None and op is sre_c.CATEGORY:
            nxt = set(c for c in alphabet if _cat_matches(av, ord(c)))
        elif op is sre_c.BRANCH:
            nxt = set()
            for alt in av[1]:
                l = samples(alt, unroll, cap, alphabet)
                if l is None:
                    return None
                nxt |= l
        elif op is sre_c.SUBPATTERN:
            l = samples(av[3], unroll, cap, alphabet)
            if l is None:
                return None
            nxt = l
        elif op in (sre_c.MAX_REPEAT, sre_c.MIN_REPEAT):
            lo, hi, sub = av
            top = lo + unroll if hi is sre_c.MAXREPEAT else min(hi, lo + unroll)
            l = samples(sub, unroll, cap, alphabet)
            if l is None:
                return None
            nxt = set()
            cur = {''}
            for n in range(0, top + 1):
                if n >= lo:
                    nxt |= cur
                cur = set(sorted({a + b for a in cur for b in l}, key=lambda x: (len(x), x))[:cap])
        elif op is sre_c.AT:
            nxt = {''}
        else:
            return None
        langs = set(sorted({a + b for a in langs for b in nxt}, key=lambda x: (len(x), x))[:cap])
    return langs


def alternatives(rx: str) -> List[Tuple[str, Any]]:
    """Top-level alternatives of a regex as (description, parsed sub-pattern)."""
    p = parse_regex(rx)
    items = list(p)
    if len(items) == 1 and items[0][0] is sre_c.BRANCH:
        return [(_unparse(a), a) for a in items[0][1][1]]
    return [(_unparse(p), p)]


def _unparse(p) -> str:
    l = language(p)
    if l is not None and len(l) == 1:
        return repr(next(iter(l)))
    return str(list(p))[:80]


def can_contain(p, ch: str, dotall: bool = False) -> bool:
    """Over-approximation: can a match of p contain the character ch?"""
    c = ord(ch)
    for op, av in p:
        if op is sre_c.LITERAL:
            if av == c:
                return True
        elif op is sre_c.NOT_LITERAL:
            if av != c:
                return True
        elif op is sre_c.ANY:
            if ch != '\n' or dotall:
                return True
        elif op is sre_c.IN:
            if _in_matches(av, c):
                return True
        elif op is sre_c.BRANCH:
            if any(can_contain(a, ch, dotall) for a in av[1]):
                return True
        elif op is sre_c.SUBPATTERN:
            if can_contain(av[3], ch, dotall):
                return True
        elif op in (sre_c.MAX_REPEAT, sre_c.MIN_REPEAT):
            if can_contain(av[2], ch, dotall):
                return True
        elif op is sre_c.AT:
            continue
        elif op in (sre_c.ASSERT, sre_c.ASSERT_NOT):
            continue
        elif op is sre_c.CATEGORY:
            if _cat_matches(av, c):
                return True
        else:
            return True      # unknown construct: assume it can
    return False


def _cat_matches(cat, c: int) -> bool:
    ch = chr(c)
    table = {
        sre_c.CATEGORY_DIGIT: ch.isdigit(), sre_c.CATEGORY_NOT_DIGIT: not ch.isdigit(),
        sre_c.CATEGORY_SPACE: ch.isspace(), sre_c.CATEGORY_NOT_SPACE: not ch.isspace(),
        sre_c.CATEGORY_WORD: ch.isalnum() or ch == '_', sre_c.CATEGORY_NOT_WORD: not (ch.isalnum() or ch == '_'),
    }
    return table.get(cat, True)


def _in_matches(items, c: int) -> bool:
    neg = False
    hit = False
    for op, av in items:
        if op is sre_c.NEGATE:
            neg = True
        elif op is sre_c.LITERAL:
            hit = hit or av == c
        elif op is sre_c.RANGE:
            hit = hit or av[0] <= c <= av[1]
        elif op is sre_c.CATEGORY:
            hit = hit or _cat_matches(av, c)
        else:
            return True
    return hit != neg


class RegexNotModelled(Exception):
    pass


def match_ends(p, s: str, i: int, k: int = 0):
    """End positions of the matches of the parsed pattern p[k:] on s at i, in the order Python's backtracking matcher tries
    them (alternatives left to right, greedy repeats longest first, lazy repeats shortest first): the first one is the match."""
    items = p if isinstance(p, list) else list(p)
    if k == len(items):
        yield i
        return
    op, av = items[k]

    def rest(j):
        return match_ends(items, s, j, k + 1)
    if op is sre_c.LITERAL:
        if i < len(s) and ord(s[i]) == av:
            yield from rest(i + 1)
    elif op is sre_c.NOT_LITERAL:
        if i < len(s) and ord(s[i]) != av:
            yield from rest(i + 1)
    elif op is sre_c.ANY:
        if i < len(s) and s[i] != '\n':
            yield from rest(i + 1)
    elif op is sre_c.IN:
        if i < len(s) and _in_matches(av, ord(s[i])):
            yield from rest(i + 1)
    elif op is sre_c.BRANCH:
        for alt in av[1]:
            for j in match_ends(alt, s, i):
                yield from rest(j)
    elif op is sre_c.SUBPATTERN:
        for j in match_ends(av[3], s, i):
            yield from rest(j)
    elif op in (sre_c.MAX_REPEAT, sre_c.MIN_REPEAT):
        lo, hi, sub = av
        hi = len(s) + 1 if hi is sre_c.MAXREPEAT else hi
        sub = list(sub)

        def rep(j, n):
            # positions after n repetitions so far, continuing
            if op is sre_c.MIN_REPEAT:
                if n >= lo:
                    yield from rest(j)
                if n < hi:
                    for j2 in match_ends(sub, s, j):
                        if j2 == j and n >= lo:
                            continue
                        yield from rep(j2, n + 1)
            else:
                if n < hi:
                    for j2 in match_ends(sub, s, j):
                        if j2 == j and n >= lo:
                            continue
                        yield from rep(j2, n + 1)
                if n >= lo:
                    yield from rest(j)
        yield from rep(i, 0)
    elif op is sre_c.AT:
        ok = True
        if av in (sre_c.AT_BEGINNING, sre_c.AT_BEGINNING_STRING):
            ok = i == 0
        elif av in (sre_c.AT_END, sre_c.AT_END_STRING):
            ok = i == len(s) or (av is sre_c.AT_END and i == len(s) - 1 and s[i] == '\n')
        elif av in (sre_c.AT_BOUNDARY, sre_c.AT_NON_BOUNDARY):
            w1 = i > 0 and (s[i - 1].isalnum() or s[i - 1] == '_')
            w2 = i < len(s) and (s[i].isalnum() or s[i] == '_')
            ok = (w1 != w2) == (av is sre_c.AT_BOUNDARY)
        else:
            raise RegexNotModelled(str(av))
        if ok:
            yield from rest(i)
    elif op in (sre_c.ASSERT, sre_c.ASSERT_NOT):
        direction, sub = av
        if direction < 0:
            raise RegexNotModelled('look-behind')
        hit = next(match_ends(sub, s, i), None) is not None
        if hit == (op is sre_c.ASSERT):
            yield from rest(i)
    else:
        raise RegexNotModelled(str(op))


def match_end(p, s: str, i: int = 0) -> Optional[int]:
    return next(match_ends(p, s, i), None)


def first_chars_can(p, ch: str) -> bool:
    """Over-approximation: can a match of p start with ch?"""
    c = ord(ch)
    for op, av in p:
        if op is sre_c.LITERAL:
            return av == c
        if op is sre_c.NOT_LITERAL:
            return av != c
        if op is sre_c.ANY:
            return ch != '\n'
        if op is sre_c.IN:
            return _in_matches(av, c)
        if op is sre_c.BRANCH:
            return any(first_chars_can(a, ch) or _nullable(a) for a in av[1])
        if op is sre_c.SUBPATTERN:
            if first_chars_can(av[3], ch):
                return True
            if not _nullable(av[3]):
                return False
            continue
        if op in (sre_c.MAX_REPEAT, sre_c.MIN_REPEAT):
            if first_chars_can(av[2], ch):
                return True
            if av[0] > 0 and not _nullable(av[2]):
                return False
            continue
        if op is sre_c.AT:
            continue
        if op is sre_c.CATEGORY:
            return _cat_matches(av, c)
        return True
    return False


def last_char_can_be_word(p) -> bool:
    """Over-approximation: can a match of p end in a word character *without* p insisting on a word boundary after it?
    (If so, the rule can cut a longer identifier in two.)"""
    items = list(p)
    # trailing assertions
    while items and items[-1][0] is sre_c.AT:
        if items[-1][1] in (sre_c.AT_BOUNDARY, sre_c.AT_END, sre_c.AT_END_STRING):
            return False
        items.pop()
    while items and items[-1][0] in (sre_c.ASSERT_NOT, sre_c.ASSERT):
        direction, sub = items[-1][1]
        if items[-1][0] is sre_c.ASSERT_NOT and direction == 1 and any(first_chars_can(sub, c) for c in 'a_0'):
            return False            # (?!\w): nothing word-like may follow
        items.pop()
    if not items:
        return False
    op, av = items[-1]
    wordish = 'aZ_09'
    if op is sre_c.LITERAL:
        return chr(av).isalnum() or chr(av) == '_'
    if op is sre_c.NOT_LITERAL or op is sre_c.ANY:
        return True
    if op is sre_c.IN:
        return any(_in_matches(av, ord(c)) for c in wordish)
    if op is sre_c.CATEGORY:
        return any(_cat_matches(av, ord(c)) for c in wordish)
    if op is sre_c.BRANCH:
        return any(last_char_can_be_word(a) for a in av[1])
    if op is sre_c.SUBPATTERN:
        if last_char_can_be_word(av[3]):
            return True
        return _nullable(av[3]) and last_char_can_be_word(items[:-1])
    if op in (sre_c.MAX_REPEAT, sre_c.MIN_REPEAT):
        if last_char_can_be_word(av[2]):
            return True
        return (av[0] == 0 or _nullable(av[2])) and last_char_can_be_word(items[:-1])
    return True


def last_char_can(p, chars: str) -> bool:
    """Over-approximation: can a match of p end in one of `chars`?"""
    items = [it for it in p if it[0] not in (sre_c.AT, sre_c.ASSERT, sre_c.ASSERT_NOT)]
    if not items:
        return False
    op, av = items[-1]
    if op is sre_c.LITERAL:
        return chr(av) in chars
    if op is sre_c.NOT_LITERAL:
        return any(ord(c) != av for c in chars)
    if op is sre_c.ANY:
        return False                # PLY compiles without DOTALL: `.` is never a line break; other chars: see callers
    if op is sre_c.IN:
        return any(_in_matches(av, ord(c)) for c in chars)
    if op is sre_c.CATEGORY:
        return any(_cat_matches(av, ord(c)) for c in chars)
    if op is sre_c.BRANCH:
        return any(last_char_can(a, chars) if len(list(a)) else False for a in av[1]) or \
            (any(_nullable(a) for a in av[1]) and last_char_can(items[:-1], chars))
    if op is sre_c.SUBPATTERN:
        return last_char_can(av[3], chars) or (_nullable(av[3]) and last_char_can(items[:-1], chars))
    if op in (sre_c.MAX_REPEAT, sre_c.MIN_REPEAT):
        return last_char_can(av[2], chars) or ((av[0] == 0 or _nullable(av[2])) and last_char_can(items[:-1], chars))
    return True


def _nullable(p) -> bool:
    for op, av in p:
        if op in (sre_c.LITERAL, sre_c.NOT_LITERAL, sre_c.ANY, sre_c.IN, sre_c.CATEGORY):
            return False
        if op is sre_c.BRANCH:
            if not any(_nullable(a) for a in av[1]):
                return False
        elif op is sre_c.SUBPATTERN:
            if not _nullable(av[3]):
                return False
        elif op in (sre_c.MAX_REPEAT, sre_c.MIN_REPEAT):
            if av[0] > 0 and not _nullable(av[2]):
                return False
        elif op is sre_c.AT:
            continue
        else:
            return False
    return True


def _membership_retyping(F: Facts, name: str, rm, reserved: Dict[str, str]) -> bool:
    """The keyword idiom spelled with a test:  t.type = D[t.value] if t.value in K else '<NAME>'  (possibly through a helper),
    K being the keys of D (the dict itself, a frozenset / tuple / list made of them).  Fills `reserved` from D."""
    tparam = ('param', rm.rule.func.args.args[0].arg)
    val = ('attr', tparam, 'value')
    table = None
    n_default = n_keyed = 0

    def value_of(t):
        if isinstance(t, tuple) and t[:2] == ('ref', 'modvar') and len(t) == 3:
            mod, _, var = t[2].rpartition('.')
            try:
                return module_value(F, F.modules[mod], var)
            except (NotLiteral, KeyError):
                return None
        return None

    def tested(assumptions):
        """(K, truth) of the membership test of t.value on this path."""
        for c, v in assumptions:
            neg = False
            while isinstance(c, tuple) and c[:1] == ('not',):
                c, neg = c[1], not neg
            if isinstance(c, tuple) and c[:1] == ('cmp',) and c[1] in ('in', 'not in') and c[2] == val:
                truth = (v != neg) if c[1] == 'in' else (v == neg)
                return value_of(c[3]), truth
        return None, None
    if not rm.type_paths:
        return False
    for te, assumptions in rm.type_paths:
        K, truth = tested(assumptions)
        if K is None:
            return False
        if isinstance(te, tuple) and te[:1] == ('sub',) and te[2] == val and truth is True:
            D = value_of(te[1])
            if not isinstance(D, dict) or set(D) != set(K) or (table is not None and D != table):
                return False
            table = D
            n_keyed += 1
        elif te == ('const', name) and truth is False:
            n_default += 1
            if table is not None and set(K) != set(table):
                return False
        else:
            return False
    if table is None or not n_default or not n_keyed:
        return False
    if not all(isinstance(k, str) and isinstance(v, str) for k, v in table.items()):
        return False
    reserved.update(table)
    return True


# ------------------------------------------------------------------ the model
@dataclass
class RuleModel:
    rule: LexRule
    parsed: Any
    texts: Optional[Set[str]]            # finite language, if any
    newline: bool                        # can a match contain "\n"
    # function rules: per path facts
    paths: List[Path] = field(default_factory=list)
    returns_token: Optional[str] = None  # 'always' | 'never' | 'sometimes'
    value_changed: bool = False
    type_expr: Any = None                # term stored into t.type, if any
    type_paths: List[Any] = field(default_factory=list)     # (term stored into t.type, assumptions of that path)
    samples: Optional[Set[str]] = None   # unbounded language: its members with every loop taken at most twice


@dataclass
class LexModel:
    spec: LexSpec
    rules: Dict[str, RuleModel]
    order: List[str]
    reserved: Dict[str, str]             # keyword text -> token
    token_texts: Dict[str, Optional[Set[str]]]   # token -> finite set of source texts (None = unbounded)
    raw_value: Dict[str, bool]           # token value is the unmodified matched text
    F: Any = None
    const_value: Dict[str, Any] = field(default_factory=dict)   # token -> the constant its rule stores into t.value on every path

    def tokenise(self, text: str) -> Optional[List[Tuple[str, str, int]]]:
        """(rule name, matched text, position) of the matches the master regex makes on text, as PLY scans: ignored characters
        skipped, then the first rule in master-regex order that matches.  None when some position matches no rule (or a rule
        matches the empty string, which PLY refuses)."""
        out = []
        i = 0
        while i < len(text):
            if text[i] in self.spec.ignore:
                i += 1
                continue
            for name in self.order:
                e = match_end(self.rules[name].parsed, text, i)
                if e is not None:
                    if e == i:
                        return None
                    out.append((name, text[i:e], i))
                    i = e
                    break
            else:
                return None
        return out

    def producible(self) -> Set[str]:
        out = set()
        for name, rm in self.rules.items():
            if rm.returns_token != 'never':
                if rm.type_expr is None:
                    out.add(name)
        out |= set(self.reserved.values())
        for name, rm in self.rules.items():
            if rm.type_expr is not None:
                out.add(name)  # the default of reserved.get(text, NAME)
        return out


def build(F: Facts, g: Optional[Grammar] = None) -> LexModel:
    spec = extract_lexer(F, g)
    rules: Dict[str, RuleModel] = {}
    order = []
    for r in spec.rules:
        p = parse_regex(r.regex)
        rm = RuleModel(r, p, language(p), can_contain(p, '\n'))
        if rm.texts is None and rm.newline:
            rm.samples = samples(p)
        if r.func is not None:
            fi = FuncInfo(spec.module.name + '.t_' + r.name, spec.module, r.func, captured=r.closure)
            tparam = ('param', r.func.args.args[0].arg) if r.func.args.args else None
            ov_ = None
            if rm.texts is not None and len(rm.texts) == 1 and tparam is not None and not any(
                    isinstance(n_, ast.Attribute) and n_.attr == 'value' and isinstance(n_.ctx, ast.Store) for n_ in ast.walk(r.func)):
                # the rule matches one fixed text and never re-assigns t.value: t.value is that text throughout
                ov_ = {('attr', tparam, 'value'): ('const', next(iter(rm.texts)))}
            if tparam is not None and not any(isinstance(n_, ast.Attribute) and n_.attr == 'type' and isinstance(n_.ctx, ast.Store) for n_ in ast.walk(r.func)):
                # PLY sets t.type to the name of the rule before calling it; a rule that does not re-type its token reads that name
                ov_ = dict(ov_ or {})
                ov_[('attr', tparam, 'type')] = ('const', r.name)
            rm.paths = SymExec(F, fi, overrides=ov_).run()
            rets = []
            for pth in rm.paths:
                if pth.outcome[0] == 'return':
                    v = pth.outcome[1]
                    rets.append('tok' if v == tparam else ('none' if v == ('const', None) else 'other'))
                for e in pth.events:
                    if e.kind in ('store_attr', 'aug_attr') and freeze(e.obj) == tparam:
                        if e.attr == 'value':
                            rm.value_changed = True
                        if e.attr == 'type':
                            rm.type_expr = freeze(e.value) if e.kind == 'store_attr' else ('unknown', 'aug')
                            rm.type_paths.append((rm.type_expr, [(freeze(c_), v_) for c_, v_, _ in pth.assumptions]))
            if 'other' in rets:
                raise AnalysisError('lexer: rule t_%s returns something that is neither its token nor None' % r.name)
            rm.returns_token = 'always' if rets and all(x == 'tok' for x in rets) else (
                'never' if all(x == 'none' for x in rets) else 'sometimes')
        elif r.dropped:
            rm.returns_token = 'never'
        rules[r.name] = rm
        order.append(r.name)
    # keyword table: the dict the identifier rule consults
    reserved: Dict[str, str] = {}
    for name, rm in rules.items():
        te = rm.type_expr
        if te is None:
            continue
        # expected idiom: t.type = <dict>.get(t.value, '<NAME>')
        ok = False
        if isinstance(te, tuple) and te and te[0] == 'call' and isinstance(te[2], tuple) and te[2][0] == 'attr' and te[2][2] == 'get':
            d = te[2][1]
            args = te[3]
            if isinstance(d, tuple) and d[:2] == ('ref', 'modvar') and len(args) == 2 and args[1] == ('const', name):
                mod, _, var = d[2].rpartition('.')
                try:
                    table = module_value(F, F.modules[mod], var)
                except (NotLiteral, KeyError) as e:
                    raise AnalysisError('lexer: keyword table %s is not a literal: %s' % (d[2], e))
                if isinstance(table, dict) and all(isinstance(k, str) and isinstance(v, str) for k, v in table.items()):
                    reserved.update(table)
                    ok = True
        if not ok:
            ok = _membership_retyping(F, name, rm, reserved)
        if not ok:
            raise AnalysisError('lexer: rule t_%s assigns t.type = %s, an idiom the model does not know '
                                '(expected <keyword dict>.get(t.value, %r))' % (name, show(te), name))
    token_texts: Dict[str, Optional[Set[str]]] = {}
    raw_value: Dict[str, bool] = {}
    for name, rm in rules.items():
        token_texts[name] = rm.texts
        raw_value[name] = not rm.value_changed
    for kw, tok in reserved.items():
        token_texts.setdefault(tok, set())
        if token_texts[tok] is not None:
            token_texts[tok] = set(token_texts[tok]) | {kw}
        raw_value.setdefault(tok, True)
    lm = LexModel(spec, rules, order, reserved, token_texts, raw_value, F)
    for name, rm in rules.items():
        if rm.rule.func is None or not rm.value_changed or rm.type_expr is not None:
            continue
        tparam = ('param', rm.rule.func.args.args[0].arg) if rm.rule.func.args.args else None
        vals = set()
        every = True
        for pth in rm.paths:
            if pth.outcome[0] != 'return' or pth.outcome[1] != tparam:
                continue
            last = None
            for e in pth.events:
                if e.kind == 'store_attr' and freeze(e.obj) == tparam and e.attr == 'value':
                    last = freeze(e.value)
            if last is None or not (isinstance(last, tuple) and last[:1] == ('const',)):
                every = False
            else:
                vals.add(last[1])
        if every and len(vals) == 1:
            lm.const_value[name] = next(iter(vals))
    return lm
