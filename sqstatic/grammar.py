"""Static extraction of the PLY grammar and lexer specification.

The grammar that runs is the one in the ``p_*`` docstrings of the module
handed to ``yacc.yacc(module=...)`` (tables are regenerated on every
SqParser construction); the lexer is the ``t_*`` rules of the module handed
to ``lex.lex(module=...)``.  Both are read from the AST, in PLY's order.
"""
from __future__ import annotations

import ast
import re
from dataclasses import dataclass, field
from typing import Any, Dict, List, Optional, Tuple

from .facts import Facts, Module, AnalysisError, norm


# ------------------------------------------------------------ literal values
class NotLiteral(Exception):
    pass


_PURE_STR_METHODS = {'upper', 'lower', 'title', 'capitalize', 'strip', 'lstrip', 'rstrip', 'format', 'join', 'split', 'replace',
                     'startswith', 'endswith', 'swapcase', 'casefold', 'isupper', 'islower', 'isalpha', 'isidentifier', 'zfill',
                     'removeprefix', 'removesuffix', 'partition', 'rpartition', 'splitlines', 'count', 'find', 'index'}
_PURE_BUILTINS = {'tuple': tuple, 'list': list, 'sorted': sorted, 'set': set, 'dict': dict, 'frozenset': frozenset, 'len': len,
                  'str': str, 'zip': lambda *a: list(zip(*a)), 'enumerate': lambda *a: list(enumerate(*a)),
                  'range': lambda *a: list(range(*a)), 'reversed': lambda a: list(reversed(a)), 'min': min, 'max': max,
                  'int': int, 'bool': bool, 'any': any, 'all': all, 'sum': sum, 'map': None, 'filter': None}


def eval_literal(F: Facts, m: Module, node: ast.AST, _depth: int = 0, env: Optional[dict] = None):
    """Constant folding of module-level table expressions: displays, comprehensions, string methods and a few pure
    builtins over values that are themselves literals.  Anything else raises NotLiteral."""
    if _depth > 40:
        raise NotLiteral('too deep')
    env = env or {}

    def ev(n, e=env):
        return eval_literal(F, m, n, _depth + 1, e)
    if isinstance(node, ast.Constant):
        return node.value
    if isinstance(node, (ast.Tuple, ast.List, ast.Set)):
        out = []
        for e in node.elts:
            if isinstance(e, ast.Starred):
                out.extend(list(ev(e.value)))
            else:
                out.append(ev(e))
        return tuple(out) if isinstance(node, ast.Tuple) else (set(out) if isinstance(node, ast.Set) else out)
    if isinstance(node, ast.Dict):
        d = {}
        for k, v in zip(node.keys, node.values):
            if k is None:
                d.update(ev(v))
            else:
                d[ev(k)] = ev(v)
        return d
    if isinstance(node, ast.Name):
        if node.id in env:
            return env[node.id]
        return module_value(F, m, node.id, _depth + 1)
    if isinstance(node, ast.Attribute):
        r = F.resolve_expr(m, node.value)
        if r[0] == 'pkgmod' and r[1] in F.modules:
            return module_value(F, F.modules[r[1]], node.attr, _depth + 1)
        raise NotLiteral(norm(node))
    if isinstance(node, (ast.ListComp, ast.SetComp, ast.GeneratorExp, ast.DictComp)):
        out = []

        def bind(target, value, e):
            if isinstance(target, ast.Name):
                e[target.id] = value
            elif isinstance(target, (ast.Tuple, ast.List)) and not any(isinstance(x, ast.Starred) for x in target.elts):
                vs = list(value)
                if len(vs) != len(target.elts):
                    raise NotLiteral(norm(node))
                for t_, v_ in zip(target.elts, vs):
                    bind(t_, v_, e)
            else:
                raise NotLiteral(norm(node))

        def gen(i, e):
            if i == len(node.generators):
                if isinstance(node, ast.DictComp):
                    out.append((ev(node.key, e), ev(node.value, e)))
                else:
                    out.append(ev(node.elt, e))
                return
            g = node.generators[i]
            if g.is_async:
                raise NotLiteral(norm(node))
            it = ev(g.iter, e)
            if isinstance(it, dict):
                it = list(it)
            if not isinstance(it, (list, tuple, set, frozenset, str)):
                raise NotLiteral(norm(node))
            if len(out) > 10000:
                raise NotLiteral('comprehension too large')
            for x in (sorted(it) if isinstance(it, (set, frozenset)) else it):
                e2 = dict(e)
                bind(g.target, x, e2)
                if all(ev(c, e2) for c in g.ifs):
                    gen(i + 1, e2)
        gen(0, dict(env))
        if isinstance(node, ast.DictComp):
            return dict(out)
        if isinstance(node, ast.SetComp):
            return set(out)
        return out
    if isinstance(node, ast.Call) and node.keywords and isinstance(node.func, ast.Attribute) and node.func.attr == 'format' \
            and all(k.arg for k in node.keywords):
        recv = ev(node.func.value)
        if isinstance(recv, str):
            try:
                return recv.format(*[ev(a) for a in node.args], **{k.arg: ev(k.value) for k in node.keywords})
            except Exception as e:
                raise NotLiteral('%s: %s' % (norm(node), e))
    if isinstance(node, ast.Call) and not node.keywords:
        if isinstance(node.func, ast.Attribute):
            recv = ev(node.func.value)
            args = [ev(a) for a in node.args]
            meth = node.func.attr
            if isinstance(recv, dict) and meth in ('values', 'keys', 'items', 'get', 'copy'):
                r = getattr(recv, meth)(*args)
                return list(r) if meth in ('values', 'keys', 'items') else r
            if isinstance(recv, str) and meth in _PURE_STR_METHODS:
                try:
                    return getattr(recv, meth)(*args)
                except Exception as e:
                    raise NotLiteral('%s: %s' % (norm(node), e))
            if isinstance(recv, (list, tuple)) and meth in ('index', 'count', 'copy'):
                try:
                    return getattr(recv, meth)(*args)
                except Exception as e:
                    raise NotLiteral('%s: %s' % (norm(node), e))
            if isinstance(recv, (set, frozenset)) and meth in ('union', 'difference', 'intersection', 'copy'):
                return getattr(recv, meth)(*args)
            raise NotLiteral(norm(node))
        if isinstance(node.func, ast.Name) and node.func.id not in env and _PURE_BUILTINS.get(node.func.id) is not None \
                and F.resolve_name(m, node.func.id)[0] == 'builtin':
            args = [ev(a) for a in node.args]
            try:
                return _PURE_BUILTINS[node.func.id](*args)
            except NotLiteral:
                raise
            except Exception as e:
                raise NotLiteral('%s: %s' % (norm(node), e))
        raise NotLiteral(norm(node))
    if isinstance(node, ast.BinOp):
        a = ev(node.left)
        b = ev(node.right)
        if isinstance(node.op, ast.Add):
            if type(a) in (tuple, list, str) and type(a) is type(b):
                return a + b
            if isinstance(a, (tuple, list)) and isinstance(b, (tuple, list)):
                return tuple(a) + tuple(b)
        if isinstance(node.op, ast.Mod) and isinstance(a, str):
            try:
                return a % b
            except Exception as e:
                raise NotLiteral('%s: %s' % (norm(node), e))
        if isinstance(node.op, ast.BitOr) and isinstance(a, (set, frozenset)) and isinstance(b, (set, frozenset)):
            return a | b
        if isinstance(node.op, ast.BitOr) and isinstance(a, dict) and isinstance(b, dict):
            return {**a, **b}
        if isinstance(node.op, ast.Sub) and isinstance(a, (set, frozenset)) and isinstance(b, (set, frozenset)):
            return a - b
        if isinstance(node.op, ast.Mult) and isinstance(a, (str, list, tuple)) and isinstance(b, int):
            return a * b
        raise NotLiteral(norm(node))
    if isinstance(node, ast.JoinedStr):
        parts = []
        for v in node.values:
            if isinstance(v, ast.Constant):
                parts.append(str(v.value))
            elif isinstance(v, ast.FormattedValue) and v.format_spec is None and v.conversion in (-1, 115, 114):
                x = ev(v.value)
                parts.append(repr(x) if v.conversion == 114 else str(x))
            else:
                raise NotLiteral(norm(node))
        return ''.join(parts)
    if isinstance(node, ast.Subscript):
        b = ev(node.value)
        if isinstance(node.slice, ast.Slice):
            lo = ev(node.slice.lower) if node.slice.lower else None
            hi = ev(node.slice.upper) if node.slice.upper else None
            st = ev(node.slice.step) if node.slice.step else None
            if isinstance(b, (list, tuple, str)):
                return b[lo:hi:st]
            raise NotLiteral(norm(node))
        i = ev(node.slice)
        try:
            return b[i]
        except Exception as e:
            raise NotLiteral('%s: %s' % (norm(node), e))
    if isinstance(node, ast.IfExp):
        return ev(node.body) if ev(node.test) else ev(node.orelse)
    if isinstance(node, ast.BoolOp):
        v = None
        for x in node.values:
            v = ev(x)
            if isinstance(node.op, ast.And) and not v:
                return v
            if isinstance(node.op, ast.Or) and v:
                return v
        return v
    if isinstance(node, ast.UnaryOp) and isinstance(node.op, ast.Not):
        return not ev(node.operand)
    if isinstance(node, ast.UnaryOp) and isinstance(node.op, ast.USub):
        v = ev(node.operand)
        if isinstance(v, (int, float)) and not isinstance(v, bool):
            return -v
        raise NotLiteral(norm(node))
    if isinstance(node, ast.Compare) and len(node.ops) == 1:
        a, b = ev(node.left), ev(node.comparators[0])
        op = node.ops[0]
        try:
            if isinstance(op, ast.In):
                return a in b
            if isinstance(op, ast.NotIn):
                return a not in b
            if isinstance(op, ast.Eq):
                return a == b
            if isinstance(op, ast.NotEq):
                return a != b
            if isinstance(op, ast.Is):
                return a is b if (a is None or b is None) else a == b
            if isinstance(op, ast.IsNot):
                return a is not b if (a is None or b is None) else a != b
            if isinstance(op, ast.Lt):
                return a < b
            if isinstance(op, ast.LtE):
                return a <= b
            if isinstance(op, ast.Gt):
                return a > b
            if isinstance(op, ast.GtE):
                return a >= b
        except Exception as e:
            raise NotLiteral('%s: %s' % (norm(node), e))
    raise NotLiteral(norm(node))


def to_python(v):
    """Python value of an evaluator value that is known completely (constants, displays of constants)."""
    from .symexec import ListVal, DictVal, freeze
    if isinstance(v, ListVal):
        if not v.concrete():
            raise NotLiteral('list with an unknown part')
        return [to_python(x) for x in v.elts]
    if isinstance(v, DictVal):
        out = {}
        for it in v.items:
            if it[0] == 'dstar':
                raise NotLiteral('dict with an unknown part')
            out[to_python(it[0])] = to_python(it[1])
        return out
    if isinstance(v, tuple) and len(v) == 2 and v[0] == 'const':
        return v[1]
    if isinstance(v, tuple) and v[:1] in (('tuple',), ('list',), ('set',)):
        if any(isinstance(x, tuple) and x[:1] == ('star',) for x in v[1:]):
            raise NotLiteral('display with an unknown part')
        xs = [to_python(x) for x in v[1:]]
        return tuple(xs) if v[0] == 'tuple' else (xs if v[0] == 'list' else frozenset(xs))
    if isinstance(v, tuple) and v[:1] == ('dict',):
        out = {}
        for it in v[1:]:
            if it[0] == 'dstar':
                raise NotLiteral('dict with an unknown part')
            out[to_python(it[0])] = to_python(it[1])
        return out
    raise NotLiteral('not a constant: %r' % (freeze(v),))


def executed_value(F: Facts, m: Module, name: str):
    """Value of a module-level name taken from running the module body through the evaluator (for names computed by calls of
    package helpers, comprehensions over other tables, globals().update(...))."""
    from .symexec import exec_module_body
    env = exec_module_body(F, m)
    if name not in env:
        raise NotLiteral('%s.%s is not bound by running the module body' % (m.name, name))
    return to_python(env[name])


def module_value(F: Facts, m: Module, name: str, _depth: int = 0):
    if name in m.assigns:
        vals = m.assigns[name]
        if len(vals) != 1 or vals[0] is None:
            raise NotLiteral('%s.%s is assigned more than once' % (m.name, name))
        try:
            return eval_literal(F, m, vals[0], _depth + 1)
        except NotLiteral as e:
            try:
                return executed_value(F, m, name)
            except NotLiteral:
                raise e
    if name in m.imports:
        r = F.resolve_dotted(m.imports[name])
        head, _, last = m.imports[name].rpartition('.')
        if head in F.modules:
            return module_value(F, F.modules[head], last, _depth + 1)
    raise NotLiteral('%s.%s is not a literal' % (m.name, name))


def _first_line(fn: ast.AST) -> int:
    """co_firstlineno of a function: the line of its first decorator, else of its def."""
    decs = getattr(fn, 'decorator_list', [])
    return min([d.lineno for d in decs] + [fn.lineno])


def _ply_sort_key(F: Facts, m: Module, name: str, node: ast.FunctionDef):
    """PLY orders the action functions by (co_firstlineno, file name, name) of the object the name is bound to.  For a plain def
    that is the def itself; a decorator that returns its argument changes nothing; a decorator that returns a wrapper function
    (functools.wraps keeps the name and the docstring, not the code object) puts the action where the *wrapper* was defined - in
    whatever file - and with it the rank of its productions in reduce/reduce conflicts."""
    line, rel = _first_line(node), m.rel
    for d in node.decorator_list:           # outermost first: the object finally bound is what the first decorator returned
        callee = d.func if isinstance(d, ast.Call) else d
        r = F.resolve_expr(m, callee)
        if r[0] in ('ext', 'builtin') and r[1] in ('functools.wraps', 'staticmethod'):
            continue
        fi = F.functions.get(r[1]) if r[0] == 'fn' else None
        if fi is None or not isinstance(fi.node, ast.FunctionDef):
            raise AnalysisError('grammar: decorator `%s` of %s is not a function of the package: where PLY ranks the productions of this '
                                'action cannot be told' % (norm(d), name))
        dec_fn = fi.node
        if isinstance(d, ast.Call):
            # a decorator factory: the decorator is the nested function it returns
            inner = _returned_def(dec_fn)
            if inner is None:
                raise AnalysisError('grammar: decorator factory `%s` of %s does not return a nested function' % (norm(callee), name))
            dec_fn = inner
        params = [a.arg for a in dec_fn.args.args]
        rets = [n.value for n in ast.walk(dec_fn) if isinstance(n, ast.Return) and n.value is not None
                and not any(n in ast.walk(x) for x in ast.walk(dec_fn) if isinstance(x, (ast.FunctionDef, ast.Lambda)) and x is not dec_fn)]
        if rets and all(isinstance(v, ast.Name) and params and v.id == params[0] for v in rets):
            continue                            # returns the action itself: same code object, same place
        wrapper = _returned_def(dec_fn)
        if wrapper is None:
            raise AnalysisError('grammar: decorator `%s` of %s returns neither the action nor a nested wrapper function' % (norm(d), name))
        return (_first_line(wrapper), fi.module.rel, name)       # the first wrapper decides (what it wraps no longer matters)
    return (line, rel, name)


def _returned_def(fn: ast.FunctionDef):
    """The nested def a function returns by name (on every return), else None."""
    nested = {n.name: n for n in fn.body if isinstance(n, ast.FunctionDef)}
    rets = [n.value for n in ast.walk(fn) if isinstance(n, ast.Return) and n.value is not None
            and not any(n in ast.walk(x) for x in nested.values())]
    if rets and all(isinstance(v, ast.Name) and v.id in nested for v in rets) and len({v.id for v in rets}) == 1:
        return nested[rets[0].id]
    return None


# ------------------------------------------------------------------- grammar
@dataclass
class Production:
    index: int                 # PLY numbering (0 = augmented start)
    lhs: str
    rhs: Tuple[str, ...]
    prec: Optional[Tuple[str, int]]     # (assoc, level) as PLY assigns it
    func: Optional[str]        # name of the action function
    alt: int                   # alternative index within the function
    line: int
    explicit_prec: Optional[str] = None

    def __str__(self):
        return '%s -> %s' % (self.lhs, ' '.join(self.rhs) or '<empty>')

    @property
    def key(self) -> str:
        return str(self)


@dataclass
class Grammar:
    module: Module
    lexmodule: Module
    productions: List[Production]
    tokens: Tuple[str, ...]
    precedence: Tuple[Tuple[str, ...], ...]
    prec_of: Dict[str, Tuple[str, int]]
    start: str
    error_func: Optional[str]
    funcs: Dict[str, ast.FunctionDef]

    @property
    def nonterminals(self) -> List[str]:
        out = []
        for p in self.productions[1:]:
            if p.lhs not in out:
                out.append(p.lhs)
        return out

    @property
    def terminals(self) -> List[str]:
        nts = set(self.nonterminals)
        out = []
        for p in self.productions:
            for s in p.rhs:
                if s not in nts and s not in out:
                    out.append(s)
        return out

    def alts_of(self, func: str) -> List[Production]:
        return [p for p in self.productions if p.func == func]

    def by_lhs(self, lhs: str) -> List[Production]:
        return [p for p in self.productions if p.lhs == lhs]


def parser_modules(F: Facts) -> Tuple[Module, Module, Dict[str, Any]]:
    """(rules module, lexer module, facts about the yacc()/lex() calls) from SqParser.__init__."""
    q = 'smartquery.sq_parser.SqParser.__init__'
    fi = F.func(q)
    rules_m = lex_m = None
    info: Dict[str, Any] = {}
    # the constructor itself, or a helper / helper class of the same module that it delegates the construction to
    nodes = list(ast.walk(fi.node))
    found_ = {F.resolve_expr(fi.module, n.func) for n in nodes if isinstance(n, ast.Call)}
    if not {('ext', 'smartquery.ply.yacc.yacc'), ('ext', 'smartquery.ply.lex.lex')} <= found_:
        nodes = list(ast.walk(fi.module.tree))
    for n in nodes:
        if isinstance(n, ast.Call):
            r = F.resolve_expr(fi.module, n.func)
            if r == ('ext', 'smartquery.ply.yacc.yacc') or r == ('ext', 'smartquery.ply.lex.lex'):
                kw = {k.arg: k.value for k in n.keywords if k.arg}
                for k_ in n.keywords:
                    if k_.arg is None and isinstance(k_.value, ast.Name):
                        # lex.lex(module=lexer, **ply_options): options kept in a local / module-level dict(...) display
                        for a_ in ast.walk(fi.module.tree):
                            if isinstance(a_, ast.Assign) and any(isinstance(t_, ast.Name) and t_.id == k_.value.id for t_ in a_.targets):
                                if isinstance(a_.value, ast.Call) and isinstance(a_.value.func, ast.Name) and a_.value.func.id == 'dict':
                                    kw.update({x.arg: x.value for x in a_.value.keywords if x.arg})
                                elif isinstance(a_.value, ast.Dict):
                                    kw.update({x.value: v_ for x, v_ in zip(a_.value.keys, a_.value.values) if isinstance(x, ast.Constant)})
                if 'module' not in kw:
                    raise AnalysisError('%s: %s called without module=' % (q, norm(n.func)))
                mr = F.resolve_expr(fi.module, kw['module'])
                if mr[0] != 'pkgmod' and isinstance(kw['module'], ast.Name):
                    mr = _module_behind_parameter(F, fi.module, n, kw['module'].id) or mr
                    info['injectable'] = True       # the stock module is a default that a caller may replace
                if mr[0] != 'pkgmod' and isinstance(kw['module'], ast.Attribute) and isinstance(kw['module'].value, ast.Name) \
                        and kw['module'].value.id in ('self', 'cls'):
                    # module=self.lexer_module: a class attribute of the parser class (a subclass may point it elsewhere)
                    for cq_, ci_ in F.classes.items():
                        if ci_.module is fi.module and any(x is n for x in ast.walk(ci_.node)):
                            for st_ in ci_.node.body:
                                tg_ = st_.targets if isinstance(st_, ast.Assign) else ([st_.target] if isinstance(st_, ast.AnnAssign) and st_.value is not None else [])
                                if any(isinstance(t_, ast.Name) and t_.id == kw['module'].attr for t_ in tg_):
                                    r2_ = F.resolve_expr(fi.module, st_.value)
                                    if r2_[0] == 'pkgmod':
                                        mr = r2_
                                        info['injectable'] = True
                if mr[0] != 'pkgmod' or mr[1] not in F.modules:
                    raise AnalysisError('%s: module=%s does not resolve to a package module' % (q, norm(kw['module'])))
                if r[1].endswith('yacc.yacc'):
                    rules_m = F.modules[mr[1]]
                    info['yacc_kw'] = {k: norm(v) for k, v in kw.items()}
                else:
                    lex_m = F.modules[mr[1]]
                    info['lex_kw'] = {k: norm(v) for k, v in kw.items()}
    if rules_m is None or lex_m is None:
        raise AnalysisError('anchor vanished: SqParser.__init__ does not build its lexer/parser with ply lex.lex/yacc.yacc')
    return rules_m, lex_m, info


def _module_behind_parameter(F: Facts, m: Module, call: ast.Call, pname: str, _depth: int = 0):
    """`module=<parameter>`: the value the parameter has by default - its own default, or the default of the parameter that
    the callers in this module pass for it (lexer_module=lexer on the constructor, handed to a build helper)."""
    if _depth > 3:
        return None
    encl = None
    for fn in ast.walk(m.tree):
        if isinstance(fn, (ast.FunctionDef, ast.AsyncFunctionDef)) and any(x is call for x in ast.walk(fn)):
            if encl is None or any(x is fn for x in ast.walk(encl)):
                encl = fn           # innermost enclosing def
    if encl is None:
        return None
    a = encl.args
    names = [x.arg for x in a.args]
    defaults = dict(zip(names[len(names) - len(a.defaults):], a.defaults))
    defaults.update({x.arg: d for x, d in zip(a.kwonlyargs, a.kw_defaults) if d is not None})
    if pname not in names + [x.arg for x in a.kwonlyargs]:
        return None
    if pname in defaults:
        r = F.resolve_expr(m, defaults[pname])
        return r if r[0] == 'pkgmod' else None
    # no default here: look at what the callers of this function (in the same module) pass
    pos = names.index(pname) if pname in names else None
    for c in ast.walk(m.tree):
        if isinstance(c, ast.Call) and ((isinstance(c.func, ast.Attribute) and c.func.attr == encl.name) or
                                        (isinstance(c.func, ast.Name) and c.func.id == encl.name)):
            arg = None
            for k in c.keywords:
                if k.arg == pname:
                    arg = k.value
            if arg is None and pos is not None:
                off = 1 if names and names[0] in ('self', 'cls') and isinstance(c.func, ast.Attribute) else 0
                if 0 <= pos - off < len(c.args):
                    arg = c.args[pos - off]
            if arg is None:
                continue
            r = F.resolve_expr(m, arg)
            if r[0] == 'pkgmod':
                return r
            if isinstance(arg, ast.Name):
                r2 = _module_behind_parameter(F, m, c, arg.id, _depth + 1)
                if r2 is not None:
                    return r2
    return None


def extract(F: Facts) -> Grammar:
    rules_m, lex_m, info = parser_modules(F)
    try:
        tokens = tuple(module_value(F, rules_m, 'tokens'))
    except NotLiteral as e:
        raise AnalysisError('grammar: `tokens` is not a literal: %s' % e)
    try:
        precedence = tuple(tuple(x) for x in module_value(F, rules_m, 'precedence'))
    except NotLiteral as e:
        raise AnalysisError('grammar: `precedence` is not a literal: %s' % e)
    prec_of: Dict[str, Tuple[str, int]] = {}
    for level, row in enumerate(precedence, 1):
        if len(row) < 2 or row[0] not in ('left', 'right', 'nonassoc'):
            raise AnalysisError('grammar: malformed precedence row %r' % (row,))
        for t in row[1:]:
            if t in prec_of:
                raise AnalysisError('grammar: precedence given twice for %s' % t)
            prec_of[t] = (row[0], level)
    funcs = [(_ply_sort_key(F, rules_m, name, n), name, n) for name, n in rules_m.defs.items()
             if isinstance(n, ast.FunctionDef) and name.startswith('p_') and name != 'p_error']
    funcs.sort(key=lambda x: x[0])
    funcs = [(k[0], name, n) for k, name, n in funcs]
    prods: List[Production] = []
    raw: List[Tuple[str, List[str], str, int, int]] = []
    doc_over = {}
    dyn_ = sorted({n.id for n in ast.walk(rules_m.tree) if isinstance(n, ast.Name) and n.id in ('globals', 'vars', 'locals', 'setattr', 'exec', 'eval')})
    p_assigned = [n_ for n_ in rules_m.assigns if n_.startswith('p_')]
    if dyn_ or p_assigned:
        # action functions that only exist after the module body has run (bound through globals(), made by factories)
        from .symexec import exec_module_body, Closure
        env_ = exec_module_body(F, rules_m)
        for st, msg in F.__dict__.get('_module_env_problems', {}).get(rules_m.name, []):
            names_ = {n.id for n in ast.walk(st) if isinstance(n, ast.Name)}
            if names_ & set(dyn_) or any(x.startswith('p_') for x in names_):
                raise AnalysisError('grammar: %s:%d: the statement may bind grammar actions and could not be evaluated statically: %s'
                                    % (rules_m.rel, st.lineno, msg[:200]))
        extra_ = [k for k in env_ if k.startswith('p_') and k not in rules_m.defs]
        if extra_ or any(x in ('exec', 'eval', 'setattr') for x in dyn_):
            raise AnalysisError('grammar: actions bound at import time (%s) are not modelled: the productions are read from the '
                                'def statements of the rules module' % ', '.join(sorted(extra_)[:4] or dyn_))
    if any(isinstance(n, ast.Attribute) and n.attr == '__doc__' for n in ast.walk(rules_m.tree)):
        # docstrings attached while the module is imported (a decorator computing the productions)
        from .symexec import exec_module_body
        exec_module_body(F, rules_m)
        for st, msg in F.__dict__.get('_module_env_problems', {}).get(rules_m.name, []):
            if isinstance(st, ast.FunctionDef) and st.name.startswith('p_'):
                raise AnalysisError('grammar: %s:%d: the decorators of %s could not be evaluated statically: %s'
                                    % (rules_m.rel, st.lineno, st.name, msg[:200]))
        doc_over = F.__dict__.get('_doc_overrides', {})
    for line, name, node in funcs:
        doc = ast.get_docstring(node, clean=False)
        q_ = rules_m.name + '.' + name
        if q_ in doc_over:
            dv = doc_over[q_]
            if not (isinstance(dv, tuple) and len(dv) == 2 and dv[0] == 'const' and isinstance(dv[1], str)):
                raise AnalysisError('grammar: the docstring attached to %s at import time is not a constant' % name)
            doc = '\n' + dv[1]          # (line numbers of the productions are those of the def)
        if not doc:
            continue
        lastp = None
        alt = 0
        dline = line
        for ps in doc.splitlines():
            dline += 1
            p = ps.split()
            if not p:
                continue
            if p[0] == '|':
                if lastp is None:
                    raise AnalysisError('grammar: %s: misplaced |' % name)
                prodname, syms = lastp, p[1:]
            else:
                prodname = p[0]
                lastp = prodname
                syms = p[2:]
                if len(p) < 2 or p[1] not in (':', '::='):
                    raise AnalysisError('grammar: %s: syntax error in rule %r' % (name, ps))
            raw.append((prodname, syms, name, alt, dline))
            alt += 1
    if not raw:
        raise AnalysisError('grammar: no productions found in %s' % rules_m.name)
    start = raw[0][0]
    if 'start' in rules_m.assigns:
        try:
            start = module_value(F, rules_m, 'start')
        except NotLiteral:
            pass
    prods.append(Production(0, "S'", (start,), ('right', 0), None, 0, 0))
    nts = {r[0] for r in raw}
    for prodname, syms, name, alt, dline in raw:
        syms = list(syms)
        explicit = None
        if '%prec' in syms:
            if syms[-2:-1] != ['%prec'] or len(syms) < 2:
                raise AnalysisError('grammar: %s: %%prec must be followed by one name at the end' % name)
            explicit = syms[-1]
            if explicit not in prec_of:
                raise AnalysisError('grammar: %s: nothing known about the precedence of %s' % (name, explicit))
            pr = prec_of[explicit]
            syms = syms[:-2]
        else:
            # PLY: precedence of the rightmost terminal (rightsearch over Terminals)
            pr = ('right', 0)
            for s in reversed(syms):
                if s not in nts:
                    pr = prec_of.get(s, ('right', 0))
                    break
        prods.append(Production(len(prods), prodname, tuple(syms), pr, name, alt, dline, explicit))
    fnodes = {name: node for _, name, node in funcs}
    err = 'p_error' if 'p_error' in rules_m.defs else None
    g = Grammar(rules_m, lex_m, prods, tokens, precedence, prec_of, start, err, fnodes)
    g.info = info  # type: ignore
    return g


# --------------------------------------------------------------------- lexer
@dataclass
class LexRule:
    name: str                  # token name (t_NAME -> NAME)
    regex: str
    func: Optional[ast.FunctionDef]
    line: int
    dropped: bool = False      # t_ignore_<X> string rule: the match is discarded, no token is produced
    closure: Any = None        # rule function made by a factory at import time: the closure (free variables of the rule)


@dataclass
class LexSpec:
    module: Module
    rules: List[LexRule]       # master-regex order
    ignore: str
    error_func: Optional[ast.FunctionDef]
    tokens: Tuple[str, ...]
    reflags: int


DYNAMIC_BINDERS = ('globals', 'vars', 'locals', 'setattr', 'exec', 'eval', '__dict__')


def _rule_regex(F: Facts, lex_m: Module, name: str, node: ast.FunctionDef, closure=None) -> str:
    doc = ast.get_docstring(node, clean=False)
    if node.decorator_list:
        # @TOKEN(<regex expression>) from ply.lex sets the rule's regex; the expression must fold to a string
        d0 = node.decorator_list[0]
        if len(node.decorator_list) == 1 and isinstance(d0, ast.Call) and len(d0.args) == 1 and not d0.keywords \
                and F.resolve_expr(lex_m, d0.func) in (('ext', 'smartquery.ply.lex.TOKEN'), ('ext', 'smartquery.ply.lex.Token')):
            try:
                if closure is not None:
                    # a rule made by a factory function: the expression is evaluated with the factory's variables
                    from .symexec import SymExec, Frame, Unrecognised
                    from .facts import FuncInfo
                    se = SymExec(F, FuncInfo(closure.qual, lex_m, node))
                    se._reset([])
                    try:
                        doc = to_python(se.ev(d0.args[0], Frame(lex_m, closure.qual, None, env={}, outer=closure.outer)))
                    except Unrecognised as e:
                        raise NotLiteral(str(e))
                else:
                    try:
                        doc = eval_literal(F, lex_m, d0.args[0])
                    except NotLiteral:
                        # computed with package helpers / module-level tables: evaluate in the executed module's bindings
                        from .symexec import SymExec, Frame, Unrecognised, exec_module_body
                        from .facts import FuncInfo
                        env_ = exec_module_body(F, lex_m)
                        se = SymExec(F, FuncInfo(lex_m.name + '.' + name, lex_m, node))
                        se._reset([])
                        se.module_env[lex_m.name] = env_
                        try:
                            doc = to_python(se.ev(d0.args[0], Frame(lex_m, lex_m.name + '.<module>', None, env=dict(env_))))
                        except Unrecognised as e:
                            raise NotLiteral(str(e))
            except NotLiteral as e:
                raise AnalysisError('lexer: the regex of @TOKEN rule %s does not fold to a constant: %s' % (name, e))
            if not isinstance(doc, str):
                raise AnalysisError('lexer: the regex of @TOKEN rule %s is not a string' % name)
        else:
            # decorators of the package that hand the rule back as it is (markers, registries, a decorator that attaches the
            # regex as docstring): PLY sees the same function; the regex is the docstring it has once the module is imported
            key_ = _ply_sort_key(F, lex_m, name, node)          # raises for decorators that are not understood
            if key_[1] != lex_m.rel or key_[0] != _first_line(node):
                raise AnalysisError('lexer: decorated token rule %s is wrapped by its decorator (the wrapper has no regex docstring of its own)' % name)
            from .symexec import exec_module_body
            exec_module_body(F, lex_m)
            for st, msg in F.__dict__.get('_module_env_problems', {}).get(lex_m.name, []):
                if isinstance(st, ast.FunctionDef) and st.name == name:
                    raise AnalysisError('lexer: %s:%d: the decorators of %s could not be evaluated statically: %s' % (lex_m.rel, st.lineno, name, msg[:200]))
            dv = F.__dict__.get('_doc_overrides', {}).get(lex_m.name + '.' + name)
            if dv is not None:
                if not (isinstance(dv, tuple) and len(dv) == 2 and dv[0] == 'const' and isinstance(dv[1], str)):
                    raise AnalysisError('lexer: the docstring attached to %s at import time is not a constant' % name)
                doc = dv[1]
    if not doc:
        raise AnalysisError('lexer: rule %s has no regex docstring' % name)
    return doc


def extract_lexer(F: Facts, g: Optional[Grammar] = None) -> LexSpec:
    if g is None:
        _, lex_m, _ = parser_modules(F)
    else:
        lex_m = g.lexmodule
    if 'states' in lex_m.assigns:
        raise AnalysisError('lexer: lexer states (`states = ...`) are not modelled: the token-level analyses know one rule set only')
    frules: List[LexRule] = []
    srules: List[LexRule] = []
    ignore = ''
    errf = None
    eof_func = None
    for name, node in lex_m.defs.items():
        if isinstance(node, ast.FunctionDef) and name.startswith('t_'):
            tn = name[2:]
            if tn == 'error':
                errf = node
                continue
            if tn == 'eof':
                eof_func = node          # PLY calls it when the input is exhausted; not part of the master regex
                continue
            if tn == 'ignore' or tn.startswith('ignore_'):
                raise AnalysisError('lexer: %s as a function is not modelled' % name)
            # PLY tries function rules in the order of co_firstlineno of the object bound to the name: a decorator that returns a
            # wrapper moves the rule to the wrapper's line (TOKEN(...) from ply.lex sets the regex and returns the function itself)
            deco_ = [d for d in node.decorator_list if F.resolve_expr(lex_m, d.func if isinstance(d, ast.Call) else d) not in (
                ('ext', 'smartquery.ply.lex.TOKEN'), ('ext', 'smartquery.ply.lex.Token'))]
            line_ = node.lineno
            if deco_:
                probe_ = ast.FunctionDef(name=node.name, args=node.args, body=node.body, decorator_list=deco_, returns=None, type_comment=None,
                                         lineno=node.lineno, col_offset=0, end_lineno=getattr(node, 'end_lineno', node.lineno), end_col_offset=0)
                key_ = _ply_sort_key(F, lex_m, name, probe_)
                if key_[1] != lex_m.rel or key_[0] != _first_line(probe_):
                    line_ = key_[0]
            frules.append(LexRule(tn, _rule_regex(F, lex_m, name, node), node, line_))
    # rules the module does not spell as `def t_X` / `t_X = '<regex>'`: made while the module is imported (factory functions
    # returning rule closures, regexes computed from tables, globals().update(...)).  The module body is run through the
    # evaluator once and the t_ bindings are read from the result.
    plain = all(len(vals) == 1 and isinstance(vals[0], ast.Constant) and isinstance(vals[0].value, str)
                for name, vals in lex_m.assigns.items() if name.startswith('t_'))
    dynamic = sorted({n.id for n in ast.walk(lex_m.tree) if isinstance(n, ast.Name) and n.id in DYNAMIC_BINDERS} |
                     {n.attr for n in ast.walk(lex_m.tree) if isinstance(n, ast.Attribute) and n.attr in DYNAMIC_BINDERS})
    if plain and not dynamic:
        for name, vals in lex_m.assigns.items():
            if name.startswith('t_'):
                tn = name[2:]
                if tn == 'ignore':
                    ignore = vals[0].value
                    continue
                srules.append(LexRule(tn, vals[0].value, None, vals[0].lineno, dropped=tn.startswith('ignore_')))
        srules.sort(key=lambda r: r.name)
    else:
        from .symexec import exec_module_body, module_binding_order, Closure, freeze
        env = exec_module_body(F, lex_m)
        order = module_binding_order(F, lex_m)
        for st, msg in F.__dict__.get('_module_env_problems', {}).get(lex_m.name, []):
            names = {n.id for n in ast.walk(st) if isinstance(n, ast.Name)}
            if names & set(DYNAMIC_BINDERS) or any(x.startswith('t_') for x in names) or 'tokens' in names:
                raise AnalysisError('lexer: %s:%d: the statement may bind token rules and could not be evaluated statically: %s'
                                    % (lex_m.rel, st.lineno, msg[:200]))
        if any(x in ('exec', 'eval', 'setattr', '__dict__') for x in dynamic):
            raise AnalysisError('lexer: the lexer module uses %s; the rule set cannot be read off the source'
                                % ', '.join(x for x in dynamic if x in ('exec', 'eval', 'setattr', '__dict__')))
        for name in order:
            if not name.startswith('t_') or name in lex_m.defs:
                continue
            tn = name[2:]
            v = env.get(name)
            forced_regex = None
            if isinstance(v, tuple) and v[:1] == ('tokenrule',) and len(v) == 3:
                # TOKEN(<regex>)(<function>) applied as a call
                rx_ = freeze(v[1])
                if not (isinstance(rx_, tuple) and len(rx_) == 2 and rx_[0] == 'const' and isinstance(rx_[1], str)):
                    raise AnalysisError('lexer: the regex given to TOKEN(...) for %s is not a constant' % name)
                forced_regex = rx_[1]
                v = v[2]
            if isinstance(v, Closure):
                if not isinstance(v.node, ast.FunctionDef):
                    raise AnalysisError('lexer: %s is bound to a lambda; PLY rules need a docstring or @TOKEN' % name)
                if tn in ('error', 'eof', 'ignore') or tn.startswith('ignore_'):
                    raise AnalysisError('lexer: %s made at import time is not modelled' % name)
                r = LexRule(tn, forced_regex if forced_regex is not None else _rule_regex(F, lex_m, name, v.node, v), v.node, v.node.lineno)
                r.closure = v
                frules.append(r)
                continue
            fv = freeze(v)
            if isinstance(fv, tuple) and fv[:1] == ('ref',) and fv[1] in ('fnraw', 'func', 'fn') and fv[2] in F.functions:
                fi = F.functions[fv[2]]
                if tn in ('error', 'eof', 'ignore') or tn.startswith('ignore_'):
                    raise AnalysisError('lexer: %s bound to another function is not modelled' % name)
                frules.append(LexRule(tn, forced_regex if forced_regex is not None else _rule_regex(F, lex_m, name, fi.node), fi.node, fi.node.lineno))
                continue
            if forced_regex is not None:
                raise AnalysisError('lexer: TOKEN(...) applied to something that is not a function of the package (%s)' % name)
            if isinstance(fv, tuple) and len(fv) == 2 and fv[0] == 'const' and isinstance(fv[1], str):
                if tn == 'ignore':
                    ignore = fv[1]
                    continue
                line = lex_m.assigns[name][0].lineno if name in lex_m.assigns and lex_m.assigns[name][0] is not None else 0
                srules.append(LexRule(tn, fv[1], None, line, dropped=tn.startswith('ignore_')))
                continue
            raise AnalysisError('lexer: %s is bound at import time to something that is neither a regex string nor a rule function: %r'
                                % (name, fv if not isinstance(v, Closure) else v))
        for name in lex_m.assigns:
            if name.startswith('t_') and name not in env:
                raise AnalysisError('lexer: %s is assigned but running the module body does not bind it' % name)
        # PLY is given the module object and collects the symbols from dir(module), i.e. alphabetically; the sorts by line
        # (function rules) and by regex length (string rules) below are stable
        frules.sort(key=lambda r: r.name)
        srules.sort(key=lambda r: r.name)
    frules.sort(key=lambda r: r.line)
    # PLY: string rules sorted by decreasing regex length (stable for ties: sort is on a list built from
    # dir() order, i.e. alphabetical by name)
    srules.sort(key=lambda r: len(r.regex), reverse=True)
    try:
        tokens = tuple(module_value(F, lex_m, 'tokens'))
    except NotLiteral as e:
        raise AnalysisError('lexer: tokens not literal: %s' % e)
    spec = LexSpec(lex_m, frules + srules, ignore, errf, tokens, re.VERBOSE)
    spec.eof_func = eof_func  # type: ignore
    return spec
