"""Lazily built, per-run shared artefacts (grammar, automaton, lexer model, templates)."""
from __future__ import annotations

from .facts import Facts
from . import grammar as _g, lalr as _l, lexmodel as _lm, actions as _a


def _cache(F: Facts):
    c = getattr(F, '_ctx_cache', None)
    if c is None:
        c = {}
        F._ctx_cache = c  # type: ignore
    return c


def grammar(F: Facts) -> _g.Grammar:
    c = _cache(F)
    if 'g' not in c:
        c['g'] = _g.extract(F)
    return c['g']


def tables(F: Facts) -> _l.Tables:
    c = _cache(F)
    if 't' not in c:
        c['t'] = _l.build(grammar(F))
    return c['t']


def lexmodel(F: Facts) -> _lm.LexModel:
    c = _cache(F)
    if 'lm' not in c:
        c['lm'] = _lm.build(F, grammar(F))
    return c['lm']


def templates(F: Facts) -> _a.Templates:
    c = _cache(F)
    if 'tp' not in c:
        c['tp'] = _a.build(F, grammar(F), lexmodel(F))
    return c['tp']
