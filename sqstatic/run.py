"""Driver:  python -m sqstatic.run C01 [--tier quick|thorough] [--repo DIR] [--explain FILE]"""
from __future__ import annotations

import argparse
import importlib
import json
import os
import sys
import traceback

from . import facts as facts_mod
from .facts import AnalysisError
from .report import Check, finish


def main(argv=None) -> int:
    ap = argparse.ArgumentParser()
    ap.add_argument('prop')
    ap.add_argument('--tier', default=os.environ.get('VERIF_TIER', 'quick'), choices=['quick', 'thorough'])
    ap.add_argument('--repo', default=os.environ.get('SQSTATIC_REPO', '/repo'))
    ap.add_argument('--explain')
    ap.add_argument('--evidence-dir')
    ap.add_argument('--quiet', action='store_true')
    a = ap.parse_args(argv)
    if a.explain:
        with open(a.explain) as f:
            r = json.load(f)
        print('property  : %s' % r['property'])
        print('rule      : %s  -- %s' % (r['rule'], r.get('rule_text', '')))
        print('construct : %s' % r['construct'])
        print('where     : %s' % r['where'])
        print('detail    : %s' % r['detail'])
        print('re-running the check on %s ...' % a.repo)
    prop = a.prop.upper()
    try:
        seed = int(os.environ.get('VERIF_SEED', '0') or 0)
    except ValueError:
        seed = 0
    try:
        mod = importlib.import_module('sqstatic.props.%s' % prop.lower())
    except ImportError as e:
        print('ANALYSIS-ERROR property=%s no checker module: %s' % (prop, e))
        return 2
    chk = None
    try:
        F = facts_mod.load(a.repo)
        chk = Check(prop, F, a.tier)
        from .props import common as _common
        from . import opmodel as _om
        _common.CURRENT_FACTS[0] = F
        _om.prepare(F)
        mod.check(chk)
        if a.tier == 'thorough' and not os.environ.get('SQSTATIC_NO_SELFTEST'):
            # re-validate this checker against its mutant / benign corpus (scratch copies, 16 processes)
            sys.path.insert(0, os.path.dirname(os.path.dirname(os.path.abspath(__file__))))
            from selftest.run import for_property
            st = for_property(prop, a.repo)
            chk.extra['checker_selftest'] = st
            if st.get('ran') and st.get('failed'):
                rc = finish(chk, seed=seed, evidence_dir=a.evidence_dir, quiet=a.quiet)
                for f in st['failed']:
                    print('ANALYSIS-ERROR property=%s checker self-test entry %s failed: %s' % (prop, f['id'], f['why']))
                return rc if rc == 1 else 2
            if not a.quiet:
                print('%s: checker self-test: %s' % (prop, ('%d corpus entries (%d mutants caught, %d benign variants silent), %d skipped' % (
                    st['entries'], st['mutants'], st['benign'], len(st['skipped']))) if st.get('ran') else st.get('reason')))
        return finish(chk, seed=seed, evidence_dir=a.evidence_dir, quiet=a.quiet)
    except AnalysisError as e:
        # what was established before the analysis had to stop is still reported: a violation outranks the analysis error
        if chk is not None and any(o.verdict == 'violated' for o in chk.obs):
            chk.floors = {}
            chk.notes.append('analysis stopped early: %s' % e)
            rc = finish(chk, seed=seed, evidence_dir=a.evidence_dir, quiet=a.quiet)
            print('ANALYSIS-ERROR property=%s %s' % (prop, e))
            return rc if rc == 1 else 2
        print('ANALYSIS-ERROR property=%s %s' % (prop, e))
        return 2
    except Exception as e:  # internal error: never a verdict
        traceback.print_exc()
        print('ANALYSIS-ERROR property=%s internal error: %s: %s' % (prop, type(e).__name__, e))
        return 2


if __name__ == '__main__':
    sys.exit(main())
