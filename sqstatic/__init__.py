"""sqstatic -- repository-specific static analysis for alekseyl1992/smartquery.

Nothing in this package imports or executes code from the analysed tree
(one labelled exception: ply/yacc.py's table *generator*, see lalr.py).
"""
